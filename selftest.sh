#!/bin/bash
# setup_cmd: nothing is compiled or fetched; run the reference models' self-tests.
cd "$(dirname "${BASH_SOURCE[0]}")"
export PYTHONPATH="$PWD" PYTHONDONTWRITEBYTECODE=1
set -e
for m in mc/ref/*.py; do
  n=$(basename "$m" .py); [ "$n" = "__init__" ] && continue
  if grep -q "def selftest" "$m"; then /venv/bin/python -c "import mc.ref.$n as r; r.selftest(); print('selftest', '$n', 'ok')"; fi
done
