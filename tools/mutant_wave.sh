#!/bin/bash
# tools/mutant_wave.sh <results.jsonl> <PROP:dir> ...   runs run_mutant.sh sequentially
out="$1"; shift
for item in "$@"; do
  prop="${item%%:*}"; dir="${item#*:}"
  /verif/tools/run_mutant.sh "$dir" "$prop" quick ${EXTRA_PROPS:-} >> "$out" 2>/tmp/mt/err.log
done
echo "WAVE-DONE" >> "$out"
