#!/venv/bin/python
"""Regenerate MANIFEST.json from the table below (single source of truth for what is claimed)."""
import json
import os

VERIF = os.path.dirname(os.path.dirname(os.path.abspath(__file__)))
E1 = "E1 bounded-exhaustive enumerator (mc/runner.py, mc/props/*)"
E2 = "E2 fork-replay explicit-state explorer (mc/explore/hist.py)"
E3 = "E3 preemption-bounded thread-schedule explorer (mc/explore/sched.py)"

CLAIMS = {
    "C01": dict(
        engine=E1, category="exploration", design_ref="DESIGN.md section 3, C01",
        technique="bounded-exhaustive enumeration of operand pairs x operators x access paths on the real code, oracle = exact integer / rational-rounded binary64 reference model",
        text="Every ordered pair over the int64/uint64 boundary alphabets and the double alphabet, for every arithmetic operator and unary minus, through the celtypes dunders, the reflected dunders, bound-variable expressions and literal expressions under both runners, is compared with exact arithmetic; the space is finite and enumerated completely, so within the alphabet no wrapped, saturated, wrongly signed or wrongly rounded result can exist.",
        note="Operands outside the alphabets are not explored. Double reference trusts CPython's correctly rounded int/int division (cross-checked against hardware floats in the self-test).",
    ),
}

NOT_YET = "check not built yet in this session (see DESIGN.md section 9 build order)"


def main():
    props = [json.loads(l)["id"] for l in open(os.path.join(VERIF, "properties.jsonl"))]
    checks = []
    for p in props:
        c = CLAIMS.get(p)
        if not c:
            continue
        checks.append({
            "property_id": p,
            "quick_cmd": f"./check {p} --tier quick",
            "thorough_cmd": f"./check {p} --tier thorough",
            "evidence_file": f"/verif/evidence/{p}.json",
            "replay_cmd_template": f"./check {p} --replay {{path}}",
            "engine": c["engine"],
            "level_claimed": {"category": c["category"], "text": c["text"], "design_ref": c["design_ref"]},
            "level_note": c["note"],
            "technique": c["technique"],
        })
    m = {
        "version": 1,
        "setup_cmd": "./selftest.sh",
        "hooks": {
            "guard": "CELPY_VERIF",
            "enable": "no hooks are compiled into cel-python: checks import $VERIF_REPO/src (default /repo/src) in a fresh Python process; switch points come from sys.settrace, parser construction is memoised from the harness",
            "baseline_off_cmd": "cd /repo && env -u CELPY_VERIF /venv/bin/python -m pytest -ra -q -p no:cacheprovider --timeout=900 --continue-on-collection-errors",
            "source_commits": [],
            "add_only": True,
        },
        "engines": [
            {"name": "E1", "path": "mc/runner.py", "serves_properties": [p for p in props if CLAIMS.get(p, {}).get("engine") == E1], "kind_free_text": "bounded-exhaustive enumeration of inputs/programs/configurations over the real code, sharded over 16 forked workers"},
            {"name": "E2", "path": "mc/explore/hist.py", "serves_properties": [p for p in props if CLAIMS.get(p, {}).get("engine") == E2], "kind_free_text": "explicit-state BFS over API-call histories; each state rebuilt by replay in a fork of a pristine zygote"},
            {"name": "E3", "path": "mc/explore/sched.py", "serves_properties": [p for p in props if CLAIMS.get(p, {}).get("engine") == E3], "kind_free_text": "stateless preemption-bounded exploration of real threads under a sys.settrace baton scheduler"},
        ],
        "checks": checks,
        "notes": "Exit 0 = held on everything explored; 1 = VIOLATION line printed; 3 = harness error. Known findings: /verif/known_findings.jsonl. VERIF_REPO selects the tree (default /repo).",
        "not_applicable": [{"property_id": p, "reason": NA.get(p, NOT_YET)} for p in props if p not in CLAIMS],
    }
    with open(os.path.join(VERIF, "MANIFEST.json"), "w") as f:
        json.dump(m, f, indent=1)
    print("MANIFEST.json:", len(checks), "claimed,", len(m["not_applicable"]), "not_applicable")


NA = {}

if __name__ == "__main__":
    main()
