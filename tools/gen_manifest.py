#!/venv/bin/python
"""Regenerate MANIFEST.json from the table below (single source of truth for what is claimed)."""
import json
import os

VERIF = os.path.dirname(os.path.dirname(os.path.abspath(__file__)))
E1 = "E1 bounded-exhaustive enumerator (mc/runner.py, mc/props/*)"
E2 = "E2 fork-replay explicit-state explorer (mc/explore/hist.py)"
E3 = "E3 preemption-bounded thread-schedule explorer (mc/explore/sched.py)"

def claim(design, technique, text, note, engine=E1, category="exploration"):
    return dict(engine=engine, category=category, design_ref=f"DESIGN.md section 3, {design}", technique=technique, text=text, note=note)


BE = "bounded-exhaustive enumeration on the real code"

CLAIMS = {
    "C01": claim("C01", BE + " of operand pairs x operators x access paths; oracle = exact integer / rational-rounded binary64 reference model",
                 "Every ordered pair over the int64/uint64 boundary alphabets and the double alphabet, for every arithmetic operator and unary minus, through the celtypes dunders, the reflected dunders, bound-variable expressions and literal expressions under both runners, is compared with exact arithmetic; the space is finite and enumerated completely, so within the alphabet no wrapped, saturated, wrongly signed or wrongly rounded result can exist.",
                 "Operands outside the alphabets are not explored. Double reference trusts CPython's correctly rounded int/int division (cross-checked against hardware floats in the self-test)."),
    "C02": claim("C02", BE + " of every nesting of ! && || ?: to two operator levels over {true, false, one error leaf per failing mechanism, non-boolean}, every {T,F,E} list of length <= 4 for all()/exists(), swap differential; oracle = three-valued (Kleene) reference with UNSPEC",
                 "All assignments of outcome classes to operand positions up to two operator levels are run under both runners (level 1 also straight through celtypes.logical_*) and compared with a Kleene table that only states what the property states; lists of outcomes are folded by the same table; commutativity is additionally checked as a differential on every pair.",
                 "Nesting deeper than two levels is not explored; error leaves are one per mechanism; cases the property is silent on (true && 1, !1) are counted, not compared."),
    "C03": claim("C03", BE + " of the conformance corpus and of every generated term to two operator levels under three activations; differential oracle interpreter vs transpiler (separate processes)",
                 "Every corpus expression and every term of the generator's signature (each operator, function, method, macro, index, select, has, ?: over every leaf tuple; level-2 roots over typed results, error leaves and literal spellings; size-limit family) is evaluated by both runners in separate worker processes and the canonical outcomes are compared; an asymmetric pair is a violation attributed to its minimal diverging sub-term.",
                 "Terms beyond two operator levels only through the corpus; constructs outside the CEL language definition (reduce, min, cel.block, optional.*, two-variable comprehensions) are not compared."),
    "C04": claim("C04", BE + " of all token strings up to 4 (thorough 5) tokens plus every single-token edit of every corpus expression (compile), and of the generated program space x 3 activations x 2 runners (evaluate); oracle = outcome class in {value, CEL error, parse error with position inside the text}, str()/repr() of every raised error",
                 "No input in the enumerated spaces makes compile(), program() or evaluate() raise anything but the library's parse / evaluation errors, every parse error carries a line and column inside the text, and every raised error renders.",
                 "Strings longer than the token bound only as edited corpus expressions; host functions raising arbitrary exceptions are outside the property."),
    "C07": claim("C07", BE + " of every string/byte string over a difficult-character alphabet up to length 3 (thorough 4) in each quoting style and escaping strategy, every legal literal body up to length 4/5 over a source alphabet, int/uint boundary values in every spelling, doubles in every spelling; oracle = independent literal encoder/decoder (litcodec)",
                 "Encoding any enumerated value as a CEL literal in any style and evaluating it under either runner returns the value; every legal escape body decodes to the code points / octets the language definition prescribes; numeric literals denote the spelled number or are errors when out of range.",
                 "Characters outside the alphabet (one representative per UTF-8 length, escape class and quote class) and longer strings are not explored; spellings outside legal CEL are not compared."),
    "C08": claim("C08", BE + " of all ordered pairs (and, on the relation matrix, all triples) of same-type values per CEL type; oracle = order/equality laws + reference order of the plain values",
                 "For every type alphabet the six relations are evaluated on every ordered pair through bound variables, literals and raw/wrapped operands under both runners; reflexivity, symmetry, negation, trichotomy, converse, <= definition and transitivity are checked on the complete matrix, plus agreement with an independent reference (code points, instants, structural congruence).",
                 "NaN and cross-type comparisons are outside the property; values outside the alphabets are not explored."),
    "C10": claim("C10", BE + " of conversion round trips over boundary integers, doubles, strings/bytes over an alphabet, whole-second timestamps and durations, and unparsable texts; oracle = independent text/number/time reference (convref, timetext)",
                 "Every listed round trip holds for every enumerated value under both runners, truncation is toward zero, and every out-of-range or unparsable conversion is an evaluation error.",
                 "Values outside the alphabets; spellings the property is silent on (surrounding spaces, underscores, non-ASCII digits, nan/inf, out-of-range offset minutes) are counted, not compared."),
    "C11": claim("C11", BE + " of instants x durations x offsets x IANA zones x accessors and of duration texts; oracle = pure-integer proleptic-Gregorian calendar and exact rational duration grammar",
                 "All arithmetic identities, range errors, the ten accessors in UTC / every 15-minute offset / seven IANA zones, and every duration text of the bounded grammar agree with an independent calendar computation that never imports datetime.",
                 "Leap seconds, pre-1971 IANA offsets and instants outside the alphabet are not explored; local civil dates leaving years 1..9999 are not compared."),
    "C13": claim("C13", BE + " of every well-typed term of the generator (root and nested one level); oracle = reference type checker -> library class (recursively) and type(e) == T for all twelve type names",
                 "For each well-typed program both runners' return values are instances of the library class of the program's CEL type, containers hold library objects only, and type(e) == T is true for exactly the matching name.",
                 "Only the signature of mc/gen.py is typed; programs that raise at run time have no value to judge."),
    "C15": claim("C15", BE + " of all JSON documents to depth 2 (thorough 3) over a scalar alphabet and of every valid path in every spelling; oracle = type-strict JSON equality, class mapping, path walk, RFC 3339 / seconds / base64 references",
                 "Every enumerated document converts to the prescribed CEL classes, round-trips type-strictly through json.dumps and json.dump with the library encoder, and every path reaches the same element under both runners; timestamps, durations and bytes encode as prescribed.",
                 "Documents beyond the depth/size bound and scalars outside the alphabet are not explored; fractional-second encodings are not compared."),
}

NOT_YET = "check not built yet in this session (see DESIGN.md section 9 build order)"


def main():
    props = [json.loads(l)["id"] for l in open(os.path.join(VERIF, "properties.jsonl"))]
    checks = []
    for p in props:
        c = CLAIMS.get(p)
        if not c:
            continue
        checks.append({
            "property_id": p,
            "quick_cmd": f"./check {p} --tier quick",
            "thorough_cmd": f"./check {p} --tier thorough",
            "evidence_file": f"/verif/evidence/{p}.json",
            "replay_cmd_template": f"./check {p} --replay {{path}}",
            "engine": c["engine"],
            "level_claimed": {"category": c["category"], "text": c["text"], "design_ref": c["design_ref"]},
            "level_note": c["note"],
            "technique": c["technique"],
        })
    m = {
        "version": 1,
        "setup_cmd": "./selftest.sh",
        "hooks": {
            "guard": "CELPY_VERIF",
            "enable": "no hooks are compiled into cel-python: checks import $VERIF_REPO/src (default /repo/src) in a fresh Python process; switch points come from sys.settrace, parser construction is memoised from the harness",
            "baseline_off_cmd": "cd /repo && env -u CELPY_VERIF /venv/bin/python -m pytest -ra -q -p no:cacheprovider --timeout=900 --continue-on-collection-errors",
            "source_commits": [],
            "add_only": True,
        },
        "engines": [
            {"name": "E1", "path": "mc/runner.py", "serves_properties": [p for p in props if CLAIMS.get(p, {}).get("engine") == E1], "kind_free_text": "bounded-exhaustive enumeration of inputs/programs/configurations over the real code, sharded over 16 forked workers"},
            {"name": "E2", "path": "mc/explore/hist.py", "serves_properties": [p for p in props if CLAIMS.get(p, {}).get("engine") == E2], "kind_free_text": "explicit-state BFS over API-call histories; each state rebuilt by replay in a fork of a pristine zygote"},
            {"name": "E3", "path": "mc/explore/sched.py", "serves_properties": [p for p in props if CLAIMS.get(p, {}).get("engine") == E3], "kind_free_text": "stateless preemption-bounded exploration of real threads under a sys.settrace baton scheduler"},
        ],
        "checks": checks,
        "notes": "Exit 0 = held on everything explored; 1 = VIOLATION line printed; 3 = harness error. Known findings: /verif/known_findings.jsonl. VERIF_REPO selects the tree (default /repo).",
        "not_applicable": [{"property_id": p, "reason": NA.get(p, NOT_YET)} for p in props if p not in CLAIMS],
    }
    with open(os.path.join(VERIF, "MANIFEST.json"), "w") as f:
        json.dump(m, f, indent=1)
    print("MANIFEST.json:", len(checks), "claimed,", len(m["not_applicable"]), "not_applicable")


NA = {}

if __name__ == "__main__":
    main()
