#!/venv/bin/python
"""Regenerate MANIFEST.json from the table below (single source of truth for what is claimed)."""
import json
import os

VERIF = os.path.dirname(os.path.dirname(os.path.abspath(__file__)))
E1 = "E1 bounded-exhaustive enumerator (mc/runner.py, mc/props/*)"
E2 = "E2 fork-replay explicit-state explorer (mc/explore/hist.py)"
E3 = "E3 preemption-bounded thread-schedule explorer (mc/explore/sched.py)"

def claim(design, technique, text, note, engine=E1, category="exploration"):
    return dict(engine=engine, category=category, design_ref=f"DESIGN.md section 3, {design}", technique=technique, text=text, note=note)


BE = "bounded-exhaustive enumeration on the real code"

CLAIMS = {
    "C01": claim("C01", BE + " of operand pairs x operators x access paths; oracle = exact integer / rational-rounded binary64 reference model",
                 "Every ordered pair over the int64/uint64 boundary alphabets and the double alphabet, for every arithmetic operator and unary minus, through the celtypes dunders, the reflected dunders, bound-variable expressions and literal expressions under both runners, is compared with exact arithmetic; the space is finite and enumerated completely, so within the alphabet no wrapped, saturated, wrongly signed or wrongly rounded result can exist.",
                 "Operands outside the alphabets are not explored. Double reference trusts CPython's correctly rounded int/int division (cross-checked against hardware floats in the self-test)."),
    "C02": claim("C02", BE + " of every nesting of ! && || ?: to two operator levels over {true, false, one error leaf per failing mechanism, non-boolean}, every {T,F,E} list of length <= 4 for all()/exists(), swap differential; oracle = three-valued (Kleene) reference with UNSPEC",
                 "All assignments of outcome classes to operand positions up to two operator levels are run under both runners (level 1 also straight through celtypes.logical_*) and compared with a Kleene table that only states what the property states; lists of outcomes are folded by the same table; commutativity is additionally checked as a differential on every pair.",
                 "Nesting deeper than two levels is not explored; error leaves are one per mechanism; cases the property is silent on (true && 1, !1) are counted, not compared."),
    "C03": claim("C03", BE + " of the conformance corpus and of every generated term to two operator levels under three activations; differential oracle interpreter vs transpiler (separate processes)",
                 "Every corpus expression and every term of the generator's signature (each operator, function, method, macro, index, select, has, ?: over every leaf tuple; level-2 roots over typed results, error leaves and literal spellings; size-limit family) is evaluated by both runners in separate worker processes and the canonical outcomes are compared; an asymmetric pair is a violation attributed to its minimal diverging sub-term.",
                 "Terms beyond two operator levels only through the corpus; constructs outside the CEL language definition (reduce, min, cel.block, optional.*, two-variable comprehensions) are not compared."),
    "C04": claim("C04", BE + " of all token strings up to 4 (thorough 5) tokens plus every single-token edit of every corpus expression (compile), and of the generated program space x 3 activations x 2 runners (evaluate); oracle = outcome class in {value, CEL error, parse error with position inside the text}, str()/repr() of every raised error",
                 "No input in the enumerated spaces makes compile(), program() or evaluate() raise anything but the library's parse / evaluation errors, every parse error carries a line and column inside the text, and every raised error renders.",
                 "Strings longer than the token bound only as edited corpus expressions; host functions raising arbitrary exceptions are outside the property."),
    "C07": claim("C07", BE + " of every string/byte string over a difficult-character alphabet up to length 3 (thorough 4) in each quoting style and escaping strategy, every legal literal body up to length 4/5 over a source alphabet, int/uint boundary values in every spelling, doubles in every spelling; oracle = independent literal encoder/decoder (litcodec)",
                 "Encoding any enumerated value as a CEL literal in any style and evaluating it under either runner returns the value; every legal escape body decodes to the code points / octets the language definition prescribes; numeric literals denote the spelled number or are errors when out of range.",
                 "Characters outside the alphabet (one representative per UTF-8 length, escape class and quote class) and longer strings are not explored; spellings outside legal CEL are not compared."),
    "C08": claim("C08", BE + " of all ordered pairs (and, on the relation matrix, all triples) of same-type values per CEL type; oracle = order/equality laws + reference order of the plain values",
                 "For every type alphabet the six relations are evaluated on every ordered pair through bound variables, literals and raw/wrapped operands under both runners; reflexivity, symmetry, negation, trichotomy, converse, <= definition and transitivity are checked on the complete matrix, plus agreement with an independent reference (code points, instants, structural congruence).",
                 "NaN and cross-type comparisons are outside the property; values outside the alphabets are not explored."),
    "C10": claim("C10", BE + " of conversion round trips over boundary integers, doubles, strings/bytes over an alphabet, whole-second timestamps and durations, and unparsable texts; oracle = independent text/number/time reference (convref, timetext)",
                 "Every listed round trip holds for every enumerated value under both runners, truncation is toward zero, and every out-of-range or unparsable conversion is an evaluation error.",
                 "Values outside the alphabets; spellings the property is silent on (surrounding spaces, underscores, non-ASCII digits, nan/inf, out-of-range offset minutes) are counted, not compared."),
    "C11": claim("C11", BE + " of instants x durations x offsets x IANA zones x accessors and of duration texts; oracle = pure-integer proleptic-Gregorian calendar and exact rational duration grammar",
                 "All arithmetic identities, range errors, the ten accessors in UTC / every 15-minute offset / eight IANA zones (one with a seconds-valued offset), four ways of constructing the operand (fields, Z text, positive- and negative-offset text), and every duration text of the bounded grammar agree with an independent calendar computation that never imports datetime; every term of a 37-term alphabet is also evaluated after every other term in one process (history sub-space).",
                 "Leap seconds, pre-1971 IANA offsets and instants outside the alphabet are not explored; local civil dates leaving years 1..9999 are not compared."),
    "C13": claim("C13", BE + " of every well-typed term of the generator (root and nested one level); oracle = reference type checker -> library class (recursively) and type(e) == T for all twelve type names",
                 "For each well-typed program both runners' return values are instances of the library class of the program's CEL type, containers hold library objects only, and type(e) == T is true for exactly the matching name.",
                 "Only the signature of mc/gen.py is typed; programs that raise at run time have no value to judge."),
    "C15": claim("C15", BE + " of all JSON documents to depth 2 (thorough 3) over a scalar alphabet and of every valid path in every spelling; oracle = type-strict JSON equality, class mapping, path walk, RFC 3339 / seconds / base64 references",
                 "Every enumerated document converts to the prescribed CEL classes, round-trips type-strictly through json.dumps and json.dump with the library encoder, and every path reaches the same element under both runners; timestamps, durations and bytes encode as prescribed; converting a converted document again changes nothing, and every history of up to three encode / iterencode / decode calls on one encoder / decoder object gives the single-call results.",
                 "Documents beyond the depth/size bound and scalars outside the alphabet are not explored; fractional-second encodings are not compared."),
    "C05": claim("C05", "explicit-state exploration over histories of real API calls (env / prog / eval / reeval; one environment slot, two program slots): ALL histories up to a depth bound plus BFS with de-duplication by a canonical digest of slot contents, runner-object structure and changed process-wide names; each evaluation compared with the same evaluation alone in a fresh python subprocess",
                 "Every history within the bound is replayed on fresh real objects from the pristine process state; each evaluation outcome (value, class, or error) must equal the outcome of [env, prog, eval] run alone in a fresh process, bindings must be left unmodified and re-evaluation must reproduce the previous outcome. Every violation is re-run in a fresh subprocess before it is reported.",
                 "One environment slot and two live programs; between histories inside a worker the library's module- and class-level state is restored to the pristine snapshot (generic snapshot of every module/class attribute of the library); lark.Lark construction memoised.",
                 engine=E2, category="model_checking"),
    "C06": claim("C06", BE + " of every pair and triple of adjacent operators, every operator shape up to 3 (thorough 4) operators, whitespace/comment variants, keyword positions; oracle = independent precedence-climbing reference parser and printer (celast), dump round trip by tree equality",
                 "Every enumerated text parses to the term it was printed from under CEL's precedence and associativity (minimal and fully parenthesised spellings agree), keywords are literals in every primary position, whitespace and comments are insignificant, and parse(tree_dump(t)) == t for every tree of the term space.",
                 "Terms beyond the operator bound; leaves filled from the atom alphabet under rotations rather than all tuples beyond one operator."),
    "C09": claim("C09", BE + " of small lists / maps / strings / regexes with every macro, index, lookup and string function; oracle = reference semantics computed on plain Python values, a position-set regex matcher, Kleene folds, and the stated laws as direct differentials",
                 "For every list up to length 4 over small alphabets, every index in the int64 boundary set, every map of up to two entries per key alphabet (duplicates, every order), every string up to length 3 over {a, b, e-acute, emoji} and every regex up to 4 nodes against every text up to length 4, both runners return what the CEL definition prescribes, and out-of-range / negative indexes, missing keys, duplicate keys and invalid patterns are errors.",
                 "Heterogeneous lists, cross-type keys, uint/double indexes and regex features outside the fragment are not explored."),
    "C12": claim("C12", BE + " of every assignment of {absent, scalar, map} to the dotted names {a, a.b, a.b.c} at levels {root, p, p.q} x packages x references, as bindings and as bindings shadowing declarations, and of every macro nesting to depth 3 with colliding and distinct variables; oracle = longest-prefix reference resolver and a lexically scoped reference evaluator",
                 "Every reference resolves to the binding the statement names (first level that binds a, longest prefix, remaining components as selections), bindings beat declarations, and iteration variables are visible inside their macro body only, under both runners.",
                 "Paths of at most three components over one root name; references naming a namespace, levels mentioning `a` only through non-prefix names, the leading-dot form and declared-but-unbound names are not compared."),
    "C14": claim("C14", BE + " of call shapes x supplying styles x callable kinds x behaviours x runners with a recording wrapper; oracle = expected outcome and expected call log (once per call site reached, CEL-value arguments)",
                 "Every way of supplying a host function yields the same binding in function and method form, the function is invoked once per reached call site with the evaluated arguments, returned / raised errors behave as evaluation errors absorbed by || && ?:, a function named like a built-in replaces it for that program only (every program order), and unbound names are errors.",
                 "Small integer arguments; evaluation order between sibling call sites is not asserted."),
    "C16": claim("C16", "stateless preemption-bounded exploration (iterative context bounding) of 2-3 real threads under a cooperative scheduler that owns every Python line event inside the library and the generated code; oracle = each thread's result vector equals its solo vector (fresh python subprocess)",
                 "Every schedule with at most the stated number of preemptions, for every runner mix and for cold and warm parser state, is executed on the real library; each thread creates its own Environment and program and evaluates; no schedule changes any thread's results. The thread programs are forced to collide (same scratch names and variable names, pairwise different results; one pair with identical generated code, one pair binding different host functions under one name, one deeply nested program that needs the raised recursion limit); configurations at function-entry granularity near the API explore two (thorough three) preemptions.",
                 "Switch points are Python line events in celpy/*.py and generated code (byte-code events in the functions touching process-wide state for the opcode configuration): C-level callee internals are atomic under the GIL. Executions run in long-lived workers with the library's process-wide state restored between executions; violations are confirmed from a pristine fork. Free-running stress is sampling and is not used.",
                 engine=E3, category="model_checking"),
    "C17": claim("C17", BE + " of helper inputs (list pairs, strings, glob patterns x texts, every prefix length of six networks x boundary targets, version pairs, tag lists, ARN shapes) called directly and through CEL, plus explicit-state exploration of all evaluation histories up to length 4 for the filter context (successful / CEL-failing / host-raising evaluations and one nested evaluation, four ways of installing the filter); oracle = set algebra, shell-pattern matcher, 32-bit CIDR arithmetic, version tuples, first-match tags, ARN table, context model",
                 "Each helper agrees with its reference on every enumerated input in function and method form through the FUNCTIONS binding, and after every sequence of successful / CEL-failing / host-raising evaluations the filter context is the one installed during the evaluation and is cleared afterwards.",
                 "IPv6 and AWS-calling helpers are out of scope; histories run back to back inside forked chains that continue only while the context reads as None (guarded by fresh-fork and fresh-subprocess runs of short histories)."),
    "C18": claim("C18", BE + " of every filter tree within a depth / leaf / connective bound over value clauses and one clause of each compound rewriter family, under every truth assignment; oracle = Custodian combinators applied to the value of each leaf's own text",
                 "The emitted text of every enumerated tree parses with the library's parser and evaluates, with the library's evaluator, to the value the Custodian combinators give for the leaves' values, through logical_connector and c7n_rewrite; every ordered pair of 30 (entry point, filter) items translated in one process state equals the pristine translation.",
                 "Trees beyond the bound; compound leaves not at every position of every shape; stub host functions for compound clauses under the interpreted runner."),
    "C19": claim("C19", BE + " of ops x value kinds x value_type transforms x boundary resources x key forms, every string up to length 3 over a quoting/escape alphabet in every literal position, day / second counts, every table entry; oracle = the relation each op names (c7nrel), literal round trip, duration length, CELParser acceptance",
                 "Every enumerated value clause evaluates to the decision of the named relation on resources on both sides of each boundary, every policy string comes back unchanged from the emitted literal, durations denote the requested length and every (rewriter, resource type) table entry is syntactically valid CEL; every ordered pair of a 37-clause alphabet translated in one process state equals the pristine translation.",
                 "regex, cidr, date, version and value_from transforms are outside the listed unambiguous ones; present/absent on an existing-but-empty attribute is not compared."),
    "C20": claim("C20", BE + " of -n expressions with and without -b, token strings for syntax errors, --arg bindings, and all NDJSON streams up to length 4 over a document alphabet x expressions x option sets through main(argv) in process (and a fixed list through a real subprocess); oracle = reference status/output table and the stream-independence differential",
                 "Output and exit status follow the statement for every enumerated invocation (the -b rule per document as well as under -n; --arg names also present in the environment); line k of a stream equals the output of the one-document stream [doc_k] and the status is the worst per-document status.",
                 "-i, -f, -v and stat() are not explored; cases the statement is silent on (an empty NDJSON line, the status of a document that is well-formed JSON but has no CEL value) are counted, not compared."),
}

PH = " Pair histories (mc/pairhist.py): every term of a small alphabet alone and after every other term in one process started from the pristine process state; the answer must be the reference answer and the answer alone; deviations are re-confirmed in fresh forks."
ADDED = {   # sub-spaces added in round 5 (appended to the claim text and to the technique)
    "C01": ("; explicit two-step histories of literal operations", PH),
    "C02": ("; un-parenthesised chains of three and four operands", " Flat chains a || b || c (|| d), a && b && c (&& d) and the mixed forms over six leaves are judged as the left-nested tree the grammar gives."),
    "C03": ("; five activations applied in sequence to one program object", " Each generated term's program object is evaluated under empty, all-bound, wrong-kind, a proper subset of the names and empty again, in that order, so a binding surviving an earlier evaluate() shows as a divergence."),
    "C04": ("; non-finite doubles in every numeric position; activation sequences on one program", " Computed +inf / -inf / NaN stand in every position that takes a number (index, key, conversion argument, operand, zone argument)."),
    "C06": ("; aggregates with repeated entries; explicit two-step parse histories", " Maps / messages / lists / calls that repeat a key text, field name or element must dump and re-parse to the same tree." + PH),
    "C07": ("; explicit two-step histories of literals", PH),
    "C08": ("; explicit two-step histories mixing well-typed and ill-typed comparisons", PH),
    "C09": ("; alternations with an anchor in one branch; explicit two-step histories", " Every alternation over six sub-patterns in which only one branch carries ^ or $ (and anchors around groups) against every text of length <= 4." + PH),
    "C10": ("; failing conversions as arguments of every strict position; explicit two-step histories", " Each of 19 failing conversions as the direct argument of 16 strict positions must remain an error." + PH),
    "C12": ("; one long-lived program with all nine names declared evaluated under every configuration in turn, against a fresh program per evaluation (differential)", ""),
    "C13": ("; arithmetic at the ends of the timestamp / duration / integer / double ranges; explicit two-step histories with the Python class in the outcome", PH),
    "C14": ("; host functions raising subclasses of ValueError / TypeError", ""),
    "C15": ("; both zero signs; explicit two-step conversion histories", PH),
    "C16": ("; switch points inside lark's lazily built per-state lexer scanners (shared through the parser singleton), three preemptions", " A configuration with granularity 'codes' places a switch point on every line of lark.lexer.BasicLexer.scanner / _build_scanner with the parser already published."),
    "C17": ("; the filter context as a stack machine: every enter / exit / evaluate sequence to length 5 (thorough 6) with <= 3 open contexts against a stack model, state compared after every event", ""),
    "C19": ("; one representative per class of rare character (controls, format characters, non-characters, astral private-use / tag characters); values that == / hash confuse in the translation histories", ""),
}
for _p, (_tech, _text) in ADDED.items():
    CLAIMS[_p]["technique"] += _tech
    CLAIMS[_p]["text"] += _text

NOT_YET = "check not built yet in this session (see DESIGN.md section 9 build order)"


def main():
    props = [json.loads(l)["id"] for l in open(os.path.join(VERIF, "properties.jsonl"))]
    checks = []
    for p in props:
        c = CLAIMS.get(p)
        if not c:
            continue
        checks.append({
            "property_id": p,
            "quick_cmd": f"./check {p} --tier quick",
            "thorough_cmd": f"./check {p} --tier thorough",
            "evidence_file": f"/verif/evidence/{p}.json",
            "replay_cmd_template": f"./check {p} --replay {{path}}",
            "engine": c["engine"],
            "level_claimed": {"category": c["category"], "text": c["text"], "design_ref": c["design_ref"]},
            "level_note": c["note"],
            "technique": c["technique"],
        })
    m = {
        "version": 1,
        "setup_cmd": "./selftest.sh",
        "hooks": {
            "guard": "CELPY_VERIF",
            "enable": "no hooks are compiled into cel-python: checks import $VERIF_REPO/src (default /repo/src) in a fresh Python process; switch points come from sys.settrace, parser construction is memoised from the harness",
            "baseline_off_cmd": "cd /repo && env -u CELPY_VERIF /venv/bin/python -m pytest -ra -q -p no:cacheprovider --timeout=900 --continue-on-collection-errors",
            "source_commits": [],
            "add_only": True,
        },
        "engines": [
            {"name": "E1", "path": "mc/runner.py", "serves_properties": [p for p in props if CLAIMS.get(p, {}).get("engine") == E1], "kind_free_text": "bounded-exhaustive enumeration of inputs/programs/configurations over the real code, sharded over 16 forked workers"},
            {"name": "E2", "path": "mc/explore/hist.py", "serves_properties": [p for p in props if CLAIMS.get(p, {}).get("engine") == E2], "kind_free_text": "explicit-state BFS over API-call histories; each state rebuilt by replay in a fork of a pristine zygote"},
            {"name": "E3", "path": "mc/explore/sched.py", "serves_properties": [p for p in props if CLAIMS.get(p, {}).get("engine") == E3], "kind_free_text": "stateless preemption-bounded exploration of real threads under a sys.settrace baton scheduler"},
        ],
        "checks": checks,
        "notes": "Exit 0 = held on everything explored; 1 = VIOLATION line printed; 3 = harness error. Known findings: /verif/known_findings.jsonl. VERIF_REPO selects the tree (default /repo).",
        "not_applicable": [{"property_id": p, "reason": NA.get(p, NOT_YET)} for p in props if p not in CLAIMS],
    }
    with open(os.path.join(VERIF, "MANIFEST.json"), "w") as f:
        json.dump(m, f, indent=1)
    print("MANIFEST.json:", len(checks), "claimed,", len(m["not_applicable"]), "not_applicable")


NA = {}

if __name__ == "__main__":
    main()
