#!/venv/bin/python
"""Rewrites the "Round 6" section of seeded/RESULTS.md from seeded/*-r6-*/meta.json."""
import glob
import json
import os
import re

VERIF = os.path.dirname(os.path.dirname(os.path.abspath(__file__)))
START, END = "<!-- round6:start -->", "<!-- round6:end -->"
WHY = {
    "C01-r6-m1": ("every NaN in the space came out of a division by zero, i.e. was the module's own constant", "NaN operands from other sources in the pair histories (C01)"),
    "C14-r6-m1": ("the wraps-wrapper wrapped a function no program ever supplied itself", "two-program histories over all ordered pairs of callable kinds + the wrapped function itself (C14)"),
    "C20-r6-m1": ("no stream expression contained a macro", "a macro expression whose body reads the document among the stream expressions (C20)"),
    "C07-r6-m1": ("(extended before the first run)", "part-way failing bytes / string literals in the pair histories; procstate restores bytearray / deque containers (C07)"),
    "C11-r6-m1": ("(extended before the first run)", "accessor terms either side of zone transitions off the UTC hour in the histories (C11)"),
    "C16-r6-m1": ("", ""),
}


def cell(s, n):
    s = re.sub(r"\s+", " ", str(s or "")).replace("|", "/")
    return s if len(s) <= n else s[:n - 1] + "…"


def main():
    rows, missed = [], []
    for d in sorted(glob.glob(os.path.join(VERIF, "seeded", "*-r6-*"))):
        name = os.path.basename(d)
        m = json.load(open(os.path.join(d, "meta.json")))
        c = m["confirmed_by_me"]
        first = "extended before the first run" if c.get("note") else "detected" if c.get("detected_on_first_attempt") else ("missed, then detected after strengthening" if c.get("check_exit") == 1 else "missed")
        also = ", ".join(f"{o['check']} (exit {o['exit']})" for o in c.get("also_reported_by", []))
        if c.get("check_exit") != 1 and also:
            first = "outside this property's quantifier; reported by " + also
        rows.append(f"| {name} | {cell(m['summary'], 170)} | {cell(m['needs'], 130)} | {cell(c.get('repository_suite_with_change'), 12)} | {c.get('demo_exit_without_change')}/{c.get('demo_exit_with_change')} | "
                    f"{'VIOLATION' if c.get('check_exit') == 1 else 'exit ' + str(c.get('check_exit'))}{' ; also ' + also if also and c.get('check_exit') == 1 else ''} | {first} |")
        if not c.get("detected_on_first_attempt"):
            missed.append(name)
    nd = sum(1 for r in rows if "| detected |" in r)
    out = [START, "## Round 6 (10 more changes, `C??-r6-m1`)", "",
           "Written by 10 fresh sub-agents, ONE change each, asked for breaks that show only through a sequence of calls in one process or through two cooperating edits",
           "(and told to avoid the obvious cache-key conflations).  Every change keeps the repository suite at 436 passed and fails its own demonstration.",
           f"{nd} of {len(rows)} were reported by the quick checks as they stood (C07 and C11 had been extended on reading the agents' reports before their first run and count as neither).", "",
           "| change | what it does | needs | suite | demo without/with | quick check | first attempt |", "|---|---|---|---|---|---|---|"] + rows
    out += ["", "Why the misses were missed and what changed:", "", "| change | why missed | extension |", "|---|---|---|"]
    for name in missed:
        why, ext = WHY.get(name, ("", ""))
        out.append(f"| {name} | {why} | {ext} |")
    out.append(END)
    path = os.path.join(VERIF, "seeded", "RESULTS.md")
    s = open(path).read()
    if START in s:
        s = s[:s.index(START)] + "\n".join(out) + s[s.index(END) + len(END):]
    else:
        s = s.rstrip("\n") + "\n\n" + "\n".join(out) + "\n"
    open(path, "w").write(s)
    print("round 5:", len(rows), "rows,", nd, "detected on the first attempt")


if __name__ == "__main__":
    main()
