#!/bin/bash
# Runs the repository's pinned test suite (guard OFF) against $1 (default /repo); prints the summary line.
repo="${1:-/repo}"
cd "$repo" && env -u CELPY_VERIF /venv/bin/python -m pytest -ra -q -p no:cacheprovider --timeout=900 --continue-on-collection-errors -x -q 2>&1 | tail -5
