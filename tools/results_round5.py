#!/venv/bin/python
"""Rewrites the "Round 5" section of seeded/RESULTS.md from seeded/*-r5-*/meta.json."""
import glob
import json
import os
import re

VERIF = os.path.dirname(os.path.dirname(os.path.abspath(__file__)))
START, END = "<!-- round5:start -->", "<!-- round5:end -->"
WHY = {
    "C02-r5-m1": ("every operand was printed in parentheses, so a flat chain never reached the parser", "flat chains of 3 / 4 operands and mixed forms (C02)"),
    "C03-r5-m1": ("each activation bound the same names (or none): nothing could go stale", "five activations in sequence on one program object, incl. a proper subset and empty-again (C03, C04)"),
    "C04-r5-m1": ("needs two overlapping evaluations in two threads: outside C04's quantifier (inputs)", "reported by C16 (deep thread beside a rich one) -- see the row's also-reported-by"),
    "C04-r5-m2": ("no non-finite double ever stood in an index position", "computed +inf / -inf / NaN in every numeric position (shared generator: C03, C04)"),
    "C06-r5-m1": ("every text was parsed once per process state; a memo keyed by squeezed text needs two different texts", "pair histories of 45 texts x 2 tree classes (C06)"),
    "C06-r5-m2": ("aggregates never repeated a key text", "aggregates with repeated entries in every context (C06)"),
    "C08-r5-m1": ("no ill-typed comparison ever preceded a well-typed one in a fresh state", "pair histories of 40 comparisons (well-typed beside ill-typed) x 2 runners (C08)"),
    "C09-r5-m2": ("`^a|b` has 5 nodes, the quick bound is 4", "alternations with an anchor in one branch, 396 patterns x 31 texts (C09)"),
    "C10-r5-m1": ("no text was converted twice in one process", "pair histories of 26 conversions x 2 runners, pairs (t, t) included (C10)"),
    "C10-r5-m2": ("failing conversions were only ever evaluated at the root", "19 failing conversions as the argument of 16 strict positions (C10)"),
    "C12-r5-m1": ("a program was only reused with the same set of bound names", "one long-lived program with all nine names declared vs a fresh program, per configuration (C12); also reported by C05"),
    "C13-r5-m2": ("timestamps near the end of the range with a non-zero offset were not among the operands", "range-end arithmetic family (C13)"),
    "C14-r5-m2": ("host functions raised ValueError / TypeError themselves, never a subclass", "behaviours raising UnicodeDecodeError / JSONDecodeError / a host subclass of TypeError (C14)"),
    "C15-r5-m1": ("the scalar alphabet had -0.0 but not 0.0", "0.0 beside -0.0; conversion pair histories (C15)"),
    "C17-r5-m1": ("nested contexts always used a different (decoy) filter", "context stack machine: enter / exit / evaluate sequences with the same filter object re-entered (C17)"),
    "C19-r5-m1": ("the history alphabet had no two value clauses differing only in 1 / true", "value clauses over {1, true, 1.0, 0, false, '1', 'true'} in the translation histories (C19)"),
    "C19-r5-m2": ("the character alphabet had no non-printable astral character", "17 rare characters x 9 shapes in every literal position (C19)"),
    "C16-r5-m1": ("a class-level threading.RLock held by a switched-away thread blocked the cooperative scheduler (no verdict within 50 minutes)", "cooperative stand-ins for the library's locks; at most 12 re-confirmations per configuration (E3)"),
}


def cell(s, n):
    s = re.sub(r"\s+", " ", str(s or "")).replace("|", "/")
    return s if len(s) <= n else s[:n - 1] + "…"


def main():
    rows, missed = [], []  # noqa
    for d in sorted(glob.glob(os.path.join(VERIF, "seeded", "*-r5-*"))):
        name = os.path.basename(d)
        m = json.load(open(os.path.join(d, "meta.json")))
        c = m["confirmed_by_me"]
        first = "detected" if c.get("detected_on_first_attempt") else ("missed, then detected after strengthening" if c.get("check_exit") == 1 else "missed")
        also = ", ".join(f"{o['check']} (exit {o['exit']})" for o in c.get("also_reported_by", []))
        if c.get("check_exit") != 1 and also:
            first = "outside this property's quantifier; reported by " + also
        rows.append(f"| {name} | {cell(m['summary'], 170)} | {cell(m['needs'], 130)} | {cell(c.get('repository_suite_with_change'), 12)} | {c.get('demo_exit_without_change')}/{c.get('demo_exit_with_change')} | "
                    f"{'VIOLATION' if c.get('check_exit') == 1 else 'exit ' + str(c.get('check_exit'))}{' ; also ' + also if also and c.get('check_exit') == 1 else ''} | {first} |")
        if not c.get("detected_on_first_attempt"):
            missed.append(name)
    nd = sum(1 for r in rows if "| detected |" in r)
    out = [START, "## Round 5 (40 more changes, `C01-r5-m1 ... C20-r5-m2`)", "",
           "Written by 20 fresh sub-agents (only the property text and a scratch worktree), asked for edits that need a multi-step sequence of calls, two cooperating",
           "edits that each look fine alone, an unusual but legal input shape, or a particular nesting / interleaving.  Every change keeps the repository suite at 436 passed",
           f"and fails its own demonstration.  {nd} of {len(rows)} were reported by the quick checks as they stood; each miss led to an extension of a driver (alphabet, context or",
           "history), never of an oracle, after which the check reports it and the unchanged tree stays silent.", "",
           "| change | what it does | needs | suite | demo without/with | quick check | first attempt |", "|---|---|---|---|---|---|---|"] + rows
    out += ["", "Why the misses were missed and what changed:", "", "| change | why missed | extension |", "|---|---|---|"]
    for name in missed:
        why, ext = WHY.get(name, ("", ""))
        out.append(f"| {name} | {why} | {ext} |")
    out.append(END)
    path = os.path.join(VERIF, "seeded", "RESULTS.md")
    s = open(path).read()
    if START in s:
        s = s[:s.index(START)] + "\n".join(out) + s[s.index(END) + len(END):]
    else:
        s = s.rstrip("\n") + "\n\n" + "\n".join(out) + "\n"
    open(path, "w").write(s)
    print("round 5:", len(rows), "rows,", nd, "detected on the first attempt")


if __name__ == "__main__":
    main()
