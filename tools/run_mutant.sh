#!/bin/bash
# tools/run_mutant.sh <dir with patch.diff [demo.py]> <PROP> [tier] [extra props...]
# Confirms a seeded change in a scratch worktree of /repo HEAD (outside /repo and /verif):
#   1. the patch applies, 2. the repository's own suite still passes, 3. the demonstration fails with
#   the change and passes without it, 4. ./check <PROP> reports a VIOLATION (exit 1) against the scratch tree.
# The scratch worktree and its build output are removed at the end.  Prints one JSON line with the results.
set -u
dir="$(cd "$1" && pwd)"; prop="$2"; tier="${3:-quick}"
id="$(basename "$dir")-$$"
wt="/tmp/mt/$id"
mkdir -p /tmp/mt
git -C /repo worktree add -q --detach "$wt" HEAD || exit 3
cleanup() { git -C /repo worktree remove --force "$wt" >/dev/null 2>&1; rm -rf "$wt" "/tmp/mt/ev-$id"; }
trap cleanup EXIT
demo_without="na"; demo_with="na"
# RUN_MUTANT_CHECK_ONLY=1: regression mode -- suite and demonstration were confirmed when the change was filed
if [ -f "$dir/demo.py" ] && [ -z "${RUN_MUTANT_CHECK_ONLY:-}" ]; then
  (cd "$wt" && PYTHONPATH="$wt/src" timeout 600 /venv/bin/python "$dir/demo.py" >/tmp/mt/demo-$id.out 2>&1); demo_without=$?
fi
base="HEAD"
if ! git -C "$wt" apply --check "$dir/patch.diff" 2>/dev/null; then
  # built against an earlier commit of this session: fall back to that base (MUTANT_BASE)
  if [ -n "${MUTANT_BASE:-}" ]; then
    git -C /repo worktree remove --force "$wt" >/dev/null 2>&1; git -C /repo worktree add -q --detach "$wt" "$MUTANT_BASE" || exit 3; base="$MUTANT_BASE"
  fi
fi
if ! git -C "$wt" apply "$dir/patch.diff"; then echo "{\"id\": \"$id\", \"error\": \"patch does not apply\"}"; exit 3; fi
tests="not re-run"
[ -z "${RUN_MUTANT_CHECK_ONLY:-}" ] && tests=$(cd "$wt" && env -u CELPY_VERIF PYTHONPATH="$wt/src" timeout 1200 /venv/bin/python -m pytest -q -p no:cacheprovider --timeout=900 --continue-on-collection-errors 2>&1 | tail -1)
if [ -f "$dir/demo.py" ] && [ -z "${RUN_MUTANT_CHECK_ONLY:-}" ]; then
  (cd "$wt" && PYTHONPATH="$wt/src" timeout 600 /venv/bin/python "$dir/demo.py" >/tmp/mt/demo-$id.out 2>&1); demo_with=$?
fi
cd /verif
out=$(VERIF_REPO="$wt" VERIF_EVIDENCE_DIR="/tmp/mt/ev-$id" timeout 3600 ./check "$prop" --tier "$tier" 2>&1); rc=$?
nviol=$(printf '%s\n' "$out" | grep -c '^VIOLATION')
printf '%s\n' "$out" > "/tmp/mt/out-$id.txt"
# further checks against the same scratch tree (used for behaviour-preserving changes: every one must stay silent)
extra=""
shift 3 2>/dev/null || shift $#
for xp in "$@"; do
  xo=$(VERIF_REPO="$wt" VERIF_EVIDENCE_DIR="/tmp/mt/ev-$id" timeout 3600 ./check "$xp" --tier "$tier" 2>/dev/null); xrc=$?
  extra="$extra $xp=$xrc"
  if [ $xrc -ne 0 ]; then printf '%s\n' "$xo" | grep -A2 '^VIOLATION\|^HARNESS' | head -12 > "/tmp/mt/extra-$id-$xp.txt"; fi
done
EXTRA="$extra" ID="$id" BASE="$base" PROP="$prop" TIER="$tier" TESTS="$tests" DW="$demo_without" DWI="$demo_with" RC="$rc" NV="$nviol" /venv/bin/python - <<'PY'
import json, os
out = open(f"/tmp/mt/out-{os.environ['ID']}.txt").read().splitlines()
first = ""
for i, l in enumerate(out):
    if l.startswith("VIOLATION"):
        first = " ".join(x.strip() for x in out[i + 1:i + 3])[:500]
        break
known = [l[:160] for l in out if l.startswith("KNOWN-FINDING")]
print(json.dumps({"id": os.environ["ID"], "base": os.environ["BASE"], "property": os.environ["PROP"], "tier": os.environ["TIER"], "tests": os.environ["TESTS"],
                  "demo_without": os.environ["DW"], "demo_with": os.environ["DWI"], "check_exit": int(os.environ["RC"]), "violation_lines": int(os.environ["NV"]),
                  "first": first, "summary": (out[-1] if out else "")[:300], "extra": os.environ.get("EXTRA", "").strip()}))
PY
rm -f /tmp/mt/demo-$id.out "/tmp/mt/out-$id.txt"
