#!/bin/bash
# tools/regress_seeded.sh <results.jsonl> [id-glob]
# Re-runs every seeded change under seeded/ (or those matching the glob) against the current checks:
# each must still be reported (check exit 1).  Sequential; scratch worktrees are removed by run_mutant.sh.
out="$1"; pat="${2:-*}"
cd /verif
for d in seeded/$pat/; do
  [ -f "$d/patch.diff" ] || continue
  prop=$(/venv/bin/python -c "import json,sys; print(json.load(open('$d/meta.json'))['property'].split(':')[0].strip())")
  tools/run_mutant.sh "$d" "$prop" quick >> "$out" 2>/tmp/mt/err.log
done
echo "REGRESS-DONE" >> "$out"
