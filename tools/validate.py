#!/opt/veriftools/pyvenv/bin/python
"""Validate MANIFEST.json and evidence/*.json against the published schemas (run with python3-vt)."""
import glob
import json
import sys

import jsonschema

bad = 0
m = json.load(open("/verif/MANIFEST.json"))
jsonschema.validate(m, json.load(open("/root/.vp/MANIFEST.schema.json")))
props = [json.loads(l)["id"] for l in open("/verif/properties.jsonl")]
claimed = [c["property_id"] for c in m["checks"]]
na = [c["property_id"] for c in m.get("not_applicable", [])]
for p in props:
    if (p in claimed) == (p in na):
        print("property", p, "must be exactly one of claimed / not_applicable")
        bad = 1
es = json.load(open("/root/.vp/EVIDENCE.schema.json"))
for f in sorted(glob.glob("/verif/evidence/*.json")):
    try:
        jsonschema.validate(json.load(open(f)), es)
    except Exception as ex:  # noqa
        print("INVALID", f, str(ex)[:300])
        bad = 1
print("manifest ok;", len(claimed), "claimed;", len(na), "not_applicable;", "evidence", "ok" if not bad else "BAD")
sys.exit(bad)
