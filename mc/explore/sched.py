"""E3 - stateless, preemption-bounded exploration of real threads (CHESS-style iterative
context bounding) under a cooperative scheduler that owns every switch point.

* Real ``threading.Thread``s; exactly one runs at a time; each has a semaphore ("baton").
* Switch points: every ``line`` event (``sys.settrace``) whose code object lives under
  ``$VERIF_REPO/src/celpy`` or in ``"<string>"`` (the transpiler's generated module); optionally
  every ``opcode`` event inside listed code objects.  (sys.monitoring was tried: disabling the
  foreign locations one by one costs ~9 s per process.)
* A schedule is a list of choices, one per *scheduling point*: index into the canonical order
  [running thread if still enabled, then the other unfinished threads by ascending id].
  Choice 0 = keep running.  A non-zero choice at a point where the running thread is still
  enabled costs one preemption; the initial pick and the pick after a thread ends are free.
* ``run_schedule(prefix)`` executes the harness in a *forked child* (pristine process state, no
  threads before the fork), replaying ``prefix`` and taking choice 0 afterwards; a recorded
  choice that is out of range is a hard error (replay divergence).
"""
import os
import pickle
import sys
import threading
import traceback

from .. import bigframe, repo


class Divergence(BaseException):
    pass


class Scheduler:
    def __init__(self, nthreads, prefix, trace_dirs, horizon=400000, phases=None):
        self.n = nthreads
        self.prefix = list(prefix)
        self.choices = []      # choice taken at each scheduling point
        self.points = []       # (n_enabled, running_still_enabled, tid, where)
        self.baton = [threading.Semaphore(0) for _ in range(nthreads)]
        self.finished = [False] * nthreads
        self.current = None
        self.trace_dirs = tuple(trace_dirs)
        self.horizon = horizon
        self.error = None
        self.done = threading.Semaphore(0)
        self.tls = threading.local()
        self.events = 0
        self.blocked_streak = 0
        self.phases = phases  # optional: per-thread one-element lists holding the body's current phase label

    # -- choice -----------------------------------------------------------------------------
    def _choose(self, order, still_enabled, tid, where):
        i = len(self.choices)
        if i < len(self.prefix):
            c = self.prefix[i]
            if c >= len(order):
                raise Divergence(f"replay divergence at point {i}: choice {c} of {len(order)} at {where}")
        else:
            c = 0
        self.choices.append(c)
        self.points.append((len(order), still_enabled, tid, where, self.phases[tid][0] if (self.phases is not None and tid >= 0) else None))
        return order[c]

    def _others(self, tid):
        return [t for t in range(self.n) if t != tid and not self.finished[t]]

    # -- called from the threads ------------------------------------------------------------
    def point(self, tid, where):
        self.blocked_streak = 0
        self.events += 1
        if self.events > self.horizon:
            raise Divergence("horizon exceeded")
        others = self._others(tid)
        if not others:
            return
        nxt = self._choose([tid] + others, True, tid, where)
        if nxt != tid:
            self.current = nxt
            self.baton[nxt].release()
            self.baton[tid].acquire()

    def blocked(self, tid, where):
        """The running thread cannot go on (a library lock is held by a thread that was switched away): hand the
        baton to another unfinished thread -- a forced switch, not a preemption -- and retry when it comes back."""
        self.events += 1
        if self.events > self.horizon:
            raise Divergence("horizon exceeded")
        self.blocked_streak += 1
        others = self._others(tid)
        if not others or self.blocked_streak > 4 * self.n + 4:
            raise Divergence(f"deadlock: thread {tid} waits for a library lock at {where} and no other thread can release it")
        nxt = self._choose(others, False, tid, ("blocked-on-lock", where))
        self.current = nxt
        self.baton[nxt].release()
        self.baton[tid].acquire()

    def thread_start(self, tid):
        self.tls.tid = tid
        self.baton[tid].acquire()

    def thread_end(self, tid):
        self.finished[tid] = True
        others = self._others(tid)
        if not others:
            self.done.release()
            return
        try:
            nxt = self._choose(others, False, tid, "thread-end")
        except Divergence as ex:
            self.error = str(ex)
            nxt = others[0]
        self.current = nxt
        self.baton[nxt].release()

# ---- cooperative stand-ins for the library's own locks ---------------------------------------------------------
# A real lock held by a thread that the scheduler has switched away would block the running thread for good (the
# holder only runs when it gets the baton).  Locks the library creates are therefore replaced by these: a failed
# acquisition inside a scheduled thread yields to the scheduler instead of blocking.
_ACTIVE = [None]          # the Scheduler of the execution in progress, if any


class CoopLock:
    reentrant = False

    def __init__(self):
        import _thread
        self._lock = _thread.allocate_lock()
        self._owner = None
        self._count = 0

    def _me(self):
        return threading.get_ident()

    def acquire(self, blocking=True, timeout=-1):
        me = self._me()
        if self.reentrant and self._owner == me:
            self._count += 1
            return True
        while True:
            if self._lock.acquire(False):
                self._owner, self._count = me, 1
                return True
            if not blocking:
                return False
            sch = _ACTIVE[0]
            tid = getattr(sch.tls, "tid", None) if sch is not None else None
            if tid is None:                      # not a scheduled thread: block for real
                ok = self._lock.acquire(True, timeout)
                if ok:
                    self._owner, self._count = me, 1
                return ok
            sch.blocked(tid, "lock")

    def release(self):
        if self.reentrant:
            if self._owner != self._me():
                raise RuntimeError("cannot release un-acquired lock")
            self._count -= 1
            if self._count:
                return
        self._owner = None
        self._lock.release()

    def locked(self):
        return self._lock.locked()

    def __enter__(self):
        self.acquire()
        return True

    def __exit__(self, *a):
        self.release()


class CoopRLock(CoopLock):
    reentrant = True


class _ThreadingProxy:
    """What a library module sees as ``threading``: Lock / RLock are the cooperative ones, everything else is the real module's."""

    def __init__(self, real):
        self._real = real

    def __getattr__(self, name):
        if name == "Lock":
            return CoopLock
        if name == "RLock":
            return CoopRLock
        return getattr(self._real, name)


def interpose_library_locks():
    """Replace every lock object held at module or class level of the library (and the ``threading`` module as the
    library's modules see it, for locks made later) by cooperative ones.  Returns how many were replaced; on a tree
    without locks this changes nothing."""
    import _thread
    from . import procstate
    lock_types = (type(_thread.allocate_lock()), type(threading.RLock()))
    n = 0
    for mname, mod in procstate._mods():
        for name, obj in list(vars(mod).items()):
            if obj is threading:
                setattr(mod, name, _ThreadingProxy(threading))
            elif isinstance(obj, lock_types):
                setattr(mod, name, CoopRLock() if isinstance(obj, lock_types[1]) else CoopLock())
                n += 1
            elif isinstance(obj, type) and getattr(obj, "__module__", None) == mname:
                for k, v in list(vars(obj).items()):
                    if isinstance(v, lock_types):
                        setattr(obj, k, CoopRLock() if isinstance(v, lock_types[1]) else CoopLock())
                        n += 1
    return n


def make_tracer(sched, tid, trace_dirs, opcode_codes, granularity="line", only_phase=None, line_codes=()):
    """sys.settrace tracer for one thread.  granularity "line": a switch point on every ``line``
    event (and every ``opcode`` event inside the listed code objects) of library / generated code;
    granularity "call": a switch point at the entry of every library / generated function only
    (no line tracing at all, an order of magnitude fewer points); granularity "shallow:K": as "call",
    restricted to functions entered with fewer than K library frames beneath them; granularity "codes": a switch point
    on every ``line`` event of the listed code objects ``line_codes`` and nowhere else -- the listed functions may belong
    to third-party code the library shares between threads (lark's lazily built lexer scanners).  Frames of foreign code
    get no local tracer, so they cost one global call each."""
    dirs = tuple(trace_dirs)
    opcodes = set(opcode_codes)
    shallow = int(granularity.split(":")[1]) if granularity.startswith("shallow:") else 0
    lcodes = set(line_codes)

    def local(frame, event, arg):
        if event == "line":
            sched.point(tid, (frame.f_code.co_filename, frame.f_lineno))
        elif event == "opcode":
            sched.point(tid, (frame.f_code.co_filename, f"{frame.f_code.co_name}+{frame.f_lasti}"))
        return local

    phases = sched.phases

    def glob(frame, event, arg):
        if only_phase is not None and phases[tid][0] != only_phase:
            return None      # outside the explored phase nothing is a switch point (and nothing is traced)
        code = frame.f_code
        fn = code.co_filename
        if granularity == "codes":
            return local if code in lcodes else None
        if fn == "<string>" or fn.startswith(dirs):
            if granularity == "call":
                sched.point(tid, (fn, f"{code.co_name}()"))
                return None
            if shallow:
                # a switch point only at the entry of a library function with fewer than `shallow` library
                # frames beneath it (the API call, what it calls, what that calls ...): few points, so that
                # higher preemption bounds stay enumerable.  The walk stops as soon as the frame is known deep.
                depth, f, steps = 1, frame.f_back, 0
                while f is not None and depth <= shallow and steps < 64:
                    ffn = f.f_code.co_filename
                    if ffn == "<string>" or ffn.startswith(dirs):
                        depth += 1
                    f = f.f_back
                    steps += 1
                if depth <= shallow and f is None:
                    sched.point(tid, (fn, f"{code.co_name}()"))
                return None
            if code in opcodes:
                frame.f_trace_opcodes = True
            return local
        return None

    return glob


def _thread_body(sched, tid, body, results, tracer):
    sched.thread_start(tid)
    try:
        sys.settrace(tracer)
        try:
            results[tid] = ("ok", bigframe.call(body))  # one big frame per thread: no data-stack chunk churn
        finally:
            sys.settrace(None)
    except Divergence as ex:
        sched.error = str(ex)
        results[tid] = ("divergence", str(ex))
    except BaseException as ex:  # noqa  - an exception in a thread is an observation
        results[tid] = ("exc", type(ex).__name__, str(ex)[:200])
    finally:
        sched.thread_end(tid)


def execute(bodies, prefix, opcode_code_objects=(), phases=None, granularity="line", only_phase=None, line_codes=()):
    """Run the thread bodies once under the schedule ``prefix`` (in THIS process).
    Returns dict(results, choices, points, error)."""
    repo.load()
    n = len(bodies)
    dirs = [os.path.join(repo.SRC, "celpy") + os.sep, os.path.join(repo.SRC, "xlate") + os.sep]
    sched = Scheduler(n, prefix, dirs, phases=phases)
    _ACTIVE[0] = sched
    results = [None] * n
    threads = [threading.Thread(target=_thread_body, args=(sched, i, bodies[i], results, make_tracer(sched, i, dirs, opcode_code_objects, granularity, only_phase, line_codes)), daemon=True) for i in range(n)]
    for t in threads:
        t.start()
    # initial pick: free choice among all threads
    try:
        first = sched._choose(list(range(n)), False, -1, "start")
    except Divergence as ex:
        return {"results": None, "choices": sched.choices, "points": sched.points, "error": str(ex)}
    sched.current = first
    sched.baton[first].release()
    slow = None
    if not sched.done.acquire(timeout=float(os.environ.get("VERIF_SCHED_TIMEOUT", "120"))):
        # Not finished in time.  A deadlock stays one however long we wait; a starved machine does not: the event
        # counter tells the two apart (it only moves while some thread runs), so keep waiting while it moves.
        stacks = []
        for tid_, fr in sys._current_frames().items():
            stacks.append(f"--- thread {tid_}\n" + "".join(traceback.format_stack(fr)[-8:]))
        finished = False
        for _ in range(int(os.environ.get("VERIF_SCHED_PATIENCE", "30"))):
            before = (sched.events, list(sched.finished))
            if sched.done.acquire(timeout=30):
                finished = True
                break
            if (sched.events, list(sched.finished)) == before:
                break                                   # nothing moved for 30 s: stuck
        if not finished:
            return {"results": results, "choices": sched.choices, "points": sched.points,
                    "error": "deadlock-or-timeout: no thread finished the run in time; finished=%r current=%r events=%d\n%s" % (sched.finished, sched.current, sched.events, "\n".join(stacks))}
        slow = "finished late (machine starved?): %d events" % sched.events
    for t in threads:
        t.join(timeout=5)
    return {"results": results, "choices": sched.choices, "points": sched.points, "error": sched.error, "slow": slow}


def run_in_fork(fn, *args):
    """Run fn(*args) in a forked child; return its (picklable) result."""
    r, w = os.pipe()
    pid = os.fork()
    if pid == 0:
        code = 0
        try:
            os.close(r)
            try:
                out = ("ok", fn(*args))
            except BaseException as ex:  # noqa
                out = ("crash", f"{type(ex).__name__}: {ex}\n{traceback.format_exc()}")
            with os.fdopen(w, "wb") as f:
                pickle.dump(out, f)
        except BaseException:  # noqa
            code = 1
        finally:
            os._exit(code)
    os.close(w)
    with os.fdopen(r, "rb") as f:
        data = f.read()
    os.waitpid(pid, 0)
    if not data:
        return ("crash", "child produced no output")
    return pickle.loads(data)


def preemptions(points, choices, upto=None):
    k = 0
    for (n_en, still, *_rest), c in list(zip(points, choices))[:upto]:
        if still and c != 0:
            k += 1
    return k


def children(res, prefix_len, bound, window=None):
    """ICB expansion: alternative schedules that deviate from ``res`` at a point >= prefix_len
    and stay within the preemption bound.  ``window(point_index, point)`` may restrict the
    points at which *preemptions* are placed (free switches are always expanded)."""
    out = []
    pts, ch = res["points"], res["choices"]
    cost = preemptions(pts, ch, prefix_len)
    for i in range(prefix_len, len(pts)):
        n_en, still = pts[i][0], pts[i][1]
        c = cost + (1 if still else 0)
        if c <= bound and n_en > 1:
            if not still or window is None or window(i, pts[i]):
                for alt in range(1, n_en):
                    out.append(ch[:i] + [alt])
        if still and ch[i] != 0:
            cost += 1
    return out
