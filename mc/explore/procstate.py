"""Snapshot / restore / digest of the library's process-wide mutable state.

Generic over the code: every module-level name and every class attribute of the library's modules
is recorded by identity, and every module-level or class-level dict / list / set additionally by
(shallow, identity-compared) contents.  ``restore`` puts all of it back and returns the list of
differences it found, so a run can both start each execution from the zygote's state and report
what an execution left behind.  Nothing here calls the library's own ``__eq__``.
"""
import sys

MODULES = ["celpy", "celpy.evaluation", "celpy.celtypes", "celpy.celparser", "celpy.adapter", "celpy.c7nlib", "xlate.c7n_to_cel"]


def _mods():
    out = []
    for m in MODULES:
        if m in sys.modules:
            out.append((m, sys.modules[m]))
    return out


def _copy(obj):
    if type(obj) is dict or isinstance(obj, dict) and type(obj).__module__ in ("builtins", "collections"):
        return ("dict", list(dict.items(obj)))
    if type(obj) is list:
        return ("list", list(obj))
    if type(obj) is set:
        return ("set", list(obj))
    return None


def _same(kind_items, obj):
    kind, items = kind_items
    if kind == "dict":
        cur = list(dict.items(obj))
        return len(cur) == len(items) and all(a[0] is b[0] or (type(a[0]) is str and a[0] == b[0]) for a, b in zip(cur, items)) and all(a[1] is b[1] for a, b in zip(cur, items))
    cur = list(obj)
    return len(cur) == len(items) and all(a is b for a, b in zip(cur, items))


def _put(kind_items, obj):
    kind, items = kind_items
    if kind == "dict":
        dict.clear(obj)
        for k, v in items:
            dict.__setitem__(obj, k, v)
    elif kind == "list":
        obj[:] = items
    else:
        obj.clear()
        obj.update(items)


def _cache_of(obj):
    """The functools cache wrapper behind a module-level function or a (static/class) method, if any."""
    f = getattr(obj, "__func__", obj)
    return f if callable(getattr(f, "cache_clear", None)) and callable(getattr(f, "cache_info", None)) else None


def _cache_size(f):
    try:
        return f.cache_info().currsize
    except Exception:  # noqa
        return None


def snapshot():
    snap = {"mods": [], "classes": [], "containers": [], "caches": [], "reclimit": sys.getrecursionlimit()}
    seen = set()
    for mname, mod in _mods():
        d = vars(mod)
        snap["mods"].append((mname, mod, dict(d)))
        for name, obj in list(d.items()):
            if _cache_of(obj) is not None:
                snap["caches"].append((f"{mname}.{name}", _cache_of(obj), _cache_size(_cache_of(obj))))
            if isinstance(obj, type) and getattr(obj, "__module__", None) == mname:
                cd = {k: v for k, v in vars(obj).items()}
                snap["classes"].append((f"{mname}.{name}", obj, cd))
                for k, v in cd.items():
                    if _cache_of(v) is not None:
                        snap["caches"].append((f"{mname}.{name}.{k}", _cache_of(v), _cache_size(_cache_of(v))))
                    c = _copy(v)
                    if c is not None and id(v) not in seen:
                        seen.add(id(v))
                        snap["containers"].append((f"{mname}.{name}.{k}", v, c))
            else:
                c = _copy(obj)
                if c is not None and id(obj) not in seen and not name.startswith("__"):
                    seen.add(id(obj))
                    snap["containers"].append((f"{mname}.{name}", obj, c))
    return snap


def restore(snap):
    """Put everything back; return the names that had changed."""
    changed = []
    for mname, mod, d0 in snap["mods"]:
        d = vars(mod)
        for k in list(d.keys()):
            if k not in d0:
                changed.append(f"{mname}.{k} (added)")
                del d[k]
        for k, v in d0.items():
            if k not in d or d[k] is not v:
                changed.append(f"{mname}.{k}")
                d[k] = v
    for cname, cls, cd0 in snap["classes"]:
        cur = vars(cls)
        for k in list(cur.keys()):
            if k not in cd0:
                changed.append(f"{cname}.{k} (added)")
                try:
                    delattr(cls, k)
                except Exception:  # noqa
                    pass
        for k, v in cd0.items():
            if k not in cur or cur[k] is not v:
                if k in ("__dict__", "__weakref__"):
                    continue
                changed.append(f"{cname}.{k}")
                try:
                    setattr(cls, k, v.__func__ if False else v)
                except Exception:  # noqa
                    pass
    for name, obj, c in snap["containers"]:
        if not _same(c, obj):
            changed.append(f"{name} (contents)")
            _put(c, obj)
    for name, f, size in snap.get("caches", ()):
        # a memo table cannot be put back entry by entry; emptying it is neutral for a pure function, and a
        # snapshot is only ever taken before the explored steps (entries made by warm-up are recomputed)
        if _cache_size(f) != size:
            changed.append(f"{name} (functools cache)")
        try:
            f.cache_clear()
        except Exception:  # noqa
            pass
    if sys.getrecursionlimit() != snap["reclimit"]:
        changed.append("sys.recursionlimit")
        sys.setrecursionlimit(snap["reclimit"])
    return changed


def diff_names(snap):
    """Names whose binding (or shallow contents) differ from the snapshot, without restoring;
    changed containers are reported with a digest of their current contents' reprs."""
    import re
    addr = re.compile(r"0x[0-9a-fA-F]+")
    changed = []
    for mname, mod, d0 in snap["mods"]:
        d = vars(mod)
        for k in d.keys():
            if k not in d0:
                changed.append(f"{mname}.{k}+")
        for k, v in d0.items():
            if k not in d or d[k] is not v:
                changed.append(f"{mname}.{k}={type(d.get(k)).__name__}")
    for cname, cls, cd0 in snap["classes"]:
        cur = vars(cls)
        for k in cur.keys():
            if k not in cd0:
                changed.append(f"{cname}.{k}+")
        for k, v in cd0.items():
            if k in ("__dict__", "__weakref__"):
                continue
            if k not in cur or cur[k] is not v:
                val = cur.get(k)
                tag = type(val).__name__
                opts = getattr(val, "options", None)
                if opts is not None and hasattr(opts, "tree_class"):
                    tag += ":" + getattr(opts.tree_class, "__name__", "?")
                changed.append(f"{cname}.{k}={tag}")
    for name, obj, c in snap["containers"]:
        if not _same(c, obj):
            changed.append(f"{name}~{addr.sub('0x', repr(sorted(map(repr, (dict.keys(obj) if isinstance(obj, dict) else obj)))))[:300]}")
    for name, f, size in snap.get("caches", ()):
        if _cache_size(f) != size:
            changed.append(f"{name}#cache={_cache_size(f)}")
    if sys.getrecursionlimit() != snap["reclimit"]:
        changed.append(f"recursionlimit={sys.getrecursionlimit()}")
    return sorted(changed)
