"""Snapshot / restore / digest of the library's process-wide mutable state.

Generic over the code: every module-level name and every class attribute of the library's modules
is recorded by identity, and every module-level or class-level dict / list / set additionally by
(shallow, identity-compared) contents.  ``restore`` puts all of it back and returns the list of
differences it found, so a run can both start each execution from the zygote's state and report
what an execution left behind.  Nothing here calls the library's own ``__eq__``.
"""
import sys

MODULES = ["celpy", "celpy.evaluation", "celpy.celtypes", "celpy.celparser", "celpy.adapter", "celpy.c7nlib", "xlate.c7n_to_cel"]


def _mods():
    out = []
    for m in MODULES:
        if m in sys.modules:
            out.append((m, sys.modules[m]))
    return out


def _copy(obj):
    if type(obj) is dict or isinstance(obj, dict) and type(obj).__module__ in ("builtins", "collections"):
        return ("dict", list(dict.items(obj)))
    if type(obj) is list:
        return ("list", list(obj))
    if type(obj) is set:
        return ("set", list(obj))
    if type(obj) is bytearray:
        return ("bytearray", bytes(obj))
    if type(obj).__name__ == "deque" and type(obj).__module__ == "collections":
        return ("deque", list(obj))
    return None


def _same(kind_items, obj):
    kind, items = kind_items
    if kind == "dict":
        cur = list(dict.items(obj))
        return len(cur) == len(items) and all(a[0] is b[0] or (type(a[0]) is str and a[0] == b[0]) for a, b in zip(cur, items)) and all(a[1] is b[1] for a, b in zip(cur, items))
    if kind == "bytearray":
        return bytes(obj) == items
    cur = list(obj)
    return len(cur) == len(items) and all(a is b for a, b in zip(cur, items))


def _put(kind_items, obj):
    kind, items = kind_items
    if kind == "dict":
        dict.clear(obj)
        for k, v in items:
            dict.__setitem__(obj, k, v)
    elif kind == "list":
        obj[:] = items
    elif kind == "bytearray":
        obj[:] = items
    elif kind == "deque":
        obj.clear()
        obj.extend(items)
    else:
        obj.clear()
        obj.update(items)


def _cache_of(obj):
    """The functools cache wrapper behind a module-level function or a (static/class) method, if any."""
    f = getattr(obj, "__func__", obj)
    return f if callable(getattr(f, "cache_clear", None)) and callable(getattr(f, "cache_info", None)) else None


def _cache_size(f):
    try:
        return f.cache_info().currsize
    except Exception:  # noqa
        return None


def _lark_lexers():
    """Every per-state lexer of every lark parser the library can reach: the process-wide singleton and the
    parsers the harness memoises for it.  lark builds a lexer's scanner and callback table lazily on first use
    (BasicLexer.scanner / _build_scanner); that laziness is process-wide mutable state shared by every
    Environment, so an execution must start from the lexers as the zygote had them, not as the previous
    execution left them."""
    out, seen = [], set()
    parsers = []
    cp = sys.modules.get("celpy.celparser")
    if cp is not None:
        parsers.append(getattr(getattr(cp, "CELParser", None), "CEL_PARSER", None))
    try:
        from .. import repo
        parsers.extend(repo.LARK_MEMO.values())
    except Exception:  # noqa
        pass
    for pi, parser in enumerate(parsers):
        lx = getattr(getattr(parser, "parser", None), "lexer", None)
        if lx is None:
            continue
        states = [("root", getattr(lx, "root_lexer", None))] + sorted(((str(k), v) for k, v in getattr(lx, "lexers", {}).items()), key=lambda kv: kv[0])
        for name, lexer in states:
            if lexer is None or id(lexer) in seen or not hasattr(lexer, "_scanner"):
                continue
            seen.add(id(lexer))
            out.append((f"lark[{getattr(getattr(parser, 'options', None), 'tree_class', type(None)).__name__}].lexer[{name}]", lexer))
    return out


def _unwrap(obj):
    """Function objects behind a module-level or class-level attribute (staticmethod, classmethod, property, wrappers)."""
    out = []
    for cand in (obj, getattr(obj, "__func__", None), getattr(obj, "fget", None), getattr(obj, "fset", None), getattr(obj, "fdel", None), getattr(obj, "func", None)):
        if cand is not None and hasattr(cand, "__code__") and hasattr(cand, "__globals__"):
            out.append(cand)
    return out


def _function_containers(snap, seen_fn, seen, label, f, depth=0):
    """Mutable containers a function carries with it: default arguments (``def f(x, memo={})``), closure cells (a memo
    table inside a decorator) and function attributes (``f.cache = {}``); followed through wrapped / enclosed functions.
    Like module- and class-level containers they outlive a call and are shared by every Environment."""
    if id(f) in seen_fn or depth > 6:
        return
    seen_fn.add(id(f))
    cands = []
    for i, d in enumerate(getattr(f, "__defaults__", None) or ()):
        cands.append((f"{label}<default {i}>", d))
    for k, d in (getattr(f, "__kwdefaults__", None) or {}).items():
        cands.append((f"{label}<default {k}>", d))
    for k, d in list(getattr(f, "__dict__", {}).items()):
        cands.append((f"{label}<attr {k}>", d))
    names = getattr(getattr(f, "__code__", None), "co_freevars", ())
    for nm, cell in zip(names, getattr(f, "__closure__", None) or ()):
        try:
            d = cell.cell_contents
        except ValueError:
            continue
        cands.append((f"{label}<closure {nm}>", d))
        if _copy(d) is not None:
            snap["cells"].append((f"{label}<closure {nm}>", cell, d))
    for nm, d in cands:
        c = _copy(d)
        if c is not None:
            if id(d) not in seen:
                seen.add(id(d))
                snap["containers"].append((nm, d, c))
        else:
            for g in _unwrap(d):
                if getattr(g, "__module__", None) in MODULES or g is getattr(f, "__wrapped__", None) or "closure" in nm:
                    _function_containers(snap, seen_fn, seen, nm, g, depth + 1)


def snapshot():
    snap = {"mods": [], "classes": [], "containers": [], "caches": [], "reclimit": sys.getrecursionlimit(), "larklex": [], "cells": []}
    for name, lexer in _lark_lexers():
        cb = getattr(lexer, "callback", None)
        snap["larklex"].append((name, lexer, lexer._scanner, cb, list(cb.items()) if isinstance(cb, dict) else None))
    seen = set()
    for mname, mod in _mods():
        d = vars(mod)
        snap["mods"].append((mname, mod, dict(d)))
        for name, obj in list(d.items()):
            if _cache_of(obj) is not None:
                snap["caches"].append((f"{mname}.{name}", _cache_of(obj), _cache_size(_cache_of(obj))))
            if isinstance(obj, type) and getattr(obj, "__module__", None) == mname:
                cd = {k: v for k, v in vars(obj).items()}
                snap["classes"].append((f"{mname}.{name}", obj, cd))
                for k, v in cd.items():
                    if _cache_of(v) is not None:
                        snap["caches"].append((f"{mname}.{name}.{k}", _cache_of(v), _cache_size(_cache_of(v))))
                    c = _copy(v)
                    if c is not None and id(v) not in seen:
                        seen.add(id(v))
                        snap["containers"].append((f"{mname}.{name}.{k}", v, c))
            else:
                c = _copy(obj)
                if c is not None and id(obj) not in seen and not name.startswith("__"):
                    seen.add(id(obj))
                    snap["containers"].append((f"{mname}.{name}", obj, c))
    seen_fn = set()
    for mname, mod in _mods():
        for name, obj in list(vars(mod).items()):
            if isinstance(obj, type) and getattr(obj, "__module__", None) == mname:
                for k, v in list(vars(obj).items()):
                    for f in _unwrap(v):
                        _function_containers(snap, seen_fn, seen, f"{mname}.{name}.{k}", f)
            else:
                for f in _unwrap(obj):
                    if getattr(f, "__module__", None) in MODULES:
                        _function_containers(snap, seen_fn, seen, f"{mname}.{name}", f)
    return snap


def restore(snap):
    """Put everything back; return the names that had changed."""
    changed = []
    for mname, mod, d0 in snap["mods"]:
        d = vars(mod)
        for k in list(d.keys()):
            if k not in d0:
                changed.append(f"{mname}.{k} (added)")
                del d[k]
        for k, v in d0.items():
            if k not in d or d[k] is not v:
                changed.append(f"{mname}.{k}")
                d[k] = v
    for cname, cls, cd0 in snap["classes"]:
        cur = vars(cls)
        for k in list(cur.keys()):
            if k not in cd0:
                changed.append(f"{cname}.{k} (added)")
                try:
                    delattr(cls, k)
                except Exception:  # noqa
                    pass
        for k, v in cd0.items():
            if k not in cur or cur[k] is not v:
                if k in ("__dict__", "__weakref__"):
                    continue
                changed.append(f"{cname}.{k}")
                try:
                    setattr(cls, k, v.__func__ if False else v)
                except Exception:  # noqa
                    pass
    for name, cell, obj in snap.get("cells", ()):
        try:
            if cell.cell_contents is not obj:
                changed.append(f"{name} (rebound)")
                cell.cell_contents = obj
        except ValueError:
            cell.cell_contents = obj
    for name, obj, c in snap["containers"]:
        if not _same(c, obj):
            changed.append(f"{name} (contents)")
            _put(c, obj)
    for name, f, size in snap.get("caches", ()):
        # a memo table cannot be put back entry by entry; emptying it is neutral for a pure function, and a
        # snapshot is only ever taken before the explored steps (entries made by warm-up are recomputed)
        if _cache_size(f) != size:
            changed.append(f"{name} (functools cache)")
        try:
            f.cache_clear()
        except Exception:  # noqa
            pass
    if sys.getrecursionlimit() != snap["reclimit"]:
        changed.append("sys.recursionlimit")
        sys.setrecursionlimit(snap["reclimit"])
    nlex = 0
    for name, lexer, scanner, cb, items in snap.get("larklex", ()):
        if lexer._scanner is not scanner or getattr(lexer, "callback", None) is not cb or (items is not None and list(cb.items()) != items):
            nlex += 1
            lexer._scanner = scanner
            lexer.callback = cb
            if items is not None:
                cb.clear()
                cb.update(items)
    if nlex:
        changed.append(f"lark lexer scanners built lazily ({nlex} lexer states)")
    return changed


def diff_names(snap):
    """Names whose binding (or shallow contents) differ from the snapshot, without restoring;
    changed containers are reported with a digest of their current contents' reprs."""
    import re
    addr = re.compile(r"0x[0-9a-fA-F]+")
    changed = []
    for mname, mod, d0 in snap["mods"]:
        d = vars(mod)
        for k in d.keys():
            if k not in d0:
                changed.append(f"{mname}.{k}+")
        for k, v in d0.items():
            if k not in d or d[k] is not v:
                changed.append(f"{mname}.{k}={type(d.get(k)).__name__}")
    for cname, cls, cd0 in snap["classes"]:
        cur = vars(cls)
        for k in cur.keys():
            if k not in cd0:
                changed.append(f"{cname}.{k}+")
        for k, v in cd0.items():
            if k in ("__dict__", "__weakref__"):
                continue
            if k not in cur or cur[k] is not v:
                val = cur.get(k)
                tag = type(val).__name__
                opts = getattr(val, "options", None)
                if opts is not None and hasattr(opts, "tree_class"):
                    tag += ":" + getattr(opts.tree_class, "__name__", "?")
                changed.append(f"{cname}.{k}={tag}")
    for name, obj, c in snap["containers"]:
        if not _same(c, obj):
            changed.append(f"{name}~{addr.sub('0x', repr(sorted(map(repr, (dict.keys(obj) if isinstance(obj, dict) else obj)))))[:300]}")
    for name, f, size in snap.get("caches", ()):
        if _cache_size(f) != size:
            changed.append(f"{name}#cache={_cache_size(f)}")
    if sys.getrecursionlimit() != snap["reclimit"]:
        changed.append(f"recursionlimit={sys.getrecursionlimit()}")
    built = [i for i, (name, lexer, scanner, cb, items) in enumerate(snap.get("larklex", ())) if lexer._scanner is not scanner or getattr(lexer, "callback", None) is not cb]
    if built:
        changed.append("larklex=" + ",".join(map(str, built)))
    return sorted(changed)
