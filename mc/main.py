"""./check <ID> [--tier quick|thorough] [--replay PATH]"""
import argparse
import importlib
import json
import os
import sys
import traceback

from . import repo, runner


def main(argv=None):
    ap = argparse.ArgumentParser()
    ap.add_argument("prop")
    ap.add_argument("--tier", default=os.environ.get("VERIF_TIER", "quick"), choices=["quick", "thorough"])
    ap.add_argument("--replay")
    a = ap.parse_args(argv)
    prop = a.prop.upper()
    seed = int(os.environ.get("VERIF_SEED", "0") or 0)
    try:
        repo.load()
        mod = importlib.import_module(f"mc.props.{prop.lower()}")
        if a.replay:
            w = json.load(open(a.replay))
            return mod.replay(w)
        ctx = runner.Ctx(prop, a.tier, seed, mod.LEVEL)
        mod.run(ctx)
        return ctx.finish()
    except runner.HarnessError as ex:
        print(f"HARNESS-ERROR property={prop} {ex}")
        return 3
    except Exception as ex:  # noqa
        traceback.print_exc()
        print(f"HARNESS-ERROR property={prop} {type(ex).__name__}: {ex}")
        return 3


if __name__ == "__main__":
    sys.stdout.reconfigure(line_buffering=True)
    sys.exit(main())
