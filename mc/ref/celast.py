"""Reference syntax for CEL (DESIGN.md 2.3 `celast`, used by C06): abstract terms as nested tuples, a
printer (minimally / fully parenthesised) driven by the precedence table of the CEL language
definition, a precedence-climbing reference parser for the token subset the checks use, and
`abstract()` which maps a concrete parse tree (anything with .data/.children, leaves with .type) to
the abstract term by dropping single-child chains and paren_expr nodes.  Nothing here imports the
library or lark.

Terms  ('id',n) ('lit',TOKTYPE,text) ('list',items) ('map',((k,v),..)) ('call',n,args) ('dotid',n)
       ('dotcall0',n,args) ('cond',c,x,y) ('bin',op,l,r) ('not',x) ('neg',x) ('dot',x,n)
       ('dotcall',x,n,args) ('index',x,y) ('msg',x,((n,v),..))

Grammar read (cel-spec langdef, "Syntax"):  Expr = ConditionalOr ["?" ConditionalOr ":" Expr];
|| < && < relations < + - < * / % (left-associative) < unary ("!"{"!"} | "-"{"-"}) < member
(.f  .f(args)  [e]  {f: e}) < primary.
"""
import re

REL = ("<", "<=", ">", ">=", "==", "!=", "in")
LEVEL = {"||": 1, "&&": 2, "+": 4, "-": 4, "*": 5, "/": 5, "%": 5, **{r: 3 for r in REL}}
BINOPS = ("||", "&&") + REL + ("+", "-", "*", "/", "%")
KEYWORD = {"true": "BOOL_LIT", "false": "BOOL_LIT", "null": "NULL_LIT"}
RESERVED = set("as break const continue else for function if import let loop package namespace return var void while".split())


class Reject(Exception):
    """Not derivable from the CEL grammar."""


class Unspec(Exception):
    """Outside the token subset the reference covers, or lexically ambiguous in the language
    definition (`-` directly before a digit, a digit directly before `.`): nothing is claimed."""


def level(t):
    k = t[0]
    return 0 if k == "cond" else LEVEL[t[1]] if k == "bin" else 6 if k in ("not", "neg") else 7 if k in ("dot", "dotcall", "index", "msg") else 8


# ---- printer --------------------------------------------------------------------------------------
def wordy(c):
    return c.isalnum() or c == "_"


def separable(a, b):
    """May tokens a, b be written with nothing between them without changing the token sequence?"""
    x, y = a[-1], b[0]
    return not ((wordy(x) and wordy(y)) or (x.isdigit() and y == ".") or (x == "." and y.isdigit())
                or (x == "-" and y.isdigit()) or (x in "<>=!&|/" and y in "=&|/"))


class _Out:
    def __init__(self):
        self.toks, self.glue, self._g = [], [], True

    def t(self, text, glue=False, glue_next=False):
        self.toks.append(text)
        self.glue.append(glue or self._g)
        self._g = glue_next


def _seq(items, out, full, emit_item):
    for i, it in enumerate(items):
        if i:
            out.t(",", glue=True)
        emit_item(it)


def _emit(t, out, full):
    def sub(x, minlevel, same=None):       # operand position requiring at least `minlevel`
        if (full and (full > 1 or level(x) < 8)) or (level(x) < minlevel and x[0] != same):
            out.t("(", glue_next=True); _emit(x, out, full); out.t(")", glue=True)
        else:
            _emit(x, out, full)

    def args(xs):
        out.t("(", glue=True, glue_next=True); _seq(xs, out, full, lambda x: sub(x, 0)); out.t(")", glue=True)

    k = t[0]
    if k == "id":
        out.t(t[1])
    elif k == "lit":
        out.t(t[2])
    elif k == "list":
        out.t("[", glue_next=True); _seq(t[1], out, full, lambda x: sub(x, 0)); out.t("]", glue=True)
    elif k == "map":
        def kv(p):
            sub(p[0], 0); out.t(":", glue=True); sub(p[1], 0)
        out.t("{", glue_next=True); _seq(t[1], out, full, kv); out.t("}", glue=True)
    elif k == "call":
        out.t(t[1]); args(t[2])
    elif k == "dotid":
        out.t(".", glue_next=True); out.t(t[1])
    elif k == "dotcall0":
        out.t(".", glue_next=True); out.t(t[1]); args(t[2])
    elif k == "cond":
        sub(t[1], 1); out.t("?"); sub(t[2], 1); out.t(":"); sub(t[3], 0)
    elif k == "bin":
        lv = LEVEL[t[1]]
        sub(t[2], lv); out.t(t[1]); sub(t[3], lv + 1)
    elif k in ("not", "neg"):
        out.t("!" if k == "not" else "-", glue_next=True); sub(t[1], 7, same=k)
    elif k in ("dot", "dotcall", "index", "msg"):
        sub(t[1], 7)
        if k == "index":
            out.t("[", glue=True, glue_next=True); sub(t[2], 0); out.t("]", glue=True)
        elif k == "msg":
            def fv(p):
                out.t(p[0]); out.t(":", glue=True); sub(p[1], 0)
            out.t("{", glue=True, glue_next=True); _seq(t[2], out, full, fv); out.t("}", glue=True)
        else:
            out.t(".", glue=True, glue_next=True); out.t(t[2])
            if k == "dotcall":
                args(t[3])
    else:
        raise ValueError(f"not a term: {t!r}")


def tokens(t, full=0):
    """(token texts, glue flags): glue[i] says token i is conventionally written tight to token i-1.
    full=0 minimal parentheses; 1 every operand that is an operator application; 2 every operand."""
    out = _Out()
    _emit(t, out, full)
    return out.toks, out.glue


def join(toks, glue=None, gaps=None):
    """Text of a token list; gaps[i] (between token i and i+1) overrides the conventional spacing."""
    s = toks[0]
    for i in range(1, len(toks)):
        if gaps is not None:
            s += gaps[i - 1]
        else:
            s += "" if (glue and glue[i] and separable(toks[i - 1], toks[i])) else " "
        s += toks[i]
    return s


def minimal(t):
    return join(*tokens(t, 0))


def full(t):
    return join(*tokens(t, 1))


def fullest(t):
    return join(*tokens(t, 2))


# ---- reference tokenizer + precedence-climbing parser ---------------------------------------------
_SKIP = re.compile(r"(?:[\t\n\f\r ]+|//[^\n]*)*")
_TOK = re.compile(r"""(?P<FLOAT_LIT>[0-9]+\.[0-9]+(?![\w.]))|(?P<INT_LIT>[0-9]+(?![\w.]))|(?P<IDENT>[_a-zA-Z][_a-zA-Z0-9]*)
    |(?P<STRING_LIT>"[^"\\\n]*"(?!")|'[^'\\\n]*'(?!'))|(?P<P>\|\||&&|<=|>=|==|!=|[-<>+*/%!?:.,()\[\]{}])""", re.X)


def tokenize(text):
    out, i = [], _SKIP.match(text).end()
    while i < len(text):
        m = _TOK.match(text, i)
        if not m:
            raise Unspec(f"outside the reference token subset at {i}: {text[i:i + 8]!r}")
        kind, s = m.lastgroup, m.group()
        if kind == "IDENT":
            if s in RESERVED or (s[0] in "rRbB" and text[m.end():m.end() + 1] in ("'", '"')):
                raise Unspec("reserved word / prefixed string")
            kind = "in" if s == "in" else KEYWORD.get(s, "IDENT")
        elif kind == "P":
            kind = s
            if s == "-" and text[m.end():m.end() + 1].isdigit():
                raise Unspec("'-' directly before a digit: signed literal or operator")
            if s == "." and text[m.end():m.end() + 1].isdigit():
                raise Unspec("'.' directly before a digit")
        out.append((kind, s))
        i = _SKIP.match(text, m.end()).end()
    return out


class _P:
    def __init__(self, toks):
        self.toks, self.i, self.flags = toks + [("$", "")], 0, set()

    def peek(self):
        return self.toks[self.i][0]

    def next(self, want=None):
        k, s = self.toks[self.i]
        if want is not None and k != want:
            raise Reject(f"expected {want!r}, found {s!r} (token {self.i})")
        self.i += 1
        return s

    def expr(self):
        c = self.binary(1)
        if self.peek() != "?":
            return c
        self.next()
        x = self.binary(1)                 # the middle operand is a ConditionalOr
        self.next(":")
        return ("cond", c, x, self.expr())

    def binary(self, minlevel):
        left = self.unary()
        while LEVEL.get(self.peek(), -1) >= minlevel:
            op = self.next()
            left = ("bin", op, left, self.binary(LEVEL[op] + 1))
        return left

    def unary(self):
        k = self.peek()
        if k not in ("!", "-"):
            return self.member()
        self.next()
        if self.peek() in ("!", "-") and self.peek() != k:
            self.flags.add("mixed-unary")   # `!-x`: not in the CEL grammar ("!"{"!"} Member | "-"{"-"} Member)
        return ("not" if k == "!" else "neg", self.unary())

    def name(self):
        if self.peek() in ("BOOL_LIT", "NULL_LIT", "in"):
            raise Unspec("keyword in a field / function name position")
        return self.next("IDENT")

    def listof(self, close, item):
        out = []
        if self.peek() != close:
            out.append(item())
            while self.peek() == ",":
                self.next()
                out.append(item())
        self.next(close)
        return tuple(out)

    def field(self):
        n = self.name()
        self.next(":")
        return (n, self.expr())

    def entry(self):
        k = self.expr()
        self.next(":")
        return (k, self.expr())

    def member(self):
        t = self.primary()
        while True:
            k = self.peek()
            if k == ".":
                self.next()
                n = self.name()
                if self.peek() == "(":
                    self.next()
                    t = ("dotcall", t, n, self.listof(")", self.expr))
                else:
                    t = ("dot", t, n)
            elif k == "[":
                self.next()
                t = ("index", t, self.expr())
                self.next("]")
            elif k == "{":
                self.next()
                t = ("msg", t, self.listof("}", self.field))
            else:
                return t

    def primary(self):
        k = self.peek()
        if k in ("INT_LIT", "FLOAT_LIT", "STRING_LIT", "BOOL_LIT", "NULL_LIT"):
            return ("lit", k, self.next())
        if k == "(":
            self.next()
            t = self.expr()
            self.next(")")
            return t
        if k == "[":
            self.next()
            return ("list", self.listof("]", self.expr))
        if k == "{":
            self.next()
            return ("map", self.listof("}", self.entry))
        dot = k == "."
        if dot:
            self.next()
            n = self.name()
        else:
            n = self.next("IDENT")
        if self.peek() == "(":
            self.next()
            return ("dotcall0" if dot else "call", n, self.listof(")", self.expr))
        return ("dotid", n) if dot else ("id", n)


def parse(text):
    """-> (term, flags); raises Reject (not CEL) or Unspec (the reference does not rule)."""
    p = _P(tokenize(text))
    t = p.expr()
    p.next("$")
    return t, p.flags


# ---- concrete tree -> abstract term ---------------------------------------------------------------
_BIN_WRAP = {"relation_lt": "<", "relation_le": "<=", "relation_gt": ">", "relation_ge": ">=", "relation_eq": "==",
             "relation_ne": "!=", "relation_in": "in", "addition_add": "+", "addition_sub": "-",
             "multiplication_mul": "*", "multiplication_div": "/", "multiplication_mod": "%"}
_CHAIN = {"expr", "conditionalor", "conditionaland", "relation", "addition", "multiplication", "unary", "member", "primary", "paren_expr"}


def abstract(tree):
    """Unknown shapes become ('?', rule, ...) terms, which equal no reference term."""
    if not hasattr(tree, "data"):
        return ("?token", getattr(tree, "type", None), str(tree))
    d, ch = str(tree.data), tree.children
    A = abstract

    def seq(node, rule):
        if str(getattr(node, "data", "")) != rule:
            return ("?", rule, A(node))
        return tuple(A(c) for c in node.children)

    def pairs(node, rule, key):
        c = node.children
        if str(getattr(node, "data", "")) != rule or len(c) % 2:
            return ("?", rule, A(node))
        return tuple((key(c[i]), A(c[i + 1])) for i in range(0, len(c), 2))

    def tok(x):
        return str(x) if getattr(x, "type", None) == "IDENT" else ("?name", getattr(x, "type", None), str(x))

    n = len(ch)
    if d in _CHAIN and n == 1:
        return A(ch[0])
    if d == "expr" and n == 3:
        return ("cond", A(ch[0]), A(ch[1]), A(ch[2]))
    if d in ("conditionalor", "conditionaland") and n == 2:
        return ("bin", "||" if d == "conditionalor" else "&&", A(ch[0]), A(ch[1]))
    if d in ("relation", "addition", "multiplication") and n == 2:
        w = ch[0]
        wd = str(getattr(w, "data", ""))
        if wd in _BIN_WRAP and wd.startswith(d) and len(w.children) == 1:
            return ("bin", _BIN_WRAP[wd], A(w.children[0]), A(ch[1]))
    if d == "unary" and n == 2 and str(getattr(ch[0], "data", "")) in ("unary_not", "unary_neg") and not ch[0].children:
        return ("not" if ch[0].data == "unary_not" else "neg", A(ch[1]))
    if d == "member_dot" and n == 2:
        return ("dot", A(ch[0]), tok(ch[1]))
    if d == "member_dot_arg" and n in (2, 3):
        return ("dotcall", A(ch[0]), tok(ch[1]), seq(ch[2], "exprlist") if n == 3 else ())
    if d == "member_index" and n == 2:
        return ("index", A(ch[0]), A(ch[1]))
    if d == "member_object" and n in (1, 2):
        return ("msg", A(ch[0]), pairs(ch[1], "fieldinits", tok) if n == 2 else ())
    if d == "literal" and n == 1 and hasattr(ch[0], "type"):
        return ("lit", ch[0].type, str(ch[0]))
    if d == "ident" and n == 1:
        return ("id", tok(ch[0]))
    if d == "dot_ident" and n == 1:
        return ("dotid", tok(ch[0]))
    if d in ("ident_arg", "dot_ident_arg") and n in (1, 2):
        return ("call" if d == "ident_arg" else "dotcall0", tok(ch[0]), seq(ch[1], "exprlist") if n == 2 else ())
    if d == "list_lit" and n in (0, 1):
        return ("list", seq(ch[0], "exprlist") if n else ())
    if d == "map_lit" and n in (0, 1):
        return ("map", pairs(ch[0], "mapinits", A) if n else ())
    return ("?", d) + tuple(A(c) for c in ch)


# ---- self-test ------------------------------------------------------------------------------------
def selftest():
    a, b, c, d, e = (("id", x) for x in "abcde")
    one = ("lit", "INT_LIT", "1")
    B = lambda op, l, r: ("bin", op, l, r)  # noqa: E731
    table = [
        ("a + b * c", B("+", a, B("*", b, c))), ("(a + b) * c", B("*", B("+", a, b), c)),
        ("a - b - c", B("-", B("-", a, b), c)), ("a - (b - c)", B("-", a, B("-", b, c))),
        ("a == b != c", B("!=", B("==", a, b), c)), ("a in b + c", B("in", a, B("+", b, c))),
        ("a || b && c", B("||", a, B("&&", b, c))), ("a && b == c", B("&&", a, B("==", b, c))),
        ("a ? b : c ? d : e", ("cond", a, b, ("cond", c, d, e))), ("(a ? b : c) ? d : e", ("cond", ("cond", a, b, c), d, e)),
        ("a ? (b ? c : d) : e", ("cond", a, ("cond", b, c, d), e)), ("a ? b || c : d", ("cond", a, B("||", b, c), d)),
        ("a || b ? c : d", ("cond", B("||", a, b), c, d)),
        ("!a.f", ("not", ("dot", a, "f"))), ("(!a).f", ("dot", ("not", a), "f")), ("--a", ("neg", ("neg", a))),
        ("!(-a)", ("not", ("neg", a))), ("-a * b", B("*", ("neg", a), b)), ("-(a * b)", ("neg", B("*", a, b))),
        ("a.f(b)[c]{g: d}", ("msg", ("index", ("dotcall", a, "f", (b,)), c), (("g", d),))),
        ("a - - 1", B("-", a, ("neg", one))), ("1 .f", ("dot", one, "f")), ("[a, [], {}]", ("list", (a, ("list", ()), ("map", ())))),
        ("{a: b, 1: true}", ("map", ((a, b), (one, ("lit", "BOOL_LIT", "true"))))), (".a + f(a, b) + .g()", B("+", B("+", ("dotid", "a"), ("call", "f", (a, b))), ("dotcall0", "g", ()))),
        ("a[b ? c : d]", ("index", a, ("cond", b, c, d))), ("null == nullx", B("==", ("lit", "NULL_LIT", "null"), ("id", "nullx"))),
    ]
    for text, term in table:
        assert parse(text)[0] == term, (text, parse(text), term)
        assert minimal(term) == text, (minimal(term), text)
        assert parse(full(term))[0] == term and parse(fullest(term))[0] == term, full(term)
    assert parse("a // c\n\t+\r\fb//x")[0] == B("+", a, b)
    assert parse("!-a") == (("not", ("neg", a)), {"mixed-unary"})
    for bad in ("a ? b ? c : d : e", "a +", "a b", "", "[a,]", "a ? b", "f(", "a..b", "{a}", "a{b}", "()", "a ? b : c : d"):
        try:
            parse(bad)
        except Reject:
            continue
        raise AssertionError(f"reference parser accepted {bad!r}")
    for un in ("-1", "a-1", "1.f", "1u", "0x1", 'b"s"', "a.true", "1.", "as", "a # b", '"\\n"'):
        try:
            parse(un)
        except Unspec:
            continue
        raise AssertionError(f"reference parser ruled on {un!r}")
    assert fullest(B("+", a, ("neg", b))) == "(a) + (-(b))" and full(B("+", a, ("neg", b))) == "a + (-b)" and minimal(("neg", one)) == "- 1"
    assert full(("cond", a, b, B("*", B("+", a, b), ("index", c, B("-", d, e))))) == "a ? b : ((a + b) * (c[(d - e)]))"
    assert not separable("a", "in") and not separable("1", ".") and not separable("<", "=") and separable("a", "+")

    class T:                               # abstract() on a hand-built concrete tree: (a) + b
        def __init__(self, data, *children):
            self.data, self.children = data, list(children)

    class K(str):
        def __new__(cls, type_, v):
            o = str.__new__(cls, v)
            o.type = type_
            return o

    def chain(rules, leaf):
        for r in reversed(rules):
            leaf = T(r, leaf)
        return leaf
    down = ["multiplication", "unary", "member", "primary"]
    ida = chain(down, T("paren_expr", chain(["expr", "conditionalor", "conditionaland", "relation", "addition"] + down, T("ident", K("IDENT", "a")))))
    tree = chain(["expr", "conditionalor", "conditionaland", "relation"], T("addition", T("addition_add", T("addition", ida)), chain(down, T("ident", K("IDENT", "b")))))
    assert abstract(tree) == B("+", a, b), abstract(tree)
    assert abstract(T("literal", K("IDENT", "true")))[1] == "IDENT" and abstract(T("weird", tree))[0] == "?"
    return True
