"""Shell pattern matching (POSIX 2.13.1 without pathname rules), deliberately boring.

``*`` any string, ``?`` any one character, ``[seq]`` one character out of seq, ``[!seq]`` one
character not in seq, everything else stands for itself; the whole text must match.

UNSPEC (shells and fnmatch implementations differ, the property is silent): a ``[`` that does
not open a well-formed ``[seq]`` / ``[!seq]`` with a non-empty seq free of ``[``, ``]``, ``-``,
``^``, ``\\``; a ``]`` outside such a bracket expression; a backslash anywhere.

No import of fnmatch / re / the library.
"""
from . import UNSPEC

_BAD_IN_SEQ = set("[]-^\\")


def parse(pattern):
    """pattern -> list of tokens ('lit', c) | ('one',) | ('star',) | ('set', negated, chars), or UNSPEC."""
    toks = []
    i, n = 0, len(pattern)
    while i < n:
        c = pattern[i]
        if c == "\\" or c == "]":
            return UNSPEC
        if c == "*":
            toks.append(("star",))
        elif c == "?":
            toks.append(("one",))
        elif c == "[":
            j = i + 1
            neg = False
            if j < n and pattern[j] == "!":
                neg = True
                j += 1
            k = j
            while k < n and pattern[k] != "]":
                if pattern[k] in _BAD_IN_SEQ:
                    return UNSPEC
                k += 1
            if k >= n or k == j:  # not closed, or empty seq ("[]", "[!]")
                return UNSPEC
            toks.append(("set", neg, frozenset(pattern[j:k])))
            i = k
        else:
            toks.append(("lit", c))
        i += 1
    return toks


def _one(tok, ch):
    if tok[0] == "lit":
        return tok[1] == ch
    if tok[0] == "one":
        return True
    return (ch in tok[2]) != tok[1]


def match(text, pattern):
    """True / False / UNSPEC: does the whole of text match pattern?"""
    toks = parse(pattern)
    if toks is UNSPEC:
        return UNSPEC
    # reach[j] : toks[:i] can match text[:j]
    reach = [True] + [False] * len(text)
    for tok in toks:
        if tok[0] == "star":
            seen = False
            nxt = []
            for r in reach:
                seen = seen or r
                nxt.append(seen)
        else:
            nxt = [False] * (len(text) + 1)
            for j, r in enumerate(reach[:-1]):
                if r and _one(tok, text[j]):
                    nxt[j + 1] = True
        reach = nxt
    return reach[len(text)]


def selftest():
    T, F, U = True, False, UNSPEC
    cases = [
        ("", "", T), ("a", "", F), ("", "a", F), ("", "*", T), ("", "?", F), ("", "**", T),
        ("a", "a", T), ("a", "b", F), ("ab", "a", F), ("a", "ab", F),
        ("ab", "a*", T), ("ab", "*b", T), ("ab", "*a", F), ("ab", "*", T), ("ab", "a*b", T), ("aab", "a*b", T),
        ("ab", "?", F), ("ab", "??", T), ("ab", "?b", T), ("ab", "?a", F), ("ab", "*?", T), ("a", "*??", F),
        ("a", "[a]", T), ("b", "[a]", F), ("a", "[!a]", F), ("b", "[!a]", T), ("a", "[ab]", T), ("", "[a]", F),
        ("a", "[*]", F), ("*", "[*]", T), ("!", "[a!]", T), ("a", "[!!]", T), ("!", "[!!]", F), ("a!", "a!", T),
        ("aba", "a*a", T), ("abab", "*ab", T), ("abab", "a*a", F), ("bab", "[!a]*[b]", T),
        ("a", "[", U), ("a", "]", U), ("a", "[]", U), ("a", "[!]", U), ("a", "[a", U), ("a", "a]", U),
        ("a", "[[]", U), ("a", "[]]", U), ("a", "[a-b]", U), ("a", "\\a", U), ("a", "[^a]", U),
        # the repository's own pinned cases (tests/test_c7nlib.py)
        ("c7nlib.py", "*.py", T), ("c7nlib.py", "*.pyc", F), ("PRE-this", "PRE-*", T),
    ]
    for text, pat, want in cases:
        got = match(text, pat)
        assert got is want or got == want, (text, pat, want, got)
    # brute-force cross-check of the DP against a naive backtracking matcher on a small space
    def naive(toks, text):
        if not toks:
            return text == ""
        t = toks[0]
        if t[0] == "star":
            return any(naive(toks[1:], text[k:]) for k in range(len(text) + 1))
        return bool(text) and _one(t, text[0]) and naive(toks[1:], text[1:])
    alpha_p, alpha_t = "ab*?", "ab"
    pats = [""]
    for _ in range(4):
        pats += [p + c for p in pats for c in alpha_p if len(p + c) <= 4]
    texts = [""]
    for _ in range(4):
        texts += [t + c for t in texts for c in alpha_t if len(t + c) <= 4]
    for p in set(pats):
        for t in set(texts):
            assert match(t, p) == naive(parse(p), t), (t, p)
    return True
