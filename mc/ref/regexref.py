"""Reference matcher for a regular-expression fragment on which RE2 and any textbook matcher agree
for the boolean question "does the pattern match somewhere in the text" (search semantics):
literals, '.', concatenation, alternation, * + ?, ^ $, groups, character classes.  No
backreferences, look-around or laziness, so no engine-specific behaviour can show.

A regex is a nested tuple; ``render`` prints it with explicit groups; ``search`` decides it by
computing the set of end positions reachable from every start position.
"""
import itertools


def render(r):
    k = r[0]
    if k == "lit":
        return r[1]
    if k == "dot":
        return "."
    if k == "bol":
        return "^"
    if k == "eol":
        return "$"
    if k == "cls":
        return "[" + r[1] + "]"
    if k == "cat":
        return "".join(_g(x, ("alt",)) for x in r[1:])
    if k == "alt":
        return "|".join(render(x) for x in r[1:])
    if k in ("star", "plus", "opt"):
        return _g(r[1], ("alt", "cat", "star", "plus", "opt", "bol", "eol")) + {"star": "*", "plus": "+", "opt": "?"}[k]
    if k == "grp":
        return "(" + render(r[1]) + ")"
    raise ValueError(r)


def _g(x, wrap):
    s = render(x)
    return "(" + s + ")" if x[0] in wrap else s


def ends(r, text, i):
    """set of positions j such that r matches text[i:j]"""
    k = r[0]
    n = len(text)
    if k == "lit":
        return {i + 1} if i < n and text[i] == r[1] else set()
    if k == "dot":
        return {i + 1} if i < n and text[i] != "\n" else set()
    if k == "cls":
        return {i + 1} if i < n and text[i] in r[1] else set()
    if k == "bol":
        return {i} if i == 0 else set()
    if k == "eol":
        return {i} if i == n else set()
    if k == "grp":
        return ends(r[1], text, i)
    if k == "cat":
        cur = {i}
        for x in r[1:]:
            nxt = set()
            for p in cur:
                nxt |= ends(x, text, p)
            cur = nxt
            if not cur:
                break
        return cur
    if k == "alt":
        out = set()
        for x in r[1:]:
            out |= ends(x, text, i)
        return out
    if k == "opt":
        return {i} | ends(r[1], text, i)
    if k in ("star", "plus"):
        seen = set()
        frontier = {i}
        reach = set() if k == "plus" else {i}
        first = True
        while frontier:
            nxt = set()
            for p in frontier:
                for q in ends(r[1], text, p):
                    if q not in reach or (first and k == "plus"):
                        nxt.add(q)
                    reach.add(q)
            first = False
            nxt -= seen
            seen |= nxt
            frontier = nxt
        return reach
    raise ValueError(r)


def search(r, text):
    return any(ends(r, text, i) for i in range(len(text) + 1))


ATOMS = [("lit", "a"), ("lit", "b"), ("dot",), ("cls", "ab"), ("bol",), ("eol",)]


def regexes(max_nodes):
    """every regex with at most max_nodes nodes (atoms count 1, each operator 1)"""
    by_size = {1: list(ATOMS)}
    for n in range(2, max_nodes + 1):
        out = []
        for sub in by_size[n - 1]:
            if sub[0] not in ("bol", "eol"):
                out += [("star", sub), ("plus", sub), ("opt", sub)]
            out.append(("grp", sub))
        for a in range(1, n - 1):
            b = n - 1 - a
            for x in by_size[a]:
                for y in by_size[b]:
                    out.append(("cat", x, y))
                    out.append(("alt", x, y))
        by_size[n] = out
    res = []
    for n in range(1, max_nodes + 1):
        res += by_size[n]
    return res


def texts(alphabet, maxlen):
    for k in range(maxlen + 1):
        for t in itertools.product(alphabet, repeat=k):
            yield "".join(t)


def selftest():
    import re
    rs = regexes(3)
    ts = list(texts("ab", 3))
    for r in rs:
        pat = render(r)
        try:
            cp = re.compile(pat)
        except re.error:
            continue  # e.g. "a**"-like nestings Python's re rejects: no verdict from this cross-check
        for t in ts:
            assert search(r, t) == (cp.search(t) is not None), (pat, t)
    assert search(("cat", ("bol",), ("lit", "a"), ("eol",)), "a") and not search(("cat", ("bol",), ("lit", "a"), ("eol",)), "ab")
    assert search(("star", ("lit", "a")), "") and search(("plus", ("cls", "ab")), "b") and not search(("plus", ("lit", "a")), "b")


if __name__ == "__main__":
    selftest()
    print("regexref ok", len(regexes(4)))
