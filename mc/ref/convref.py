"""Reference reading of the *numeric / text / UTF-8* conversions of C10 (independent of the library).

Every function returns the mathematical result, ``ERR`` (the property demands an evaluation
error) or ``UNSPEC`` (the property does not rule: surrounding spaces, underscores, non-ASCII
digits, a leading ``+``, leading zeros, hex spellings, "nan"/"inf" spellings, uint(-0.5) ...).
Only exact integers and ``fractions.Fraction`` are used; a binary64 is produced once, by
CPython's correctly rounded int/int true division (as in ``ieee``).
"""
import re
from fractions import Fraction

from . import UNSPEC
from .intarith import I_MAX, I_MIN, U_MAX, tdiv

ERR = "ERR"
_CANON_INT = re.compile(r"-?(0|[1-9][0-9]*)\Z")
_LOOSE_INT = re.compile(r"[+-]?[0-9]+\Z")
_HEX_INT = re.compile(r"[+-]?0[xX][0-9a-fA-F]+\Z")
_CANON_DBL = re.compile(r"(-?)([0-9]+)(?:\.([0-9]+))?(?:[eE]([+-]?[0-9]+))?\Z")
_LOOSE_DBL = re.compile(r"[+-]?([0-9]+\.?[0-9]*|\.[0-9]+)([eE][+-]?[0-9]+)?\Z")
_NANINF = re.compile(r"[+-]?(nan|inf|infinity)\Z", re.I)
_WS = " \t\n\r\v\f"


def fits(kind, v):
    return (I_MIN <= v <= I_MAX) if kind == "int" else (0 <= v <= U_MAX)


def _silent(s):
    """Spellings on which the property is silent, whatever the numeric target."""
    return (s != s.strip(_WS) and s.strip(_WS) != "") or "_" in s or any(ord(c) > 127 for c in s)


def int_text(kind, s):
    """int(string) / uint(string): canonical ASCII decimal -> value, or ERR when it does not fit."""
    if kind == "uint" and s[-1:] in ("u", "U"):
        return UNSPEC  # the literal suffix: not ruled on
    if _CANON_INT.match(s) and s != "-0":
        v = int(s)  # ASCII decimal only, by the regex
        return v if fits(kind, v) else ERR
    if _silent(s) or _LOOSE_INT.match(s) or _HEX_INT.match(s):
        return UNSPEC
    return ERR


def to_float(fr, negative_zero=False):
    """Correctly rounded binary64 of a Fraction; None when it is not finite."""
    if fr == 0:
        return -0.0 if negative_zero else 0.0
    try:
        r = fr.numerator / fr.denominator
    except OverflowError:
        return None
    if r in (float("inf"), float("-inf")):
        return None
    if r == 0.0:
        return -0.0 if fr < 0 else 0.0
    return r


def double_text(s):
    """double(string): plain decimal / exponent notation -> the correctly rounded binary64."""
    m = _CANON_DBL.match(s)
    if m:
        sign, ip, fp, ex = m.group(1), m.group(2), m.group(3) or "", int(m.group(4) or 0)
        if abs(ex) > 5000:
            return UNSPEC
        fr = Fraction(int(ip + fp), 10 ** len(fp)) * (Fraction(10) ** ex)
        r = to_float(-fr if sign else fr, negative_zero=bool(sign))
        if r is None:
            return ERR     # decimal text beyond the double range: "never a wrapped or clamped value" (an infinity would be one)
        if r == 0.0 and fr != 0:
            return UNSPEC  # underflowing to zero: rounding, not ruled on
        return r
    if _silent(s) or _NANINF.match(s) or _LOOSE_DBL.match(s) or _HEX_INT.match(s) or re.match(r"[+-]?0[xX]", s):
        return UNSPEC
    return ERR


def trunc(kind, d):
    """int(double) / uint(double): truncation toward zero, ERR when the result does not fit."""
    if d != d or d in (float("inf"), float("-inf")):
        return ERR  # no integer is the truncation of NaN / an infinity
    n, den = d.as_integer_ratio()  # exact
    v = tdiv(n, den)
    if kind == "uint" and v == 0 and n < 0:
        return UNSPEC  # uint(-0.5): negative operand, zero result
    if kind == "int" and d == -(2.0 ** 63):
        return UNSPEC  # fits mathematically, but cel-spec's conformance suite demands a range error
    return v if fits(kind, v) else ERR


def int_to_uint(i):
    return i if i >= 0 else ERR


def uint_to_int(u):
    return u if u <= I_MAX else ERR


def utf8_decode(b):
    """Strict UTF-8 (RFC 3629: shortest form, no surrogates, <= U+10FFFF) -> str, or ERR."""
    out, i, n = [], 0, len(b)
    while i < n:
        c = b[i]
        if c < 0x80:
            need, cp, lo = 0, c, 0
        elif 0xC2 <= c <= 0xDF:
            need, cp, lo = 1, c & 0x1F, 0x80
        elif 0xE0 <= c <= 0xEF:
            need, cp, lo = 2, c & 0x0F, 0x800
        elif 0xF0 <= c <= 0xF4:
            need, cp, lo = 3, c & 0x07, 0x10000
        else:
            return ERR
        if i + need >= n:  # truncated sequence (never true for need == 0, since i < n)
            return ERR
        for k in range(1, need + 1):
            cc = b[i + k]
            if cc & 0xC0 != 0x80:
                return ERR
            cp = (cp << 6) | (cc & 0x3F)
        if cp < lo or 0xD800 <= cp <= 0xDFFF or cp > 0x10FFFF:
            return ERR
        out.append(chr(cp))
        i += need + 1
    return "".join(out)


def utf8_encode(s):
    out = bytearray()
    for ch in s:
        cp = ord(ch)
        if cp < 0x80:
            out.append(cp)
        elif cp < 0x800:
            out += bytes([0xC0 | cp >> 6, 0x80 | cp & 0x3F])
        elif cp < 0x10000:
            out += bytes([0xE0 | cp >> 12, 0x80 | cp >> 6 & 0x3F, 0x80 | cp & 0x3F])
        else:
            out += bytes([0xF0 | cp >> 18, 0x80 | cp >> 12 & 0x3F, 0x80 | cp >> 6 & 0x3F, 0x80 | cp & 0x3F])
    return bytes(out)


def selftest():
    assert int_text("int", "987") == 987 and int_text("int", "-1") == -1 and int_text("uint", "-1") == ERR
    assert int_text("int", str(I_MAX)) == I_MAX and int_text("int", str(I_MAX + 1)) == ERR
    assert int_text("int", str(I_MIN)) == I_MIN and int_text("int", str(I_MIN - 1)) == ERR
    assert int_text("uint", str(U_MAX)) == U_MAX and int_text("uint", str(U_MAX + 1)) == ERR
    for s in ("", "a", "1a", "1.0", "--1", "0x", "1e", "-", "+", "1-", "1 2", "x10"):
        assert int_text("int", s) == ERR and int_text("uint", s) == ERR, s
    for s in (" 1", "1 ", "1_0", "٣", "+1", "007", "-0", "0x10", "-0X1f", "１"):
        assert int_text("int", s) == UNSPEC, s
    assert int_text("uint", "300u") == UNSPEC and int_text("int", "300u") == ERR
    assert double_text("123.456") == 123.456 and double_text("-84.32e7") == -843200000.0
    assert double_text("6.02214e23") == 6.02214e23 and double_text("1.38e-23") == 1.38e-23
    assert str(double_text("-0.0")) == "-0.0" and str(double_text("0")) == "0.0" and double_text("5e-324") == 5e-324
    assert double_text("1e400") == ERR and double_text("-1.7976931348623159e308") == ERR and double_text("-1e-400") == UNSPEC and str(double_text("-0e5")) == "-0.0"
    assert double_text("0.30000000000000004") == 0.1 + 0.2 and double_text("1.7976931348623157e308") == 1.7976931348623157e308
    for s in ("", "a", "abc", "1e", "--1", "1a", "1.0.0", "e5", ".", "-", "1e+"):
        assert double_text(s) == ERR, s
    for s in (" 1", "1_0", "nan", "NaN", "inf", "-Infinity", "+1", ".5", "5.", "0x10", "٣.0"):
        assert double_text(s) == UNSPEC, s
    assert trunc("int", 1.9) == 1 and trunc("int", -7.9) == -7 and trunc("int", -0.5) == 0 and trunc("int", 11.5) == 11
    assert trunc("uint", 25.5) == 25 and trunc("uint", -0.5) == UNSPEC and trunc("uint", -0.0) == 0 and trunc("uint", -1.5) == ERR
    assert trunc("int", 2.0 ** 63) == ERR and trunc("int", 2.0 ** 63 - 1024) == 2 ** 63 - 1024
    assert trunc("int", -(2.0 ** 63)) == UNSPEC and trunc("int", -(2.0 ** 63) - 2048) == ERR
    assert trunc("uint", 2.0 ** 64) == ERR and trunc("uint", 2.0 ** 64 - 2048) == 2 ** 64 - 2048
    assert trunc("int", float("nan")) == ERR and trunc("uint", float("inf")) == ERR and trunc("int", 1e300) == ERR
    assert trunc("int", 36028797018963968.0) == 36028797018963968
    assert int_to_uint(-1) == ERR and int_to_uint(I_MAX) == I_MAX and uint_to_int(I_MAX + 1) == ERR
    # UTF-8: agree with the stdlib codec on every byte string of length <= 2 and on chosen longer ones
    import itertools
    pool = [bytes(t) for n in (0, 1, 2) for t in itertools.product(range(256), repeat=n)]
    pool += [b"\xed\xa0\x80", b"\xed\x9f\xbf", b"\xe0\x80\x80", b"\xe0\xa0\x80", b"\xf4\x8f\xbf\xbf", b"\xf4\x90\x80\x80",
             b"\xf0\x8f\xbf\xbf", b"\xf0\x90\x80\x80", b"\xef\xbf\xbf", b"\xe2\x82", b"\xf0\x9f\x98", b"\xf0\x9f\x98\x80", b"\xf5\x80\x80\x80"]
    for b in pool:
        try:
            exp = b.decode("utf-8")
        except UnicodeDecodeError:
            exp = ERR
        assert utf8_decode(b) == exp, b
    for s in ("", "a", "é", "￿", "\U0001f600", "\x00߿ࠀ\U0010ffff"):
        assert utf8_encode(s) == s.encode("utf-8") and utf8_decode(utf8_encode(s)) == s


if __name__ == "__main__":
    selftest()
    print("convref ok")
