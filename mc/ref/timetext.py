"""Reference reading of RFC 3339 timestamp text and of duration text, for C10 (whole seconds;
pure integer / Fraction arithmetic; does not import datetime, pendulum or the library).

An instant is an integer number of microseconds since 0001-01-01T00:00:00Z (the unit used by
``mc.outcome`` for timestamps); a duration is a ``Fraction`` of seconds.  ``ERR`` = the property
demands an evaluation error, ``UNSPEC`` = it does not rule (lenient ISO-8601 shapes, lower-case
t/z, leap second :60, surrounding space, a leading '+', the 'd' unit, ...).
"""
import re
from fractions import Fraction

from . import UNSPEC

ERR = "ERR"
DUR_MAX = 315576000000  # seconds, both signs
_MDAYS = (31, 28, 31, 30, 31, 30, 31, 31, 30, 31, 30, 31)
_STRICT = re.compile(r"([0-9]{4})-([0-9]{2})-([0-9]{2})T([0-9]{2}):([0-9]{2}):([0-9]{2})(\.[0-9]+)?(Z|[+-][0-9]{2}:[0-9]{2})\Z")
_LONGYEAR = re.compile(r"[0-9]{5,}-([0-9]{2})-([0-9]{2})T([0-9]{2}):([0-9]{2}):([0-9]{2})(\.[0-9]+)?(Z|[+-][0-9]{2}:[0-9]{2})\Z")


def is_leap(y):
    return y % 4 == 0 and (y % 100 != 0 or y % 400 == 0)


def days_in_month(y, m):
    return 29 if (m == 2 and is_leap(y)) else _MDAYS[m - 1]


def days_from_civil(y, m, d):
    """Days since 0001-01-01 in the proleptic Gregorian calendar (counting, no tricks)."""
    y1 = y - 1
    days = y1 * 365 + y1 // 4 - y1 // 100 + y1 // 400
    for mm in range(1, m):
        days += days_in_month(y, mm)
    return days + d - 1


SEC_MIN = 0
SEC_MAX = days_from_civil(9999, 12, 31) * 86400 + 86399


def instant(y, m, d, H, M, S, offmin=0):
    """Seconds since 0001-01-01T00:00:00Z of a civil time written with a UTC offset in minutes."""
    return days_from_civil(y, m, d) * 86400 + H * 3600 + M * 60 + S - offmin * 60


def fmt_offset(offmin):
    if offmin == 0:
        return "Z"
    a = abs(offmin)
    return "%s%02d:%02d" % ("-" if offmin < 0 else "+", a // 60, a % 60)


def fmt(y, m, d, H, M, S, offmin=0):
    return "%04d-%02d-%02dT%02d:%02d:%02d%s" % (y, m, d, H, M, S, fmt_offset(offmin))


def parse_timestamp(s):
    """-> microseconds since 0001-01-01T00:00:00Z | ERR | UNSPEC."""
    if not any(c in "0123456789" for c in s):
        return ERR  # no digit at all: no reading as a date
    if _LONGYEAR.match(s):
        return ERR  # beyond year 9999: not in the grammar, and not representable either
    m = _STRICT.match(s)
    if not m:
        return UNSPEC
    y, mo, d, H, M, S = (int(m.group(i)) for i in range(1, 7))
    frac, off = m.group(7), m.group(8)
    if off == "Z":
        offmin = 0
    else:
        oh, om = int(off[1:3]), int(off[4:6])
        if oh > 23:
            return ERR
        if om > 59:
            return UNSPEC  # a lenient reading ("-00:60" = -01:00) is not what "unparsable text" rules on
        offmin = (oh * 60 + om) * (-1 if off[0] == "-" else 1)
    if y == 0 or not 1 <= mo <= 12 or not 1 <= d <= days_in_month(max(y, 1), min(max(mo, 1), 12)) or H > 23 or M > 59 or S > 60:
        return ERR
    if S == 60:
        return UNSPEC  # leap second
    sec = instant(y, mo, d, H, M, S, offmin)
    if not SEC_MIN <= sec <= SEC_MAX:
        return ERR  # the instant leaves years 0001..9999 through its offset: the result does not fit the target type
    us = 0
    if frac:
        digits = frac[1:]
        if len(digits) > 6 and digits[6:].strip("0"):
            return UNSPEC  # finer than a microsecond
        us = int((digits + "000000")[:6])
    return sec * 1000000 + us


_UNITS = {"ns": Fraction(1, 10 ** 9), "us": Fraction(1, 10 ** 6), "ms": Fraction(1, 1000), "s": Fraction(1), "m": Fraction(60), "h": Fraction(3600)}
_DUR = re.compile(r"(-?)((?:[0-9]+(?:\.[0-9]+)?[a-z]+)+)\Z")
_COMP = re.compile(r"([0-9]+)(?:\.([0-9]+))?([a-z]+)")
_LOOSE_DUR = re.compile(r"[-+]?(?:[0-9]*(?:\.[0-9]*)?[a-z]+)+\Z")


def parse_duration(s):
    """-> Fraction seconds | ERR | UNSPEC.  Grammar: -?(digits[.digits] unit)+, unit in ns us ms s m h."""
    if any(ord(c) > 127 for c in s) or "_" in s or (s != s.strip() and s.strip()) or s.startswith("+") or s in ("0", "-0"):
        return UNSPEC
    m = _DUR.match(s)
    if not m:
        # a bare number, a missing number or junk is no duration; shapes such as ".5s" / "5.s" are not ruled on
        units = re.findall(r"[a-z]+", s)
        if _LOOSE_DUR.match(s) and re.search(r"[0-9]", s) and all(u in _UNITS or u == "d" for u in units):
            return UNSPEC
        return ERR
    total = Fraction(0)
    for ip, fp, unit in _COMP.findall(m.group(2)):
        if unit == "d":
            return UNSPEC
        if unit not in _UNITS:
            return ERR
        total += Fraction(int(ip + fp), 10 ** len(fp)) * _UNITS[unit]
    if m.group(1):
        total = -total
    return total if abs(total) <= DUR_MAX else ERR


def selftest():
    assert days_from_civil(1, 1, 1) == 0 and days_from_civil(1, 12, 31) == 364 and days_from_civil(2, 1, 1) == 365
    assert days_from_civil(1970, 1, 1) == 719162 and days_from_civil(2000, 3, 1) - days_from_civil(2000, 2, 28) == 2
    assert days_from_civil(1900, 3, 1) - days_from_civil(1900, 2, 28) == 1 and days_from_civil(9999, 12, 31) == 3652058
    # day count is consecutive over every day of years 1..2500 and the 400-year cycle is 146097 days
    n = 0
    for y in range(1, 2501):
        for mo in range(1, 13):
            assert days_from_civil(y, mo, 1) == n
            n += days_in_month(y, mo)
    assert days_from_civil(401, 1, 1) == 146097 and days_from_civil(9601, 1, 1) == 146097 * 24
    unix = days_from_civil(1970, 1, 1) * 86400
    assert parse_timestamp("2009-02-13T23:31:30Z") == (unix + 1234567890) * 10 ** 6
    assert parse_timestamp("2004-09-16T23:59:59Z") == (unix + 1095379199) * 10 ** 6
    assert parse_timestamp("0001-01-01T00:00:00Z") == 0 and parse_timestamp("9999-12-31T23:59:59Z") == SEC_MAX * 10 ** 6
    assert parse_timestamp("2000-02-29T00:00:00+05:30") == parse_timestamp("2000-02-28T18:30:00Z")
    assert parse_timestamp("2000-02-29T00:00:00-14:00") == parse_timestamp("2000-02-29T14:00:00Z")
    assert parse_timestamp("2009-02-13T23:31:30.5Z") == (unix + 1234567890) * 10 ** 6 + 500000
    for s in ("", "abc", "T", "2020-13-01T00:00:00Z", "2020-02-30T00:00:00Z", "2021-02-29T00:00:00Z", "1900-02-29T00:00:00Z",
              "2020-01-01T24:00:00Z", "2020-01-01T00:60:00Z", "2020-01-01T00:00:61Z", "0000-01-01T00:00:00Z",
              "10000-01-01T00:00:00Z", "2020-00-10T00:00:00Z", "2020-01-00T00:00:00Z", "2020-01-01T00:00:00+24:00"):
        assert parse_timestamp(s) == ERR, s
    for s in ("1-01-01T00:00:00Z", "2000-02-29", "2000-02-29T00:00:00", "20000229T000000Z", "2000-02-29 00:00:00Z", "2000-02-29t00:00:00z",
              "2000-02-29T00:00:00+0530", " 2000-02-29T00:00:00Z", "2016-12-31T23:59:60Z"):
        assert parse_timestamp(s) == UNSPEC, s
    for s in ("0001-01-01T00:00:00+05:30", "9999-12-31T23:59:59-00:01"):
        assert parse_timestamp(s) == ERR, s
    assert fmt(1, 1, 1, 0, 0, 0) == "0001-01-01T00:00:00Z" and fmt(2000, 2, 29, 1, 2, 3, -330) == "2000-02-29T01:02:03-05:30"
    assert fmt(999, 12, 31, 23, 59, 59, 840) == "0999-12-31T23:59:59+14:00"
    assert parse_duration("0s") == 0 and parse_duration("-1s") == -1 and parse_duration("1000000s") == 10 ** 6
    assert parse_duration("1h1m1s") == 3661 and parse_duration("1.5h") == 5400 and parse_duration("300ms") == Fraction(3, 10)
    assert parse_duration("315576000000s") == DUR_MAX and parse_duration("-315576000000s") == -DUR_MAX
    for s in ("", "1x", "1", "s", "--1s", "abc", "1ss", "1e3s", "1S", "-", "1.5", "320000000000s", "-320000000000s", "315576000001s", "87660001h", "1s1", "1 s"):
        assert parse_duration(s) == ERR, s
    for s in (" 1s", "1s ", "1_0s", "+1s", "1d", "١s", "1µs", ".5s", "5.s", "0", "1h.5m"):
        assert parse_duration(s) == UNSPEC, s


if __name__ == "__main__":
    selftest()
    print("timetext ok")
