"""Reference equality / ordering of plain CEL values, and the coherence laws on a relation matrix.

Values are tagged tuples, independent of the library under test:

    ("int", n) ("uint", n) ("double", float) ("bool", b) ("string", str) ("bytes", bytes)
    ("timestamp", microseconds since 0001-01-01T00:00:00Z)   -- an *instant*, see instant()
    ("duration", microseconds)  ("null", None)
    ("list", (value, ...))  ("map", ((key value, value), ...))   -- map item order is irrelevant

equal() / order() / relation() answer only what property C08 states: same-type values, doubles
without NaN, lists position-wise, maps by key set and values, strings by code point, timestamps
by instant.  Anything that needs a comparison of two values of different CEL types (also inside
containers) or of a NaN is UNSPEC.  Ordering of list / map / null values is UNSPEC.
"""
import math
from fractions import Fraction

from . import UNSPEC

ORDERED = ("int", "uint", "double", "string", "bytes", "bool", "timestamp", "duration")
OPS = ("==", "!=", "<", "<=", ">", ">=")
EQ_OPS = ("==", "!=")
US = 1000000


# -- instants --------------------------------------------------------------------------------
def days_from_civil(y, m, d):
    """Days since 0001-01-01 in the proleptic Gregorian calendar (0001-01-01 -> 0)."""
    y -= m <= 2
    era = y // 400
    yoe = y - era * 400
    mp = (m + 9) % 12
    doy = (153 * mp + 2) // 5 + d - 1
    doe = yoe * 365 + yoe // 4 - yoe // 100 + doy
    return era * 146097 + doe - 306


def instant(y, m, d, hh, mm, ss, us, offmin):
    """Microseconds since 0001-01-01T00:00:00Z of the civil time y-m-d hh:mm:ss.us written in a
    zone offmin minutes east of UTC."""
    local = ((days_from_civil(y, m, d) * 24 + hh) * 60 + mm) * 60 + ss
    return (local - offmin * 60) * US + us


# -- scalar order keys ------------------------------------------------------------------------
def _cmp(a, b):
    return -1 if a < b else (1 if a > b else 0)


def _dcmp(a, b):
    """IEEE order of two non-NaN binary64 values, through exact rationals (-0.0 == 0.0)."""
    if math.isinf(a) or math.isinf(b):
        ka = (1 if a > 0 else -1) if math.isinf(a) else 0
        kb = (1 if b > 0 else -1) if math.isinf(b) else 0
        return _cmp(ka, kb)
    return _cmp(Fraction(a), Fraction(b))


def _scalar_cmp(tag, a, b):
    if tag == "double":
        if a != a or b != b:
            return UNSPEC
        return _dcmp(a, b)
    if tag == "string":
        return _cmp([ord(c) for c in a], [ord(c) for c in b])  # code points, no normalisation
    if tag == "bytes":
        return _cmp(list(a), list(b))
    if tag == "bool":
        return _cmp(int(a), int(b))
    if tag in ("int", "uint", "timestamp", "duration"):
        return _cmp(a, b)
    raise ValueError(tag)


# -- same-type judgement -----------------------------------------------------------------------
def compatible(a, b):
    """True iff deciding a == b never needs two values of different CEL types: same tag, list
    elements compatible along the common prefix, map keys of one type, values compatible under
    common keys."""
    if a[0] != b[0]:
        return False
    if a[0] == "list":
        return all(compatible(x, y) for x, y in zip(a[1], b[1]))
    if a[0] == "map":
        ktags = {k[0] for k, _ in a[1]} | {k[0] for k, _ in b[1]}
        if len(ktags) > 1:
            return False
        db = dict(b[1])
        return all(compatible(v, db[k]) for k, v in a[1] if k in db)
    return True


def has_nan(v):
    if v[0] == "double":
        return v[1] != v[1]
    if v[0] == "list":
        return any(has_nan(x) for x in v[1])
    if v[0] == "map":
        return any(has_nan(x) for _, x in v[1])
    return False


def equal(a, b):
    """True / False / UNSPEC."""
    if not compatible(a, b) or has_nan(a) or has_nan(b):
        return UNSPEC
    return _eq(a, b)


def _eq(a, b):
    tag = a[0]
    if tag == "null":
        return True
    if tag == "list":
        if len(a[1]) != len(b[1]):
            return False
        return all(_eq(x, y) for x, y in zip(a[1], b[1]))
    if tag == "map":
        da, db = dict(a[1]), dict(b[1])
        if len(da) != len(a[1]) or len(db) != len(b[1]):
            raise ValueError("duplicate map key in a reference value")
        if set(da) != set(db):  # keys are int / string scalars: tuple identity is key equality
            return False
        return all(_eq(da[k], db[k]) for k in da)
    return _scalar_cmp(tag, a[1], b[1]) == 0


def order(a, b):
    """-1 / 0 / 1 for two values of one ordered type, else UNSPEC."""
    if a[0] != b[0] or a[0] not in ORDERED:
        return UNSPEC
    return _scalar_cmp(a[0], a[1], b[1])


def relation(op, a, b):
    """Expected truth value of `a op b`, or UNSPEC."""
    if op in EQ_OPS:
        e = equal(a, b)
        if e is UNSPEC:
            return UNSPEC
        return e if op == "==" else not e
    c = order(a, b)
    if c is UNSPEC:
        return UNSPEC
    return {"<": c < 0, "<=": c <= 0, ">": c > 0, ">=": c >= 0}[op]


def rel_class(a, b):
    """lt / eq / gt for ordered types, eq / ne otherwise, unspec."""
    c = order(a, b)
    if c is not UNSPEC:
        return ("lt", "eq", "gt")[c + 1]
    e = equal(a, b)
    if e is UNSPEC:
        return "unspec"
    return "eq" if e else "ne"


# -- laws on a matrix ---------------------------------------------------------------------------
def check_laws(n, cells, ordered, limit=20):
    """cells[op][i][j] in {True, False, None}; None = not to be judged (outside the property, or
    not a bool: reported elsewhere).  Returns (violations, instances) where violations is a list
    of (law, indices) -- at most `limit` per law, lowest indices first -- and instances counts
    the law instances whose premises were all judged.  Transitivity covers *every* triple: for
    each judged pair (a, b) with a R b the whole row of b is compared with the row of a as a
    bit set, which is the same predicate as the triple loop."""
    out, inst = [], {}

    def add(law, idx):
        if sum(1 for v in out if v[0] == law) < limit:
            out.append((law, idx))

    def bump(law, k=1):
        inst[law] = inst.get(law, 0) + k

    eq, ne = cells["=="], cells["!="]
    for i in range(n):
        if eq[i][i] is not None:
            bump("reflexive")
            if eq[i][i] is not True:
                add("reflexive", (i,))
        for j in range(n):
            if eq[i][j] is not None and eq[j][i] is not None and i < j:
                bump("symmetric")
                if eq[i][j] != eq[j][i]:
                    add("symmetric", (i, j))
            if eq[i][j] is not None and ne[i][j] is not None:
                bump("negation")
                if ne[i][j] == eq[i][j]:
                    add("negation", (i, j))
    rels = [("==", "trans-eq")]
    if ordered:
        lt, le, gt = cells["<"], cells["<="], cells[">"]
        for i in range(n):
            for j in range(n):
                if lt[i][j] is not None and eq[i][j] is not None and gt[i][j] is not None:
                    bump("trichotomy")
                    if [lt[i][j], eq[i][j], gt[i][j]].count(True) != 1:
                        add("trichotomy", (i, j))
                if lt[i][j] is not None and gt[j][i] is not None:
                    bump("converse")
                    if lt[i][j] != gt[j][i]:
                        add("converse", (i, j))
                if le[i][j] is not None and lt[i][j] is not None and eq[i][j] is not None:
                    bump("le-def")
                    if le[i][j] != (lt[i][j] or eq[i][j]):
                        add("le-def", (i, j))
        rels.append(("<", "trans-lt"))
    for op, law in rels:
        m = cells[op]
        true = [sum(1 << j for j in range(n) if m[i][j] is True) for i in range(n)]
        judged = [sum(1 << j for j in range(n) if m[i][j] is not None) for i in range(n)]
        for a in range(n):
            for b in range(n):
                if m[a][b] is None:
                    continue
                both = judged[a] & judged[b]  # c with (a, c) and (b, c) judged
                bump(law, bin(both).count("1"))
                if m[a][b] is True:
                    bad = true[b] & both & ~true[a]  # a R b, b R c, not a R c
                    while bad:
                        c = (bad & -bad).bit_length() - 1
                        add(law, (a, b, c))
                        bad &= bad - 1
                        if sum(1 for v in out if v[0] == law) >= limit:
                            break
    return out, inst


def matrix(values, ops):
    """The reference's own relation matrix (None where UNSPEC)."""
    n = len(values)
    cells = {}
    for op in ops:
        rows = []
        for i in range(n):
            row = []
            for j in range(n):
                r = relation(op, values[i], values[j])
                row.append(None if r is UNSPEC else r)
            rows.append(row)
        cells[op] = rows
    return cells


def selftest():
    import datetime

    # calendar against the stdlib
    for y, m, d in ((1, 1, 1), (1, 12, 31), (1600, 2, 29), (1900, 3, 1), (1970, 1, 1), (2000, 2, 29), (2024, 3, 1), (9999, 12, 31)):
        assert days_from_civil(y, m, d) == datetime.date(y, m, d).toordinal() - 1, (y, m, d)
    assert instant(1970, 1, 1, 0, 0, 0, 0, 0) == 62135596800 * US
    assert instant(1970, 1, 1, 14, 0, 0, 0, 14 * 60) == instant(1969, 12, 31, 10, 0, 0, 0, -14 * 60) == instant(1970, 1, 1, 0, 0, 0, 0, 0)
    assert instant(2009, 2, 13, 23, 31, 30, 5, 0) - instant(1970, 1, 1, 0, 0, 0, 0, 0) == 1234567890 * US + 5
    # scalars
    s = lambda x: ("string", x)  # noqa: E731
    assert relation("<", s("\uffff"), s("\U0001F600")) is True  # UTF-16 code units would say False
    assert relation("==", s("\u00e9"), s("e\u0301")) is False and relation("<", s("e\u0301"), s("\u00e9")) is True
    assert relation("<", s(""), s("a")) is True and relation("<", s("a"), s("aa")) is True and relation("<", s("ab"), s("b")) is True
    d = lambda x: ("double", x)  # noqa: E731
    assert relation("==", d(-0.0), d(0.0)) is True and relation("<", d(-0.0), d(0.0)) is False
    assert relation("<", d(2.0 ** 53), d(2.0 ** 53 + 2)) is True and relation("<", d(-math.inf), d(-1e308)) is True
    assert relation("<", d(-5e-324), d(-0.0)) is True and relation(">=", d(math.inf), d(math.inf)) is True
    assert relation("==", d(math.nan), d(math.nan)) is UNSPEC and relation("<", d(1.0), d(math.nan)) is UNSPEC
    assert relation("<", ("int", 2 ** 53), ("int", 2 ** 53 + 1)) is True
    assert relation("<", ("bytes", b"\x7f"), ("bytes", b"\x80")) is True and relation("<", ("bytes", b"a"), ("bytes", b"a\x00")) is True
    assert relation("<", ("bool", False), ("bool", True)) is True and relation(">", ("bool", False), ("bool", True)) is False
    assert relation("==", ("null", None), ("null", None)) is True and relation("<", ("null", None), ("null", None)) is UNSPEC
    assert relation("==", ("int", 1), ("uint", 1)) is UNSPEC and relation("<", ("int", 1), ("double", 2.0)) is UNSPEC
    # containers
    i = lambda *xs: ("list", tuple(("int", x) for x in xs))  # noqa: E731
    assert equal(i(), i()) is True and equal(i(1), i(1, 1)) is False and equal(i(1, 2), i(1, 2)) is True and equal(i(1, 2), i(2, 1)) is False
    assert relation("<", i(1), i(2)) is UNSPEC
    nested = ("list", (i(), i(1)))
    assert equal(nested, ("list", (i(), i(1)))) is True and equal(nested, ("list", (i(), i()))) is False
    assert equal(i(1), ("list", (i(1),))) is UNSPEC and equal(i(), ("list", (i(1),))) is False
    assert equal(("list", (d(math.nan),)), ("list", (d(math.nan),))) is UNSPEC
    mp = lambda *kv: ("map", tuple(kv))  # noqa: E731
    ka, kb = ("string", "a"), ("string", "b")
    assert equal(mp((ka, ("int", 1)), (kb, ("int", 2))), mp((kb, ("int", 2)), (ka, ("int", 1)))) is True
    assert equal(mp((ka, ("int", 1))), mp((kb, ("int", 1)))) is False and equal(mp(), mp((ka, ("int", 1)))) is False
    assert equal(mp((ka, ("int", 1))), mp((ka, i(1)))) is UNSPEC  # int against list
    assert equal(mp((ka, ("int", 1))), mp((("int", 1), ("int", 1)))) is UNSPEC  # string keys against int keys
    assert equal(mp((ka, ("int", 1)), (kb, i(1))), mp((ka, ("int", 1)), (kb, i(1)))) is True
    assert equal(mp((ka, ("int", 1))), mp((ka, ("int", 1)), (kb, i(1)))) is False
    # the reference satisfies the laws it is used to check, and the law checker sees breakage
    vals = [d(x) for x in (-math.inf, -1.5, -0.0, 0.0, 5e-324, 2.0 ** 53, math.inf, math.nan)]
    cells = matrix(vals, OPS)
    bad, inst = check_laws(len(vals), cells, True)
    assert bad == [] and inst["trans-lt"] == 7 * 7 * 7 and inst["reflexive"] == 7, (bad, inst)
    cells["<="] = cells["<"]
    assert {v[0] for v in check_laws(len(vals), cells, True)[0]} == {"le-def"}
    cells = matrix(vals, OPS)
    cells["<"][1][3] = False  # -1.5 < 0.0 denied: trichotomy, converse, le-def, transitivity (-1.5 < -5e-324? no: via -inf)
    laws = {v[0] for v in check_laws(len(vals), cells, True)[0]}
    assert {"trichotomy", "converse", "le-def"} <= laws, laws
    cells = matrix(vals, OPS)
    cells["<"][4][1] = True  # 5e-324 < -1.5 claimed: a cycle, so transitivity must fail somewhere
    assert "trans-lt" in {v[0] for v in check_laws(len(vals), cells, True)[0]}
    lists = [i(), i(1), i(1, 1), i(1, 2), i(2)]
    cells = matrix(lists, EQ_OPS)
    assert check_laws(len(lists), cells, False)[0] == []
    for a, b in ((1, 2), (1, 3)):  # zip without the length test: [1] == [1, 1] and [1] == [1, 2]
        cells["=="][a][b] = cells["=="][b][a] = True
    assert "trans-eq" in {v[0] for v in check_laws(len(lists), cells, False)[0]}


if __name__ == "__main__":
    selftest()
    print("cmpref ok")
