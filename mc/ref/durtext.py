"""Duration text grammar -> exact seconds (reference model for C11).

    text      := [ '+' | '-' ] component { component }
    component := number unit
    number    := digit+ [ '.' digit* ] | '.' digit+
    unit      := 'h' | 'm' | 's' | 'ms' | 'us' | 'ns'        (maximal run of letters)

``duration("XhYmZs")`` denotes X*3600 + Y*60 + Z seconds; the value is computed in exact
rationals (fractions.Fraction), never in floating point.  Texts outside this grammar (other
units such as "d" or "µs", a bare "0", spaces ...) are not described by the property:
``parse`` returns None for them and the oracle returns UNSPEC.
"""
from fractions import Fraction

from . import UNSPEC

ERR = "ERR"
UNITS = ("h", "m", "s", "ms", "us", "ns")
SCALE = {
    "h": Fraction(3600),
    "m": Fraction(60),
    "s": Fraction(1),
    "ms": Fraction(1, 1000),
    "us": Fraction(1, 1000000),
    "ns": Fraction(1, 1000000000),
}
MAX_S = 315576000000
_DIGITS = "0123456789"
_LETTERS = "abcdefghijklmnopqrstuvwxyz"


def _number(text, i):
    """Parse number at text[i:]; return (Fraction, next index) or None."""
    j = i
    while j < len(text) and text[j] in _DIGITS:
        j += 1
    ip = text[i:j]
    fp = ""
    if j < len(text) and text[j] == ".":
        k = j + 1
        while k < len(text) and text[k] in _DIGITS:
            k += 1
        fp = text[j + 1:k]
        j = k
    if not ip and not fp:
        return None
    v = Fraction(int(ip or "0"))
    if fp:
        v += Fraction(int(fp), 10 ** len(fp))
    return v, j


def parse(text):
    """Exact value in seconds (Fraction) of a text of the grammar, else None."""
    i = 0
    sign = 1
    if text[:1] in ("+", "-"):
        sign = -1 if text[0] == "-" else 1
        i = 1
    if i >= len(text):
        return None
    total = Fraction(0)
    while i < len(text):
        r = _number(text, i)
        if r is None:
            return None
        v, i = r
        j = i
        while j < len(text) and text[j] in _LETTERS:
            j += 1
        unit = text[i:j]
        if unit not in SCALE:
            return None
        total += v * SCALE[unit]
        i = j
    return sign * total


def oracle(text):
    """Expected result of duration(text): integer microseconds, ERR (outside +-315 576 000 000 s),
    or UNSPEC (not in the grammar, or not a whole number of microseconds)."""
    v = parse(text)
    if v is None:
        return UNSPEC
    if abs(v) > MAX_S:
        return ERR
    us = v * 1000000
    if us.denominator != 1:
        return UNSPEC
    return int(us)


# ---- enumeration of the bounded text space ---------------------------------------------------------

VALUES = ("0", "1", "59", "90", "1.5", ".5")
NS_VALUES = ("0", "1000", "59000", "90000", "1500000", "500000")     # whole microseconds only
US_VALUES = ("0", "1", "59", "90")                               # whole microseconds only
SIGNS = ("", "+", "-")


def unit_values(unit):
    return NS_VALUES if unit == "ns" else US_VALUES if unit == "us" else VALUES


def components():
    """All number+unit components of the bounded alphabet, in unit order h, m, s, ms, us, ns."""
    return [(v + u, u) for u in UNITS for v in unit_values(u)]


def sequences(k, descending_only=False):
    """Every sequence of exactly k components (any unit order, repetition allowed), or only
    those whose units strictly descend h > m > s > ms > us > ns."""
    comps = components()
    rank = {u: i for i, u in enumerate(UNITS)}

    def rec(prefix, last_rank, n):
        if n == 0:
            yield "".join(prefix)
            return
        for text, u in comps:
            if descending_only and rank[u] <= last_rank:
                continue
            prefix.append(text)
            yield from rec(prefix, rank[u], n - 1)
            prefix.pop()

    yield from rec([], -1, k)


def selftest():
    F = Fraction
    assert parse("1h") == 3600 and parse("1.5h") == 5400 and parse(".5s") == F(1, 2) and parse("1.s") == 1
    assert parse("2h45m") == 9900 and parse("-2m30s") == -150 and parse("+2m30s") == 150
    assert parse("300ms") == F(3, 10) and parse("2ms") == F(2, 1000) and parse("1us") == F(1, 10 ** 6) and parse("1ns") == F(1, 10 ** 9)
    assert parse("1m1h") == 3660 and parse("1s1s") == 2 and parse("1h1m1s") == 3661
    assert parse("1ms1m") == F(60001, 1000)          # 'ms' is one unit, not m followed by s
    for bad in ("", "+", "-", "1", "s", ".s", "1d", "1µs", "1 s", "1hours", "15sec", "300msec", "2m30sx", "-2w30z", "not:a:duration", "1h-1m", "1e3s", "0"):
        assert parse(bad) is None, bad
    assert oracle("315576000000s") == 315576000000 * 10 ** 6 and oracle("315576000001s") == ERR
    assert oracle("-315576000000s") == -315576000000 * 10 ** 6 and oracle("-315576000001s") == ERR
    assert oracle("315576000000s1us") == ERR and oracle("315575999999.999999s") == 315576000000 * 10 ** 6 - 1
    assert oracle("320000000000s") == ERR and oracle("-320000000000s") == ERR and oracle("87660000h") == 315576000000 * 10 ** 6
    assert oracle("1ns") is UNSPEC and oracle("1.5us") is UNSPEC and oracle("1000ns") == 1 and oracle("1d") is UNSPEC
    assert oracle("-1.5ms") == -1500 and oracle("+90us") == 90 and oracle("59.999999s") == 59999999
    # pinned in /repo/tests/test_celtypes.py and features/timestamps.feature
    assert oracle("43200s") == 43200 * 10 ** 6 and oracle("8454s") == 8454 * 10 ** 6 and oracle("30s") == 30 * 10 ** 6
    assert oracle("1000000s") == 10 ** 12 and oracle("-999999999ns") is UNSPEC
    # the enumeration: counts against closed forms
    n_comp = len(components())
    assert n_comp == 4 * len(VALUES) + len(US_VALUES) + len(NS_VALUES) == 34
    assert sum(1 for _ in sequences(1)) == 34 and sum(1 for _ in sequences(2)) == 34 ** 2
    assert sum(1 for _ in sequences(2, True)) == (34 ** 2 - (4 * 36 + 16 + 36)) // 2
    assert len(set(sequences(2))) == 34 ** 2
    for t in list(sequences(1)) + list(sequences(2, True)) + list(sequences(3, True)):
        for s in SIGNS:
            assert isinstance(oracle(s + t), int), s + t
    return True


if __name__ == "__main__":
    selftest()
    print("durtext ok")
