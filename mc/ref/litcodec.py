"""CEL literal codec (reference model of C07), independent of the library.

Language definition used (cel-spec, doc/langdef.md, "Syntax" and "String and Bytes Values"):

    STRING_LIT ::= [rR]? ( "  ~( " | NEWLINE )* "  |  '  ~( ' | NEWLINE )* '
                         | \"\"\" ~\"\"\"* \"\"\"  |  ''' ~'''* ''' )        (closing delimiter: first one found)
    BYTES_LIT  ::= [bB] STRING_LIT
    ESCAPE     ::= \\ [abfnrtv\\?"'`] | \\ x HEXDIGIT{2} | \\ u HEXDIGIT{4} | \\ U HEXDIGIT{8}
                 | \\ [0-3][0-7][0-7]
    NEWLINE    ::= \\r\\n | \\r | \\n
    INT_LIT    ::= -? DIGIT+ | -? 0x HEXDIGIT+        UINT_LIT ::= INT_LIT [uU]
    FLOAT_LIT  ::= -? DIGIT* . DIGIT+ EXPONENT? | -? DIGIT+ EXPONENT      EXPONENT ::= [eE] [+-]? DIGIT+

* a backslash in a cooked literal must start one of the escapes; anything else is not CEL;
* \\xHH and \\ooo denote a code point in a string and an octet in a bytes literal; \\u / \\U are
  valid in string literals only; an unescaped character of a bytes literal denotes its UTF-8 octets;
* raw literals: the backslash is an ordinary character.

``decode`` returns a ``Lit`` or ``UNSPEC``.  UNSPEC covers (a) text that is not a legal CEL literal
("illegal:..."), and (b) legal text on which the statement of C07 is silent ("silent:...": the escapes
\\? \\` \\X, surrogate or > U+10FFFF code points, \\u in bytes).  The statement lists exactly
\\a \\b \\f \\n \\r \\t \\v \\\\ \\" \\' \\xHH \\uHHHH \\UHHHHHHHH \\ooo.
"""
import struct
from fractions import Fraction

from . import UNSPEC

NAMED = {"a": 7, "b": 8, "f": 12, "n": 10, "r": 13, "t": 9, "v": 11, "\\": 0x5C, '"': 0x22, "'": 0x27}
NAMED_BY_CODE = {v: "\\" + k for k, v in NAMED.items()}
SILENT_PUNCT = "?`"
HEX = "0123456789abcdefABCDEF"
QUOTES = ('"', "'", '"""', "'''")
STYLES = [(q, raw) for raw in (False, True) for q in QUOTES]
STR_STRATEGIES = ("minimal", "hex", "hexx", "octal", "named")
BYTES_STRATEGIES = ("minimal", "hex", "octal", "named")
I_MIN, I_MAX, U_MAX = -(2 ** 63), 2 ** 63 - 1, 2 ** 64 - 1


class Unit:
    """One source unit of a literal body: its class, its source text, what it denotes."""
    __slots__ = ("cls", "text", "out")

    def __init__(self, cls, text, out):
        self.cls, self.text, self.out = cls, text, out  # out: str (string literal) or bytes (bytes literal)


class Lit:
    __slots__ = ("kind", "raw", "quote", "value", "units")

    def __init__(self, kind, raw, quote, units):
        self.kind, self.raw, self.quote, self.units = kind, raw, quote, units
        self.value = (b"" if kind == "bytes" else "").join(u.out for u in units)

    def owners(self):
        """index of the unit that produced each output element (code point / octet)."""
        own = []
        for i, u in enumerate(self.units):
            own.extend([i] * len(u.out))
        return own


def char_class(c, q):
    o = ord(c)
    if c == q[0]:
        return "char:quote"
    if c in "\"'":
        return "char:otherquote"
    if c == "\\":
        return "char:backslash"
    if c == "\n":
        return "char:LF"
    if c == "\r":
        return "char:CR"
    if c == "\t":
        return "char:TAB"
    if o == 0:
        return "char:NUL"
    if o < 0x80:
        return "char:ascii"
    return "char:nonascii"


def _hexrun(s, i, n):
    run = s[i:i + n]
    return run if len(run) == n and all(c in HEX for c in run) else None


def decode_why(text):
    """(Lit | UNSPEC, reason).  ``text`` is the complete literal: prefix, delimiters, body."""
    i = 0
    kind, raw = "string", False
    if text[:1] in ("b", "B"):
        kind, i = "bytes", 1
    if text[i:i + 1] in ("r", "R"):
        raw, i = True, i + 1
    if text[i:i + 3] in ('"""', "'''"):
        q = text[i:i + 3]
    elif text[i:i + 1] in ('"', "'"):
        q = text[i]
    else:
        return UNSPEC, "illegal:no-delimiter"
    i += len(q)
    triple = len(q) == 3
    units = []
    n = len(text)
    silent = None
    while True:
        if i >= n:
            return UNSPEC, "illegal:unterminated"
        if text.startswith(q, i):
            i += len(q)
            break
        c = text[i]
        if not triple and c in "\r\n":
            return UNSPEC, "illegal:newline-in-single-line"
        if c != "\\" or raw:
            if 0xD800 <= ord(c) <= 0xDFFF:
                return UNSPEC, "illegal:surrogate-in-source"
            units.append(Unit(char_class(c, q), c, c.encode("utf-8") if kind == "bytes" else c))
            i += 1
            continue
        e = text[i + 1:i + 2]
        if e == "":
            return UNSPEC, "illegal:unterminated"
        if e in NAMED:
            code, width, cls = NAMED[e], 2, "esc:named:" + e
        elif e in SILENT_PUNCT:
            code, width, cls = ord(e), 2, "esc:silent"
            silent = silent or "silent:escape-" + e
        elif e in ("x", "X"):
            h = _hexrun(text, i + 2, 2)
            if h is None:
                return UNSPEC, "illegal:bad-x-escape"
            code, width, cls = int(h, 16), 4, "esc:x"
            if e == "X":
                silent = silent or "silent:escape-X"
        elif e == "u":
            h = _hexrun(text, i + 2, 4)
            if h is None:
                return UNSPEC, "illegal:bad-u-escape"
            code, width, cls = int(h, 16), 6, "esc:u"
        elif e == "U":
            h = _hexrun(text, i + 2, 8)
            if h is None:
                return UNSPEC, "illegal:bad-U-escape"
            code, width, cls = int(h, 16), 10, "esc:U"
        elif e in "0123":
            o = text[i + 1:i + 4]
            if len(o) != 3 or any(d not in "01234567" for d in o):
                return UNSPEC, "illegal:bad-octal-escape"
            code, width, cls = int(o, 8), 4, "esc:octal"
        else:
            return UNSPEC, "illegal:unknown-escape"
        if cls in ("esc:u", "esc:U"):
            if kind == "bytes":
                silent = silent or "silent:unicode-escape-in-bytes"
                code = 0
            elif 0xD800 <= code <= 0xDFFF:
                silent = silent or "silent:surrogate-escape"
                code = 0
            elif code > 0x10FFFF:
                silent = silent or "silent:beyond-unicode"
                code = 0
        units.append(Unit(cls, text[i:i + width], bytes([code]) if kind == "bytes" else chr(code)))
        i += width
    if i != n:
        return UNSPEC, "illegal:text-after-closing-delimiter"
    if silent:
        return UNSPEC, silent
    return Lit(kind, raw, q, units), "ok"


def decode(text):
    return decode_why(text)[0]


# ------------------------------------------------------------------------------------------ encoder
def utf8_units(b):
    """Greedy split of an octet string into ('c', char) for well-formed UTF-8 sequences (RFC 3629:
    shortest form, no surrogates, <= U+10FFFF) and ('b', octet) for everything else."""
    out, i, n = [], 0, len(b)
    while i < n:
        x = b[i]
        if x < 0x80:
            out.append(("c", chr(x)))
            i += 1
            continue
        need, lo, hi = 0, 0x80, 0xBF
        if 0xC2 <= x <= 0xDF:
            need, cp = 1, x & 0x1F
        elif 0xE0 <= x <= 0xEF:
            need, cp = 2, x & 0x0F
            lo, hi = (0xA0, 0xBF) if x == 0xE0 else ((0x80, 0x9F) if x == 0xED else (0x80, 0xBF))
        elif 0xF0 <= x <= 0xF4:
            need, cp = 3, x & 0x07
            lo, hi = (0x90, 0xBF) if x == 0xF0 else ((0x80, 0x8F) if x == 0xF4 else (0x80, 0xBF))
        ok = need > 0 and i + need < n and all(0x80 <= b[i + k] <= 0xBF for k in range(1, need + 1)) and lo <= b[i + 1] <= hi
        if ok:
            for k in range(1, need + 1):
                cp = (cp << 6) | (b[i + k] & 0x3F)
            out.append(("c", chr(cp)))
            i += need + 1
        else:
            out.append(("b", x))
            i += 1
    return out


def _quote_needs_escape(chars, idx, qc, triple):
    """In a cooked literal, must the delimiter character at chars[idx] be escaped?"""
    if not triple:
        return True
    j = idx
    while j > 0 and chars[j - 1] == ("c", qc):
        j -= 1
    pos = idx - j  # position inside its run of delimiter characters
    return pos % 3 == 2 or idx == len(chars) - 1


def raw_representable(chars, q):
    """chars: list of ('c', ch) / ('b', octet).  A raw literal spells its body verbatim."""
    if any(t == "b" for t, _ in chars):
        return False
    s = "".join(c for _, c in chars)
    if any(0xD800 <= ord(c) <= 0xDFFF for c in s):
        return False
    if len(q) == 1:
        return q not in s and "\n" not in s and "\r" not in s
    return q not in s and not s.endswith(q[0])


def encode(kind, value, quote, raw, strategy):
    """The literal text spelling ``value`` (str or bytes) in the given style, or None when the
    style cannot represent it.  Raw styles take the single strategy "raw"."""
    qc, triple = quote[0], len(quote) == 3
    chars = utf8_units(value) if kind == "bytes" else [("c", c) for c in value]
    prefix = ("b" if kind == "bytes" else "") + ("r" if raw else "")
    if raw:
        if strategy != "raw" or not raw_representable(chars, quote):
            return None
        return prefix + quote + "".join(c for _, c in chars) + quote
    body = []
    for idx, (t, c) in enumerate(chars):
        if kind == "bytes" and strategy in ("hex", "octal"):
            octets = c.encode("utf-8") if t == "c" else bytes([c])
            body.append("".join(("\\x%02X" % o) if strategy == "hex" else ("\\%03o" % o) for o in octets))
            continue
        if t == "b":
            body.append("\\x%02x" % c)
            continue
        o = ord(c)
        if strategy == "hex":
            body.append("\\u%04X" % o if o <= 0xFFFF else "\\U%08X" % o)
        elif strategy == "hexx":
            body.append("\\x%02x" % o if o <= 0xFF else "\\U%08x" % o)
        elif strategy == "octal":
            body.append("\\%03o" % o if o <= 0xFF else ("\\u%04x" % o if o <= 0xFFFF else "\\U%08x" % o))
        elif strategy == "named":
            body.append(NAMED_BY_CODE.get(o, c))
        elif strategy == "minimal":
            if c == "\\":
                body.append("\\\\")
            elif c == qc:
                body.append("\\" + c if _quote_needs_escape(chars, idx, qc, triple) else c)
            elif c in "\r\n" and not triple:
                body.append("\\n" if c == "\n" else "\\r")
            else:
                body.append(c)
        else:
            raise ValueError(strategy)
    return prefix + quote + "".join(body) + quote


def strategies(kind, raw):
    if raw:
        return ("raw",)
    return STR_STRATEGIES if kind == "string" else BYTES_STRATEGIES


# ------------------------------------------------------------------------------------------ numbers
def fbits(f):
    return struct.pack(">d", f).hex()


def _digits(s):
    return s != "" and all(c in "0123456789" for c in s)


def number(text):
    """Reading of a numeric literal:
    ("int", v) / ("uint", v)          the spelled number, in range
    ("range",)                         a legal integer literal outside its range: evaluation error demanded
    ("neg-uint",)                      -N u with N > 0: some error demanded (evaluation or parse)
    ("double", bits, standard)         correctly rounded binary64 of the spelled decimal; standard=False for
                                       the `5.` form (digits, dot, no digits) which langdef's FLOAT_LIT lacks
    UNSPEC                             not a numeric literal of the language / -0u / non-finite result
    """
    s = text
    neg = s.startswith("-")
    if neg:
        s = s[1:]
    uns = s[-1:] in ("u", "U")
    body = s[:-1] if uns else s
    mag = None
    if body.startswith("0x"):
        h = body[2:]
        if h != "" and all(c in HEX for c in h):
            mag = int(h, 16)
    elif _digits(body):
        mag = 0
        for c in body:  # ASCII decimal by hand, no int() text parsing conventions involved
            mag = mag * 10 + (ord(c) - 48)
    if mag is not None:
        v = -mag if neg else mag
        if uns:
            if neg:
                return UNSPEC if mag == 0 else ("neg-uint",)
            return ("uint", v) if v <= U_MAX else ("range",)
        return ("int", v) if I_MIN <= v <= I_MAX else ("range",)
    if uns:
        return UNSPEC
    # FLOAT_LIT
    mant, exp = body, 0
    for e in "eE":
        if e in body:
            mant, _, ex = body.partition(e)
            sgn = 1
            if ex[:1] in ("+", "-"):
                sgn = -1 if ex[0] == "-" else 1
                ex = ex[1:]
            if not _digits(ex):
                return UNSPEC
            exp = sgn * int(ex)
            has_exp = True
            break
    else:
        has_exp = False
    standard = True
    if "." in mant:
        ip, _, fp = mant.partition(".")
        if (ip and not _digits(ip)) or (fp and not _digits(fp)) or (not ip and not fp):
            return UNSPEC
        if not fp:
            standard = False
    else:
        if not has_exp or not _digits(mant):
            return UNSPEC
        ip, fp = mant, ""
    if abs(exp) > 4000:
        return UNSPEC
    fr = Fraction(int(ip + fp or "0"), 10 ** len(fp)) * Fraction(10) ** exp
    if fr == 0:
        f = 0.0
    else:
        try:
            f = fr.numerator / fr.denominator  # int/int true division: correctly rounded
        except OverflowError:
            return UNSPEC
        if f in (float("inf"),):
            return UNSPEC
    b = fbits(f)
    if neg:
        b = "%02x" % (int(b[:2], 16) | 0x80) + b[2:]
    return ("double", b, standard)


def float_parts(x):
    """(digits, e10) with abs(x) == int(digits) * 10**e10 as spelled by repr (shortest round-trip)."""
    r = repr(abs(x))
    mant, _, ex = r.partition("e")
    e10 = int(ex) if ex else 0
    ip, _, fp = mant.partition(".")
    digits = (ip + fp).lstrip("0") or "0"
    e10 -= len(fp)
    while len(digits) > 1 and digits.endswith("0"):
        digits, e10 = digits[:-1], e10 + 1
    return digits, e10


def double_spellings(x):
    """Deterministic list of (form name, text) spelling the finite double x exactly enough to
    round to x (all derive from repr's shortest round-trip digits)."""
    sign = "-" if struct.pack(">d", x)[0] & 0x80 else ""
    ds, e = float_parts(x)
    sci_e = e + len(ds) - 1          # d.ddd x 10^sci_e
    frac = ds[1:]
    out = [("repr", repr(abs(x)))]
    out.append(("sci-e", f"{ds[0]}.{frac or '0'}e{sci_e}"))
    out.append(("sci-E", f"{ds[0]}.{frac or '0'}E{sci_e}"))
    out.append(("sci-plus", f"{ds[0]}.{frac or '0'}e{'+' if sci_e >= 0 else ''}{sci_e}"))
    out.append(("sci-padded", f"{ds[0]}.{frac or '0'}e{'-' if sci_e < 0 else '+'}{abs(sci_e):05d}"))
    out.append(("int-exp", f"{ds}e{e}"))
    out.append(("int-Exp-padded", f"{ds}E{'-' if e < 0 else ''}{abs(e):04d}"))
    out.append(("no-leading-digit", f".{ds}e{e + len(ds)}"))
    out.append(("no-leading-digit-E+", f".{ds}E{'+' if e + len(ds) >= 0 else ''}{e + len(ds)}"))
    out.append(("leading-zeros", f"00{ds[0]}.{frac or '0'}e{sci_e}"))
    out.append(("trailing-zeros", f"{ds[0]}.{frac}000e{sci_e}"))
    out.append(("no-trailing-digit-exp", f"{ds}.e{e}"))
    if -25 <= e <= 25:
        if e >= 0:
            whole = ds + "0" * e
            out.append(("plain", whole + ".0"))
            out.append(("no-trailing-digit", whole + "."))
        else:
            k = -e
            padded = ds.rjust(k + 1, "0")
            ip, fp = padded[:-k], padded[-k:]
            out.append(("plain", f"{ip}.{fp}"))
            if ip.strip("0") == "":
                out.append(("no-leading-digit-plain", f".{fp}"))
    return [(name, sign + t) for name, t in out]


# ----------------------------------------------------------------------------------------- selftest
def selftest():
    d = decode
    assert d('"abc"').value == "abc" and d("'a\"b'").value == 'a"b' and d('""').value == ""
    assert d('"\\a\\b\\f\\n\\r\\t\\v\\\\\\"\\\'"').value == "\a\b\f\n\r\t\v\\\"'"
    assert d('"\\x41\\u00e9\\U0001F600\\101\\377\\000"').value == "Aé\U0001F600Aÿ\x00"
    assert d('b"\\x41\\377\\000é"').value == b"A\xff\x00\xc3\xa9"
    assert d('b"\U0001F600"').value == b"\xf0\x9f\x98\x80"
    assert d('r"\\n"').value == "\\n" and d('r"\\"').value == "\\" and d('br"\\x41"').value == b"\\x41"
    assert d('"""a\nb"""').value == "a\nb" and d('"""a\r\nb"""').value == "a\r\nb" and d("'''a\"\"\"b'''").value == 'a"""b'
    assert d('""""a"""').value == '"a' and d('"""a\\""""').value == 'a"' and d('""""""').value == ""
    assert d('"""a""""') is UNSPEC and d('"a\nb"') is UNSPEC and d('"a\rb"') is UNSPEC
    assert d('"\\400"') is UNSPEC and d('"\\8"') is UNSPEC and d('"\\x4"') is UNSPEC and d('"\\u123"') is UNSPEC
    assert d('"\\?"') is UNSPEC and d('"\\`"') is UNSPEC and d('"\\X41"') is UNSPEC and d('"\\ud800"') is UNSPEC
    assert d('"\\U00110000"') is UNSPEC and d('b"\\u0041"') is UNSPEC and d('"a\\"') is UNSPEC and d('"a"b"') is UNSPEC
    assert d('rb"a"') is UNSPEC and d('bR"a\\"').value == b"a\\" and d("B'''x'''").value == b"x" and d('"\\0037"').value == "\x037"
    assert decode_why('"\\?"')[1].startswith("silent") and decode_why('"\\z"')[1].startswith("illegal")
    assert [u.cls for u in d('"a\\né"').units] == ["char:ascii", "esc:named:n", "char:nonascii"]
    assert utf8_units(b"A\xc3\x80\xc3\xff\xe0\x80\x80\xed\xa0\x80\xf0\x9f\x98\x80") == [
        ("c", "A"), ("c", "À"), ("b", 0xC3), ("b", 0xFF), ("b", 0xE0), ("b", 0x80), ("b", 0x80),
        ("b", 0xED), ("b", 0xA0), ("b", 0x80), ("c", "\U0001F600")]
    assert utf8_units(b"\xc3") == [("b", 0xC3)] and utf8_units(b"\xc0\x80") == [("b", 0xC0), ("b", 0x80)]
    # stdlib cross-check of the UTF-8 splitter (stdlib is trusted data here, not the library under test)
    import itertools
    for n in (1, 2, 3):
        for t in itertools.product((0x00, 0x41, 0x7F, 0x80, 0xBF, 0xC2, 0xC3, 0xE0, 0xED, 0xA0, 0xF0, 0xF4, 0x90, 0xFF), repeat=n):
            b = bytes(t)
            try:
                s = b.decode("utf-8")
                assert utf8_units(b) == [("c", c) for c in s], b
            except UnicodeDecodeError:
                assert any(k == "b" for k, _ in utf8_units(b)), b
    # encoder / decoder agree on every style and strategy for a few awkward values
    for v in ["", "a", '"', "'", '""', '"""', '""""', 'a"', "'''", "\\", "\\\\", "a\\", "\n", "\r\n", "\x00", "é", "￿", "\U0001F600", 'x"\'\\\n']:
        for q, raw in STYLES:
            for st in strategies("string", raw):
                t = encode("string", v, q, raw, st)
                if t is not None:
                    assert d(t) is not UNSPEC and d(t).value == v and d(t).kind == "string", (v, q, raw, st, t)
        assert all(encode("string", v, q, False, st) is not None for q in QUOTES for st in STR_STRATEGIES)
    for v in [b"", b"A", b"\x00\xff", b"\xc3\x80", b"\xc3", b"\x80", b'"', b"'''", b"\\", b"\n", b"\xf0\x9f\x98\x80"]:
        for q, raw in STYLES:
            for st in strategies("bytes", raw):
                t = encode("bytes", v, q, raw, st)
                if t is not None:
                    assert d(t) is not UNSPEC and d(t).value == v and d(t).kind == "bytes", (v, q, raw, st, t)
    assert encode("string", "a\nb", '"', True, "raw") is None and encode("string", "a\nb", '"""', True, "raw") == 'r"""a\nb"""'
    assert encode("string", 'a"', '"""', True, "raw") is None and encode("string", 'a"', "'''", True, "raw") == "r'''a\"'''"
    assert encode("bytes", b"\xc3", '"', True, "raw") is None and encode("bytes", b"\xc3\x80", '"', True, "raw") == 'br"À"'
    assert encode("string", "é", '"', False, "hex") == '"\\u00E9"' and encode("string", "é", '"', False, "hexx") == '"\\xe9"'
    assert encode("string", "\U0001F600\n", "'", False, "octal") == "'\\U0001f600\\012'" and encode("bytes", b"\n\xff", "'", False, "octal") == "b'\\012\\377'"
    # numbers
    assert number("0") == ("int", 0) and number("-0") == ("int", 0) and number("007") == ("int", 7) and number("-0x10") == ("int", -16)
    assert number("9223372036854775807") == ("int", I_MAX) and number("9223372036854775808") == ("range",)
    assert number("-9223372036854775808") == ("int", I_MIN) and number("-0x8000000000000001") == ("range",)
    assert number("18446744073709551615u") == ("uint", U_MAX) and number("0x10000000000000000U") == ("range",)
    assert number("-1u") == ("neg-uint",) and number("-0u") is UNSPEC and number("0X10") is UNSPEC and number("1_0") is UNSPEC
    assert number("1.5") == ("double", fbits(1.5), True) and number("-0.0") == ("double", fbits(-0.0), True)
    assert number("5.") == ("double", fbits(5.0), False) and number(".5") == ("double", fbits(0.5), True)
    assert number("1e+308")[1] == fbits(1e308) and number("5e-324")[1] == fbits(5e-324) and number("1e400") is UNSPEC
    assert number("9007199254740993.0")[1] == fbits(2.0 ** 53) and number("2.4703282292062328e-324")[1] == fbits(5e-324)
    assert number("2.4703282292062327e-324")[1] == fbits(0.0) and number("1.") == ("double", fbits(1.0), False)
    assert number("e5") is UNSPEC and number(".") is UNSPEC and number("1e") is UNSPEC and number("+1") is UNSPEC and number("1.5u") is UNSPEC
    for x in (0.0, -0.0, 0.5, 5e-324, 1e308, 1.7976931348623157e308, 2.2250738585072014e-308, 0.1, 123456.789, 1e22, 1e-7, 3.0, 2.0 ** 53):
        for s in (x, -x):
            for name, t in double_spellings(s):
                r = number(t)
                assert r is not UNSPEC and r[0] == "double" and r[1] == fbits(s), (s, name, t, r)


if __name__ == "__main__":
    selftest()
    print("litcodec ok")
