"""Three-valued (Kleene) reference for CEL's logical operators, as far as property C02 states it.

Abstract outcomes: "T", "F", "E" (evaluation error), ("N", tag) (a non-boolean value) and UNSPEC.
"""
from . import UNSPEC


def isN(x):
    return isinstance(x, tuple) and x[0] == "N"


def and_(a, b):
    if a is UNSPEC or b is UNSPEC:
        # a deciding false still decides, whatever the other side would have been
        if a == "F" or b == "F":
            return "F"
        return UNSPEC
    if a == "F" or b == "F":
        return "F"
    if a == "T" and b == "T":
        return "T"
    if isN(a) and isN(b):
        return "E"
    if isN(a) or isN(b):
        return UNSPEC          # true && 1, error && 1: the property is silent
    return "E"                 # T/E, E/T, E/E


def or_(a, b):
    if a is UNSPEC or b is UNSPEC:
        if a == "T" or b == "T":
            return "T"
        return UNSPEC
    if a == "T" or b == "T":
        return "T"
    if a == "F" and b == "F":
        return "F"
    if isN(a) and isN(b):
        return "E"
    if isN(a) or isN(b):
        return UNSPEC
    return "E"


def not_(a):
    if a is UNSPEC:
        return UNSPEC
    if a == "T":
        return "F"
    if a == "F":
        return "T"
    if a == "E":
        return "E"
    return UNSPEC              # !1


def cond(c, x, y):
    if c is UNSPEC:
        return UNSPEC
    if c == "T":
        return x
    if c == "F":
        return y
    return "E"                 # error or non-boolean condition


def fold_all(seq):
    r = "T"
    for v in seq:
        r = and_(r, v)
    return r


def fold_exists(seq):
    r = "F"
    for v in seq:
        r = or_(r, v)
    return r


def selftest():
    N = ("N", "1")
    assert and_("F", "E") == "F" and and_("E", "F") == "F" and and_("F", N) == "F" and and_(N, "F") == "F"
    assert and_("T", "T") == "T" and and_("T", "E") == "E" and and_("E", "E") == "E" and and_(N, N) == "E"
    assert and_("T", N) is UNSPEC and and_("E", N) is UNSPEC
    assert or_("T", "E") == "T" and or_(N, "T") == "T" and or_("F", "F") == "F" and or_("F", "E") == "E" and or_(N, N) == "E"
    assert not_("E") == "E" and not_(N) is UNSPEC and not_("T") == "F"
    assert cond("T", N, "E") == N and cond("F", "E", "T") == "T" and cond("E", "T", "T") == "E" and cond(N, "T", "T") == "E"
    assert fold_all(["T", "E", "F"]) == "F" and fold_all(["T", "E"]) == "E" and fold_all([]) == "T" and fold_all(["E", "E", "F"]) == "F"
    assert fold_exists(["E", "E", "T"]) == "T" and fold_exists(["F", "E"]) == "E" and fold_exists([]) == "F"
    # commutativity of the reference itself
    vals = ["T", "F", "E", N, ("N", "s")]
    for a in vals:
        for b in vals:
            assert and_(a, b) == and_(b, a) and or_(a, b) == or_(b, a)


if __name__ == "__main__":
    selftest()
    print("kleene ok")
