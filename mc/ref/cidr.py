"""IPv4 addresses and networks as 32-bit integers; containment by comparing the leading bits.

No import of ipaddress / the library.
"""
from . import UNSPEC

FULL = (1 << 32) - 1


def parse_addr(text):
    """Strict dotted quad -> int, else None (no signs, no blanks, no leading zeros, 0..255)."""
    parts = text.split(".")
    if len(parts) != 4:
        return None
    v = 0
    for p in parts:
        if not (1 <= len(p) <= 3) or any(c not in "0123456789" for c in p):
            return None
        if len(p) > 1 and p[0] == "0":
            return None
        n = int(p)
        if n > 255:
            return None
        v = (v << 8) | n
    return v


def fmt(addr):
    return ".".join(str((addr >> s) & 255) for s in (24, 16, 8, 0))


def mask(prefix):
    return (FULL << (32 - prefix)) & FULL if prefix else 0


def classify(text):
    """('net', addr, prefix) network with clear host bits | ('hostbits', addr, prefix) |
    ('addr', addr) | ('malformed',)"""
    if "/" not in text:
        a = parse_addr(text)
        return ("addr", a) if a is not None else ("malformed",)
    left, _, right = text.partition("/")
    a = parse_addr(left)
    if a is None or not (1 <= len(right) <= 2) or any(c not in "0123456789" for c in right):
        return ("malformed",)
    if len(right) > 1 and right[0] == "0":
        return ("malformed",)
    p = int(right)
    if p > 32:
        return ("malformed",)
    if a & ~mask(p) & FULL:
        return ("hostbits", a, p)
    return ("net", a, p)


def first(addr, prefix):
    return addr & mask(prefix)


def last(addr, prefix):
    return (addr & mask(prefix)) | (~mask(prefix) & FULL)


def contains(n_text, x_text):
    """Does address-or-network x lie inside network n?  UNSPEC unless n is a well-formed network
    (host bits clear) and x a well-formed address or network."""
    n, x = classify(n_text), classify(x_text)
    if n[0] != "net" or x[0] not in ("net", "addr"):
        return UNSPEC
    _, na, np_ = n
    xa, xp = (x[1], 32) if x[0] == "addr" else (x[1], x[2])
    if xp < np_:
        return False
    if np_ == 0:
        return True
    return (xa >> (32 - np_)) == (na >> (32 - np_))


def prefixlen(text):
    """The prefix length of a well-formed network text; UNSPEC otherwise."""
    n = classify(text)
    return n[2] if n[0] == "net" else UNSPEC


def selftest():
    assert parse_addr("192.168.100.0") == 0xC0A86400 and fmt(0xC0A86400) == "192.168.100.0"
    assert parse_addr("0.0.0.0") == 0 and parse_addr("255.255.255.255") == FULL
    for bad in ("", "1.2.3", "1.2.3.4.5", "256.0.0.0", "01.2.3.4", "1.2.3.-4", " 1.2.3.4", "localhost", "1..2.3", "::1"):
        assert parse_addr(bad) is None, bad
    assert mask(0) == 0 and mask(32) == FULL and mask(8) == 0xFF000000 and mask(31) == 0xFFFFFFFE
    assert classify("10.0.0.0/8") == ("net", 10 << 24, 8) and classify("10.0.0.1/8")[0] == "hostbits"
    assert classify("10.0.0.0/33") == ("malformed",) and classify("10.0.0.0/") == ("malformed",) and classify("/8") == ("malformed",)
    assert classify("10.0.0.0/8/8") == ("malformed",) and classify("0.0.0.0/0") == ("net", 0, 0)
    # repository-pinned cases (tests/test_c7nlib.py::test_parse_cidr, test_size_parse_cidr)
    assert contains("192.168.100.0/22", "192.168.100.0") is True
    assert contains("192.168.100.0/22", "192.168.100.0/22") is True
    assert prefixlen("192.168.100.0/22") == 22 and prefixlen("localhost") is UNSPEC
    assert contains("192.168.100.0/22", "localhost") is UNSPEC
    # boundaries
    assert contains("192.168.100.0/22", "192.168.103.255") is True and contains("192.168.100.0/22", "192.168.104.0") is False
    assert contains("192.168.100.0/22", "192.168.99.255") is False
    assert contains("192.168.100.0/22", "192.168.96.0/21") is False and contains("192.168.100.0/22", "192.168.100.0/21") is UNSPEC and contains("192.168.100.0/22", "192.168.102.0/23") is True
    assert contains("0.0.0.0/0", "255.255.255.255") is True and contains("0.0.0.0/0", "0.0.0.0/0") is True
    assert contains("255.255.255.255/32", "255.255.255.255") is True and contains("255.255.255.255/32", "255.255.255.254") is False
    assert contains("10.0.0.0/8", "0.0.0.0/0") is False and contains("10.0.0.1/8", "10.0.0.1") is UNSPEC
    # brute force on a 6-bit analogue of the shift rule: range inclusion == leading-bit equality
    for np_ in range(0, 33, 4):
        for na in (0, 0x0A000000, 0xC0A80180, FULL):
            na &= mask(np_)
            for xp in (np_, min(32, np_ + 1), 32, max(0, np_ - 1)):
                for xa in (first(na, np_), last(na, np_), (first(na, np_) - 1) & FULL, (last(na, np_) + 1) & FULL):
                    xa &= mask(xp)
                    inside = first(na, np_) <= first(xa, xp) and last(xa, xp) <= last(na, np_)
                    assert contains(f"{fmt(na)}/{np_}", f"{fmt(xa)}/{xp}") is inside, (na, np_, xa, xp)
    return True
