"""Cloud Custodian filter combinators and the bounded space of filter-tree shapes (C18).

A filter tree is a nested tuple:

    ("leaf", i)                       the i-th primitive clause (i counts leaves left to right from 0)
    ("list", (t1, ..., tn))           a YAML list of filters: implicit and
    ("and",  (t1, ..., tn))           {and: [...]}
    ("or",   (t1, ..., tn))           {or: [...]}
    ("not",  (t1, ..., tn))           {not: [...]}

Custodian's own combinators (c7n/filters/core.py: ``And`` keeps a resource iff every sub-filter
keeps it, ``Or`` iff some sub-filter keeps it, ``Not`` removes the resources that pass *all*
sub-filters, and a bare list of filters is applied in sequence, i.e. conjunctively):

    list / and = all,   or = any,   not = not all

Nothing here imports the library under test.
"""
import itertools

CONNECTIVES = ("list", "and", "or", "not")
MAX_ARITY = 3


def evaluate(tree, values):
    """Truth value of ``tree`` when leaf i has the boolean ``values[i]``."""
    kind = tree[0]
    if kind == "leaf":
        v = values[tree[1]]
        if v is not True and v is not False:
            raise ValueError(f"leaf {tree[1]} has no truth value: {v!r}")
        return v
    kids = [evaluate(t, values) for t in tree[1]]
    if not kids:
        raise ValueError("connective without children")
    if kind in ("list", "and"):
        return all(kids)
    if kind == "or":
        return any(kids)
    if kind == "not":
        return not all(kids)
    raise ValueError(kind)


# -- measures ------------------------------------------------------------------------------------
def leaves(tree):
    return 1 if tree[0] == "leaf" else sum(leaves(t) for t in tree[1])


def connectives(tree):
    return 0 if tree[0] == "leaf" else 1 + sum(connectives(t) for t in tree[1])


def depth(tree):
    return 0 if tree[0] == "leaf" else 1 + max(depth(t) for t in tree[1])


def leaf_ids(tree):
    if tree[0] == "leaf":
        return [tree[1]]
    out = []
    for t in tree[1]:
        out.extend(leaf_ids(t))
    return out


def renumber(tree, start=0):
    """Number the leaves 0..n-1 left to right; returns (tree, next index)."""
    if tree[0] == "leaf":
        return ("leaf", start), start + 1
    kids = []
    for t in tree[1]:
        t2, start = renumber(t, start)
        kids.append(t2)
    return (tree[0], tuple(kids)), start


# -- the bounded space: generator --------------------------------------------------------------------
def _shapes(d, n, m, memo):
    """All unnumbered shapes of depth <= d with exactly n leaves and exactly m connective nodes."""
    key = (d, n, m)
    if key in memo:
        return memo[key]
    out = []
    if n == 1 and m == 0:
        out.append(("leaf", 0))
    if d > 0 and m > 0:
        for k in range(1, MAX_ARITY + 1):
            for kids in _seqs(d - 1, k, n, m - 1, memo):
                for c in CONNECTIVES:
                    out.append((c, kids))
    memo[key] = out
    return out


def _seqs(d, k, n, m, memo):
    """Sequences of k shapes (each depth <= d) with n leaves and m connectives in total."""
    if k == 0:
        return [()] if (n == 0 and m == 0) else []
    out = []
    for a in range(1, n - (k - 1) + 1):
        for b in range(0, m + 1):
            firsts = _shapes(d, a, b, memo)
            if not firsts:
                continue
            rests = _seqs(d, k - 1, n - a, m - b, memo)
            for f in firsts:
                for r in rests:
                    out.append((f,) + r)
    return out


def shapes(max_depth, max_leaves, max_connectives, min_leaves=1):
    """Every filter-tree shape within the bound, leaves numbered left to right, simplest first
    (by leaves, then connectives, then a fixed structural order)."""
    memo = {}
    out = []
    for n in range(min_leaves, max_leaves + 1):
        for m in range(0, max_connectives + 1):
            for s in _shapes(max_depth, n, m, memo):
                out.append(renumber(s)[0])
    return out


# -- the bounded space: cardinality, by an independent recurrence (no trees are built) -------------------
def count_shapes(max_depth, max_leaves, max_connectives, min_leaves=1):
    memo_t, memo_s = {}, {}

    def T(d, n, m):
        key = (d, n, m)
        if key not in memo_t:
            c = 1 if (n == 1 and m == 0) else 0
            if d > 0 and m > 0:
                c += len(CONNECTIVES) * sum(S(d - 1, k, n, m - 1) for k in range(1, MAX_ARITY + 1))
            memo_t[key] = c
        return memo_t[key]

    def S(d, k, n, m):
        if k == 0:
            return 1 if (n == 0 and m == 0) else 0
        key = (d, k, n, m)
        if key not in memo_s:
            memo_s[key] = sum(T(d, a, b) * S(d, k - 1, n - a, m - b) for a in range(1, n + 1) for b in range(0, m + 1))
        return memo_s[key]

    return sum(T(max_depth, n, m) for n in range(min_leaves, max_leaves + 1) for m in range(0, max_connectives + 1))


def count_leaf_positions(max_depth, max_leaves, max_connectives, min_leaves=1):
    """Sum over the shapes of the bound of their number of leaves (independent recurrence)."""
    return sum(n * (count_shapes(max_depth, n, max_connectives, n)) for n in range(min_leaves, max_leaves + 1))


# -- conversion to the YAML/JSON form Custodian policies use -----------------------------------------------
def to_filter(tree, clause_of):
    """Nested lists / {and|or|not: [...]} dicts with ``clause_of(i)`` at the leaves."""
    if tree[0] == "leaf":
        return clause_of(tree[1])
    kids = [to_filter(t, clause_of) for t in tree[1]]
    return kids if tree[0] == "list" else {tree[0]: kids}


def show(tree, name=lambda i: f"L{i}"):
    if tree[0] == "leaf":
        return name(tree[1])
    inner = ", ".join(show(t, name) for t in tree[1])
    return f"[{inner}]" if tree[0] == "list" else f"{tree[0]}[{inner}]"


def to_json(tree):
    return {"leaf": tree[1]} if tree[0] == "leaf" else {tree[0]: [to_json(t) for t in tree[1]]}


def from_json(j):
    if "leaf" in j:
        return ("leaf", j["leaf"])
    (k, v), = j.items()
    return (k, tuple(from_json(x) for x in v))


# -- pinned expectations of the repository that fall in this fragment ----------------------------------------
# features/c7n_interface.feature, each (tree, [(leaf values, expected result)]):
#   "EQ Test":   filters: [A, B]                      rows True/False/False/False
#   "gt Test":   filters: [A, B]                      likewise
#   "contains":  filters: [{not: [A]}]                A true -> False
#   "flow-logs": filters: [{or: [A, {not: [B]}]}]     A false, B false -> True
#   "image-age": filters: [{or: [A]}]                 A -> A
L0, L1 = ("leaf", 0), ("leaf", 1)
PINNED = [
    (("list", (L0, L1)), [((True, True), True), ((False, True), False), ((True, False), False), ((False, False), False)]),
    (("list", (("not", (L0,)),)), [((True,), False)]),
    (("list", (("or", (L0, ("not", (L1,)))),)), [((False, False), True)]),
    (("list", (("or", (L0,)),)), [((True,), True), ((False,), False)]),
]


def selftest():
    for tree, rows in PINNED:
        for values, want in rows:
            assert evaluate(tree, values) is want, (tree, values)
    # list/and = all, or = any, not = not all, for every arity 1..3 and every assignment
    for n in (1, 2, 3):
        kids = tuple(("leaf", i) for i in range(n))
        for vals in itertools.product((False, True), repeat=n):
            assert evaluate(("list", kids), vals) == all(vals) == evaluate(("and", kids), vals)
            assert evaluate(("or", kids), vals) == any(vals)
            assert evaluate(("not", kids), vals) == (not all(vals))
    # not over several children is NOT "none of them"
    assert evaluate(("not", (L0, L1)), (True, False)) is True
    # nested: [A, {or: [B, C]}] with A false is false whatever C is
    t = ("list", (L0, ("or", (L1, ("leaf", 2)))))
    assert evaluate(t, (False, False, True)) is False and evaluate(t, (True, False, True)) is True
    try:
        evaluate(L0, ("err",))
        raise AssertionError("non-boolean accepted")
    except ValueError:
        pass
    # generator and recurrence agree, shapes are distinct, bounds are respected
    for (d, n, m) in ((1, 3, 1), (2, 4, 2), (2, 3, 3), (3, 3, 3), (3, 5, 2)):
        ss = shapes(d, n, m)
        assert len(ss) == len(set(ss)) == count_shapes(d, n, m), (d, n, m, len(ss), count_shapes(d, n, m))
        assert all(depth(s) <= d and leaves(s) <= n and connectives(s) <= m for s in ss)
        assert all(leaf_ids(s) == list(range(leaves(s))) for s in ss)
        assert sum(leaves(s) for s in ss) == count_leaf_positions(d, n, m)
    # the figure quoted in DESIGN.md: depth <= 2, arity <= 2 gives 361 shapes (arity 3 excluded there)
    assert count_shapes(1, 3, 1) == 1 + 4 * 3
    assert from_json(to_json(t)) == t and show(t) == "[L0, or[L1, L2]]"
    assert to_filter(t, lambda i: {"k": i}) == [{"k": 0}, {"or": [{"k": 1}, {"k": 2}]}]


if __name__ == "__main__":
    selftest()
    print("c7nbool ok", count_shapes(3, 5, 3), count_shapes(4, 5, 4))
