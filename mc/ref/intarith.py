"""Exact integer arithmetic with CEL semantics (C-style / and %), range predicates."""
I_MIN, I_MAX = -(2 ** 63), 2 ** 63 - 1
U_MIN, U_MAX = 0, 2 ** 64 - 1

ERR = "ERR"


def in_range(kind, r):
    return (I_MIN <= r <= I_MAX) if kind == "int" else (U_MIN <= r <= U_MAX)


def tdiv(a, b):
    q = abs(a) // abs(b)
    return q if (a < 0) == (b < 0) else -q


def tmod(a, b):
    r = abs(a) % abs(b)
    return -r if a < 0 else r


def binop(kind, op, a, b):
    """Exact result, or ERR when CEL demands an evaluation error."""
    if op == "+":
        r = a + b
    elif op == "-":
        r = a - b
    elif op == "*":
        r = a * b
    elif op == "/":
        if b == 0:
            return ERR
        r = tdiv(a, b)
    elif op == "%":
        if b == 0:
            return ERR
        r = tmod(a, b)
    else:
        raise ValueError(op)
    return r if in_range(kind, r) else ERR


def neg(kind, a):
    if kind == "uint":
        return ERR
    r = -a
    return r if in_range(kind, r) else ERR


def boundary(kind, ks, extra=()):
    lo, hi = (I_MIN, I_MAX) if kind == "int" else (U_MIN, U_MAX)
    vals = {lo, lo + 1, hi - 1, hi, 0, 1, 2, 3}
    if kind == "int":
        vals |= {-1, -2, -3}
    for k in ks:
        for d in (-1, 0, 1):
            vals.add(2 ** k + d)
            if kind == "int":
                vals.add(-(2 ** k) + d)
    vals |= set(extra)
    return sorted((v for v in vals if lo <= v <= hi), key=lambda v: (abs(v), v))


def selftest():
    assert tdiv(-7, 2) == -3 and tdiv(7, -2) == -3 and tdiv(-7, -2) == 3
    assert tmod(-7, 2) == -1 and tmod(7, -2) == 1 and tmod(-7, -2) == -1
    assert binop("int", "/", I_MIN, -1) == ERR and binop("int", "%", I_MIN, -1) == 0
    assert binop("int", "+", I_MAX, 1) == ERR and binop("uint", "-", 0, 1) == ERR
    assert neg("int", I_MIN) == ERR and neg("uint", 0) == ERR and neg("int", 5) == -5
    for a in range(-9, 10):
        for b in range(-9, 10):
            if b:
                assert tdiv(a, b) * b + tmod(a, b) == a and abs(tmod(a, b)) < abs(b)
    assert len(boundary("int", (7, 31, 62))) > 20


if __name__ == "__main__":
    selftest()
    print("intarith ok")
