"""Reference models: deliberately boring, independent of the library."""
UNSPEC = ("UNSPEC",)
