"""Reference model for C15: JSON documents as plain Python values (None, bool, int, float, str,
list, dict with str keys), compared TYPE-STRICTLY (True != 1, 1.0 != 1, -0.0 != 0.0), path walk,
the expected CEL class of every position, the canonical outcome of a sub-document, and the three
text formats the encoder must emit (RFC 3339, "<n>s", standard base64).  Never calls the library.
"""
import re
import struct

KINDS = {type(None): "null", bool: "bool", int: "int", float: "float", str: "string", list: "array", dict: "object"}
CLASS = {"null": "NoneType", "bool": "BoolType", "int": "IntType", "float": "DoubleType", "string": "StringType",
         "array": "ListType", "object": "MapType"}
CELTYPE = {"null": "null_type", "bool": "bool", "int": "int", "float": "double", "string": "string",
           "array": "list", "object": "map"}
I_MIN, I_MAX = -(2 ** 63), 2 ** 63 - 1


def kind(v):
    """JSON kind by EXACT Python type (a subclass is not a JSON value)."""
    return KINDS.get(type(v), "other:" + type(v).__name__)


def fbits(f):
    return struct.pack(">d", f).hex()


def leaf(v):
    """Printable, type-revealing description of a scalar."""
    k = kind(v)
    return f"{k}:{fbits(v)}({v!r})" if k == "float" else f"{k}:{v!r}"


def first_diff(a, b, path=()):
    """None when a and b are the same JSON document; else (path, description of a, description of b)."""
    ka, kb = kind(a), kind(b)
    if ka != kb:
        return (path, ka if ka in ("array", "object") else leaf(a), kb if kb in ("array", "object") else leaf(b))
    if ka == "array":
        if len(a) != len(b):
            return (path, f"array[{len(a)}]", f"array[{len(b)}]")
        for i, (x, y) in enumerate(zip(a, b)):
            d = first_diff(x, y, path + (i,))
            if d:
                return d
        return None
    if ka == "object":
        if [kind(k) for k in b] != ["string"] * len(b) or sorted(a) != sorted(b):
            return (path, f"keys{sorted(a)!r}", f"keys{sorted(b, key=repr)!r}")
        for k in a:
            d = first_diff(a[k], b[k], path + (k,))
            if d:
                return d
        return None
    same = (fbits(a) == fbits(b)) if ka == "float" else (a == b)  # same kind, so == is exact here
    return None if same else (path, leaf(a), leaf(b))


def strict_equal(a, b):
    return first_diff(a, b) is None


def walk(doc, path):
    """The element a path of str keys / int indices reaches; KeyError when the path is not valid."""
    for step in path:
        k = kind(doc)
        if k == "object" and type(step) is str and step in doc:
            doc = doc[step]
        elif k == "array" and type(step) is int and 0 <= step < len(doc):
            doc = doc[step]
        else:
            raise KeyError(step)
    return doc


def positions(doc, path=()):
    """Every valid non-empty path into doc, parents before children."""
    k = kind(doc)
    steps = range(len(doc)) if k == "array" else (list(doc) if k == "object" else ())
    for s in steps:
        yield path + (s,)
        yield from positions(doc[s], path + (s,))


def expected_desc(doc):
    """(class name, payload) tree of the CEL value a document must convert to: scalars carry their
    canonical plain value (floats by bits), ListType a list of trees, MapType a list of (key tree, value tree)."""
    k = kind(doc)
    if k == "array":
        return ("ListType", [expected_desc(x) for x in doc])
    if k == "object":
        return ("MapType", [(expected_desc(key), expected_desc(v)) for key, v in doc.items()])
    return (CLASS[k], fbits(doc) if k == "float" else doc)


def desc_diff(exp, got, where="root"):
    """First difference between an expected and an observed tree: (where, expected, observed) or None.
    where is root / element / key / value; a class difference is reported by class names, a payload
    difference by the payloads.  Map entries are matched by key payload, list elements by index."""
    (ec, ep), (gc, gp) = exp, got
    if ec != gc:
        return (where, ec, gc)
    if ec == "ListType":
        if len(ep) != len(gp):
            return (where, f"ListType[{len(ep)}]", f"ListType[{len(gp)}]")
        for e, g in zip(ep, gp):
            d = desc_diff(e, g, "element")
            if d:
                return d
        return None
    if ec == "MapType":
        if len(ep) != len(gp):
            return (where, f"MapType[{len(ep)}]", f"MapType[{len(gp)}]")
        for ek, ev in ep:
            hit = [(gk, gv) for gk, gv in gp if type(gk[1]) is type(ek[1]) and gk[1] == ek[1]]
            if len(hit) != 1:
                return ("key", f"{ek[1]!r}", "absent" if not hit else "duplicated")
            d = desc_diff(ek, hit[0][0], "key") or desc_diff(ev, hit[0][1], "value")
            if d:
                return d
        return None
    same = type(ep) is type(gp) and ep == gp
    return None if same else (where, f"{ec}({ep!r})", f"{gc}({gp!r})")


def canon(doc):
    """(celtype, plain) of the CEL value a document denotes, in mc.outcome's canonical form."""
    k = kind(doc)
    if k == "float":
        return ("double", fbits(doc))
    if k == "array":
        return ("list", tuple(canon(x) for x in doc))
    if k == "object":
        return ("map", tuple(sorted(((canon(key), canon(v)) for key, v in doc.items()), key=repr)))
    if k == "int" and not I_MIN <= doc <= I_MAX:
        raise ValueError("integer outside int64 is outside the property")
    return (CELTYPE[k], doc)


# ---- text formats --------------------------------------------------------------------------------
def days_from_civil(y, m, d):
    """Days since 1970-01-01 in the proleptic Gregorian calendar (exact integer arithmetic)."""
    y -= m <= 2
    era = y // 400
    yoe = y - era * 400
    doy = (153 * (m + (-3 if m > 2 else 9)) + 2) // 5 + d - 1
    return era * 146097 + yoe * 365 + yoe // 4 - yoe // 100 + doy - 719468


_RFC3339 = re.compile(r"^(\d{4})-(\d\d)-(\d\d)[Tt](\d\d):(\d\d):(\d\d)(\.\d+)?([Zz]|[+-]\d\d:\d\d)$", re.ASCII)


def parse_rfc3339(text):
    """(epoch seconds UTC, fraction text or '', offset seconds) or None when text is not RFC 3339."""
    m = _RFC3339.match(text) if type(text) is str else None
    if not m:
        return None
    y, mo, d, h, mi, s = (int(g) for g in m.groups()[:6])
    leap = y % 4 == 0 and (y % 100 != 0 or y % 400 == 0)
    if not (1 <= mo <= 12 and 1 <= d <= [31, 29 if leap else 28, 31, 30, 31, 30, 31, 31, 30, 31, 30, 31][mo - 1]
            and h <= 23 and mi <= 59 and s <= 60):
        return None
    z = m.group(8)
    off = 0 if z in "Zz" else (1 if z[0] == "+" else -1) * (int(z[1:3]) * 3600 + int(z[4:6]) * 60)
    if z not in "Zz" and (int(z[1:3]) > 23 or int(z[4:6]) > 59):
        return None
    return (days_from_civil(y, mo, d) * 86400 + h * 3600 + mi * 60 + s - off, m.group(7) or "", off)


def instant(y, mo, d, h, mi, s, off_seconds):
    return days_from_civil(y, mo, d) * 86400 + h * 3600 + mi * 60 + s - off_seconds


_SECONDS = re.compile(r"^(-?)(\d+)(?:\.(0+))?s$", re.ASCII)


def seconds_text_value(text):
    """Whole number of seconds denoted by '<n>s' (a zero fraction is tolerated), or None."""
    m = _SECONDS.match(text) if type(text) is str else None
    return None if not m else (-1 if m.group(1) else 1) * int(m.group(2))


_B64 = "ABCDEFGHIJKLMNOPQRSTUVWXYZabcdefghijklmnopqrstuvwxyz0123456789+/"


def b64(data):
    """RFC 4648 section 4 (standard alphabet, padded)."""
    out = []
    for i in range(0, len(data), 3):
        chunk = data[i:i + 3]
        n = int.from_bytes(chunk + b"\0" * (3 - len(chunk)), "big")
        quad = [_B64[(n >> s) & 63] for s in (18, 12, 6, 0)]
        out.append("".join(quad[:len(chunk) + 1]) + "=" * (3 - len(chunk)))
    return "".join(out)


def selftest():
    assert not strict_equal(True, 1) and not strict_equal(1, True) and not strict_equal(1.0, 1) and not strict_equal(0.0, -0.0)
    assert not strict_equal("1", 1) and not strict_equal(None, False) and not strict_equal([], {}) and not strict_equal([1], [1, 1])
    assert strict_equal({"a": [1, 2.5, None], "b": {}}, {"b": {}, "a": [1, 2.5, None]}) and not strict_equal({"a": 1}, {"b": 1})
    assert not strict_equal({"1": 0}, {1: 0}) and strict_equal(-0.0, -0.0) and strict_equal(2 ** 63 - 1, 2 ** 63 - 1)
    assert first_diff({"a": [True]}, {"a": [1]}) == (("a", 0), "bool:True", "int:1")
    d = {"a": [True, {"": 1.0}], "a.b": None}
    assert walk(d, ("a", 1, "")) == 1.0 and walk(d, ()) is d and list(positions(d)) == [("a",), ("a", 0), ("a", 1), ("a", 1, ""), ("a.b",)]
    for bad in (("b",), ("a", 2), ("a", -1), ("a", "0"), ("a.b", 0), (0,)):
        try:
            walk(d, bad)
            raise AssertionError(bad)
        except KeyError:
            pass
    assert expected_desc(d) == ("MapType", [(("StringType", "a"), ("ListType", [("BoolType", True), ("MapType", [(("StringType", ""), ("DoubleType", "3ff0000000000000"))])])),
                                            (("StringType", "a.b"), ("NoneType", None))])
    assert desc_diff(expected_desc([True]), ("ListType", [("IntType", 1)])) == ("element", "BoolType", "IntType")
    assert desc_diff(expected_desc([1]), ("ListType", [("IntType", True)])) == ("element", "IntType(1)", "IntType(True)")
    assert desc_diff(expected_desc({"a": 1}), ("MapType", [(("str", "a"), ("IntType", 1))])) == ("key", "StringType", "str")
    assert desc_diff(expected_desc({"a": [0.0]}), ("MapType", [(("StringType", "a"), ("ListType", [("DoubleType", fbits(-0.0))]))]))[0] == "element"
    assert desc_diff(expected_desc({"a": 1, "b": True}), ("MapType", [(("StringType", "a"), ("BoolType", True)), (("StringType", "b"), ("IntType", 1))])) == ("value", "IntType", "BoolType")
    assert desc_diff(expected_desc({"a": 1}), ("MapType", [(("StringType", "b"), ("IntType", 1))])) == ("key", "'a'", "absent")
    assert desc_diff(expected_desc(d), expected_desc(d)) is None and desc_diff(expected_desc(None), ("NullType", None)) == ("root", "NoneType", "NullType")
    assert canon([True, 1, 1.0, None, "1"]) == ("list", (("bool", True), ("int", 1), ("double", "3ff0000000000000"), ("null_type", None), ("string", "1")))
    assert canon({"b": -0.0, "a": {}}) == ("map", ((("string", "a"), ("map", ())), (("string", "b"), ("double", "8000000000000000"))))
    assert days_from_civil(1970, 1, 1) == 0 and days_from_civil(2000, 3, 1) == 11017 and days_from_civil(1, 1, 1) == -719162
    assert days_from_civil(9999, 12, 31) == 2932896 and days_from_civil(1600, 2, 29) == days_from_civil(1600, 3, 1) - 1
    assert parse_rfc3339("2009-02-13T23:31:30Z") == (1234567890, "", 0)
    assert parse_rfc3339("2009-02-14T05:01:30+05:30") == (1234567890, "", 19800) and parse_rfc3339("2009-02-13T09:31:30.250-14:00") == (1234567890, ".250", -50400)
    for bad in ("1-01-01T00:00:00Z", "2009-02-13T23:31:30", "2009-02-13 23:31:30Z", "2009-02-13T23:31:30+0530", "2009-02-30T00:00:00Z",
                "2009-02-13T23:31:30+05", "2009-13-01T00:00:00Z", "2009-02-13T24:00:00Z", "2009-02-13T23:31:30UTC", 5, None):
        assert parse_rfc3339(bad) is None, bad
    assert seconds_text_value("42s") == 42 and seconds_text_value("-315576000000s") == -315576000000 and seconds_text_value("0s") == 0
    assert seconds_text_value("1.000s") == 1 and all(seconds_text_value(t) is None for t in ("42", "1.5s", "1m", "s", "+1s", " 1s", "1 s", 42))
    vectors = {b"": "", b"f": "Zg==", b"fo": "Zm8=", b"foo": "Zm9v", b"foob": "Zm9vYg==", b"fooba": "Zm9vYmE=", b"foobar": "Zm9vYmFy",
               b"bytes": "Ynl0ZXM=", b"\xff\xff\xff": "////", b"\x00\x7f\x80": "AH+A", b"\xfb\xef\xbe": "++++"}
    for k, v in vectors.items():
        assert b64(k) == v, (k, b64(k))


if __name__ == "__main__":
    selftest()
    print("jsonref ok")
