"""binary64 results computed from exact rationals (never from the float unit under test).

Values are Python floats used only as *carriers* of bit patterns: every arithmetic step is done
on fractions.Fraction and rounded once by Fraction -> float (correctly rounded: int/int true
division in CPython is correctly rounded), with explicit rules for zeros, infinities and NaN.
"""
import math
import struct
from fractions import Fraction

NAN = "nan"
INF = float("inf")
MAXF = Fraction(2) ** 1024 - Fraction(2) ** 970  # smallest magnitude that rounds to infinity is this midpoint


def bits(f):
    return struct.pack(">d", f).hex()


def sign(f):
    return -1 if math.copysign(1.0, f) < 0 else 1


def _round(fr, zero_sign):
    if fr == 0:
        return 0.0 if zero_sign > 0 else -0.0
    try:
        r = float(fr)
    except OverflowError:
        return INF if fr > 0 else -INF
    if r == 0.0:  # underflow keeps the sign of the exact result
        return 0.0 if fr > 0 else -0.0
    return r


def add(a, b):
    if a != a or b != b:
        return NAN
    if math.isinf(a) or math.isinf(b):
        if math.isinf(a) and math.isinf(b):
            return a if sign(a) == sign(b) else NAN
        return a if math.isinf(a) else b
    fr = Fraction(a) + Fraction(b)
    if fr == 0:
        # exact zero sum: -0 only when both operands are negative zeros (or both negative summing... impossible)
        if a == 0 and b == 0:
            return -0.0 if (sign(a) < 0 and sign(b) < 0) else 0.0
        return 0.0  # x + (-x) under round-to-nearest
    return _round(fr, 1)


def neg(a):
    if a != a:
        return NAN
    return struct.unpack(">d", bytes([struct.pack(">d", a)[0] ^ 0x80]) + struct.pack(">d", a)[1:])[0]


def sub(a, b):
    if b != b:
        return NAN
    return add(a, neg(b))


def mul(a, b):
    if a != a or b != b:
        return NAN
    s = sign(a) * sign(b)
    if math.isinf(a) or math.isinf(b):
        if a == 0 or b == 0:
            return NAN
        return INF if s > 0 else -INF
    return _round(Fraction(a) * Fraction(b), s)


def div(a, b):
    if a != a or b != b:
        return NAN
    s = sign(a) * sign(b)
    if math.isinf(a):
        return NAN if math.isinf(b) else (INF if s > 0 else -INF)
    if math.isinf(b):
        return 0.0 if s > 0 else -0.0
    if b == 0:
        if a == 0:
            return NAN
        return INF if s > 0 else -INF
    return _round(Fraction(a) / Fraction(b), s)


OPS = {"+": add, "-": sub, "*": mul, "/": div}


def canon(r):
    return NAN if (r == NAN or r != r) else bits(r)


def selftest():
    assert canon(div(1.0, 0.0)) == bits(INF) and canon(div(-1.0, 0.0)) == bits(-INF)
    assert canon(div(1.0, -0.0)) == bits(-INF) and div(0.0, 0.0) == NAN and div(-0.0, 0.0) == NAN
    assert canon(add(-0.0, -0.0)) == bits(-0.0) and canon(add(-0.0, 0.0)) == bits(0.0)
    assert canon(sub(1.5, 1.5)) == bits(0.0) and canon(mul(-0.0, 3.0)) == bits(-0.0)
    assert add(INF, -INF) == NAN and mul(INF, 0.0) == NAN and div(INF, INF) == NAN
    assert canon(mul(1e308, 10.0)) == bits(INF) and canon(mul(5e-324, 0.25)) == bits(0.0)
    assert canon(mul(-5e-324, 0.25)) == bits(-0.0)
    assert canon(neg(0.0)) == bits(-0.0)
    import itertools
    vals = [0.1, 0.2, 0.3, 1e308, 1.7976931348623157e308, 5e-324, 2.2250738585072014e-308, 3.0, 1.5, 2.0 ** 53]
    for a, b in itertools.product(vals + [-v for v in vals], repeat=2):
        assert canon(add(a, b)) == canon(a + b), (a, b)
        assert canon(sub(a, b)) == canon(a - b), (a, b)
        assert canon(mul(a, b)) == canon(a * b), (a, b)
        assert canon(div(a, b)) == canon(a / b), (a, b)


if __name__ == "__main__":
    selftest()
    print("ieee ok")
