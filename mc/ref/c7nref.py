"""Small pure reference functions for the Custodian helpers (C17): set predicates, normalize,
dotted versions, tag lookup, ``message:action@date`` decomposition, ARN field table, and the
three-line model of the filter context.  Independent of the library.
"""
import datetime

from . import UNSPEC


# -- set predicates on plain lists -------------------------------------------------------------
def intersect(a, b):
    for x in a:
        for y in b:
            if type(x) is type(y) and x == y:
                return True
    return False


def difference(a, b):
    for x in a:
        if not any(type(x) is type(y) and x == y for y in b):
            return True
    return False


def unique_size(a):
    seen = []
    for x in a:
        if not any(type(x) is type(y) and x == y for y in seen):
            seen.append(x)
    return len(seen)


# -- normalize ----------------------------------------------------------------------------------
_WS = " \t\n\r\x0b\x0c"
_LOWER = {chr(c): chr(c + 32) for c in range(ord("A"), ord("Z") + 1)}
_LOWER["É"] = "é"
_KNOWN = set(_LOWER) | set(_LOWER.values()) | set(_WS) | set("0123456789-_.:/@")


def normalize(s):
    """Trim blanks at both ends, lower-case; UNSPEC for characters outside the table."""
    if any(c not in _KNOWN for c in s):
        return UNSPEC
    i, j = 0, len(s)
    while i < j and s[i] in _WS:
        i += 1
    while j > i and s[j - 1] in _WS:
        j -= 1
    return "".join(_LOWER.get(c, c) for c in s[i:j])


# -- versions -----------------------------------------------------------------------------------
def version_key(text):
    """'1.10.0' -> (1, 10) (trailing zero components dropped = zero padding); UNSPEC unless dotted decimal."""
    parts = text.split(".")
    if not parts or any(p == "" or any(c not in "0123456789" for c in p) for p in parts):
        return UNSPEC
    nums = [int(p) for p in parts]
    while nums and nums[-1] == 0:
        nums.pop()
    return tuple(nums)


def version_cmp(a, b):
    """-1 / 0 / 1 by numeric component order with zero padding; UNSPEC for non-numeric texts."""
    ka, kb = version_key(a), version_key(b)
    if ka is UNSPEC or kb is UNSPEC:
        return UNSPEC
    n = max(len(ka), len(kb))
    pa, pb = ka + (0,) * (n - len(ka)), kb + (0,) * (n - len(kb))
    for x, y in zip(pa, pb):
        if x != y:
            return -1 if x < y else 1
    return 0


OPS = {"<": lambda c: c < 0, "<=": lambda c: c <= 0, "==": lambda c: c == 0, "!=": lambda c: c != 0, ">=": lambda c: c >= 0, ">": lambda c: c > 0}


# -- tags ---------------------------------------------------------------------------------------
def tag_key(tags, k):
    """tags: list of (Key, Value) pairs; the Value of the first pair whose Key is k, else None."""
    for key, value in tags:
        if key == k:
            return value
    return None


def valid_date(text):
    if len(text) != 10 or text[4] != "-" or text[7] != "-":
        return False
    y, m, d = text[:4], text[5:7], text[8:]
    if not (y + m + d).isdigit() or not (y + m + d).isascii():
        return False
    try:
        datetime.date(int(y), int(m), int(d))
    except ValueError:
        return False
    return True


def marked(value):
    """Decompose 'message:action@date'.  None when there is no value or it does not have that
    structure (pinned by tests/test_c7nlib.py and the docstring); (message, action, date) when it
    has; UNSPEC when the date part is not a plain YYYY-MM-DD date or blanks surround the action."""
    if value is None:
        return None
    i = value.rfind(":")
    if i < 0:
        return None
    msg, tgt = value[:i], value[i + 1:]
    if tgt != tgt.strip(_WS):
        return UNSPEC
    j = tgt.find("@")
    if j < 0:
        return None
    action, date = tgt[:j], tgt[j + 1:]
    if not valid_date(date):
        return UNSPEC
    return (msg, action, date)


def date_utc(text):
    return datetime.datetime(int(text[:4]), int(text[5:7]), int(text[8:]), tzinfo=datetime.timezone.utc)


# -- ARNs ---------------------------------------------------------------------------------------
ARN_FIELDS = {
    5: ("partition", "service", "region", "account-id", "resource-id"),
    6: ("partition", "service", "region", "account-id", "resource-type", "resource-id"),
}
ARN_FIELD_NAMES = ARN_FIELDS[6]


def arn_field(arn, field):
    """The documented table: arn:partition:service:region:account-id:resource-id and
    arn:partition:service:region:account-id:resource-type:resource-id (whose resource-id runs to the end of the text).  UNSPEC for anything else
    (other field counts, prefix other than 'arn', a field the shape does not have)."""
    prefix, *fields = arn.split(":")
    if len(fields) > 6:
        fields = fields[:5] + [":".join(fields[5:])]      # a resource-id may itself contain ':' (log groups, aliases): it is the rest of the text
    if prefix != "arn" or len(fields) not in ARN_FIELDS:
        return UNSPEC
    names = ARN_FIELDS[len(fields)]
    if field not in names:
        return UNSPEC
    return fields[names.index(field)]


# -- filter context -----------------------------------------------------------------------------
def context_model(history):
    """history: list of (kind, filter name), kind in ok / celerr / hostraise.  The context is a
    single slot: None between evaluations, the evaluation's own filter during it.
    Returns per step (before, during, after, outcome)."""
    out = {"ok": "value", "celerr": "E", "hostraise": "X:RuntimeError", "nested": "value"}
    slot = "None"
    steps = []
    for kind, fname in history:
        before = slot
        slot = f"ctx({fname})"
        during = slot
        slot = "None"  # cleared whether the evaluation returned or raised
        steps.append((before, during, slot, out[kind]))
    return steps


def selftest():
    assert intersect(["a", "b"], ["b", "c"]) and not intersect(["a", "b"], ["c"])  # tests/test_c7nlib.py
    assert difference(["a", "b"], ["b", "c"]) and not difference(["b"], ["b", "c"])
    assert unique_size(["a", "b", "b", "c"]) == 3 and unique_size([]) == 0
    assert not intersect([], []) and not difference([], ["a"]) and difference(["a"], []) and not intersect([1], ["1"])
    assert normalize(" HeLlO WoRlD ") == "hello world" and normalize("\tÉ ") == "é" and normalize("  ") == ""
    assert normalize("a\tA") == "a\ta" and normalize("İ") is UNSPEC
    assert version_cmp("2.7.18", "2.8") == -1 and version_cmp("2.6", "2.7.18") == -1 and version_cmp("2.7", "2.7") == 0
    assert version_cmp("1.9", "1.10") == -1 and version_cmp("1.0", "1") == 0 and version_cmp("10", "9.9.9") == 1
    assert version_cmp("0", "0.0.0") == 0 and version_cmp("1.0.1", "1") == 1 and version_cmp("a", "1") is UNSPEC
    tags = [("Target", "First"), ("Target", "Second")]
    assert tag_key(tags, "Target") == "First" and tag_key(tags, "NotFound") is None and tag_key([], "k") is None
    assert marked("hello:stop@2020-09-10") == ("hello", "stop", "2020-09-10") and marked("nope:") is None and marked(None) is None
    assert marked("a:b:op@2020-01-01") == ("a:b", "op", "2020-01-01") and marked("noat") is None and marked("m:noat") is None
    assert marked("m:op@bad") is UNSPEC and marked("") is None and marked("m:op@2020-02-30") is UNSPEC
    assert marked("m:a@b@2020-01-01") is UNSPEC and marked("m: op@2020-01-01") is UNSPEC
    f1 = "arn:partition-1:service-1:region-1:account-id-1:resource-id-1"
    for n in ARN_FIELDS[5]:
        assert arn_field(f1, n) == n + "-1"
    f2 = "arn:partition-2:service-2:region-2:account-id-2:resource-type-2/resource-id-2"
    assert arn_field(f2, "resource-id") == "resource-type-2/resource-id-2" and arn_field(f2, "resource-type") is UNSPEC
    f3 = "arn:partition-3:service-3:region-3:account-id-3:resource-type-3:resource-id-3"
    for n in ARN_FIELDS[6]:
        assert arn_field(f3, n) == n + "-3"
    assert arn_field("arn:a:b", "service") is UNSPEC and arn_field("x:a:b:c:d:e", "service") is UNSPEC
    assert arn_field("arn:aws:s3:::bucket", "region") == "" and arn_field(f1, "bogus") is UNSPEC
    m = context_model([("ok", "F1"), ("hostraise", "F2")])
    assert m == [("None", "ctx(F1)", "None", "value"), ("None", "ctx(F2)", "None", "X:RuntimeError")]
    return True
