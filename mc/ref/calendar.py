"""Proleptic-Gregorian calendar in pure integer arithmetic (reference model for C11).

An *instant* is an integer number of microseconds since 0001-01-01T00:00:00 UTC (the same
scale as mc.outcome's canonical timestamp form); a *duration* is a signed integer number of
microseconds.  Nothing here imports ``datetime`` / ``time`` / the library under test.

days <-> civil date follow the era arithmetic of H. Hinnant's "chrono-compatible low-level
date algorithms", shifted so that day 0 is 0001-01-01; ``selftest()`` cross-checks them
against a month-by-month counting loop over every month of years 1..9999 and against
a handful of anchor dates.

Run the self-test with ``python -m mc.ref.calendar`` (not as a script: the file name would
shadow the stdlib module of the same name on sys.path[0]).
"""
from . import UNSPEC

ERR = "ERR"
US_PER_S = 1000000
US_PER_DAY = 86400 * US_PER_S
MAX_DUR_S = 315576000000            # google.protobuf.Duration bound, +- this many seconds
MAX_DUR_US = MAX_DUR_S * US_PER_S
_DIM = (31, 28, 31, 30, 31, 30, 31, 31, 30, 31, 30, 31)

ACCESSORS = ("getFullYear", "getMonth", "getDate", "getDayOfMonth", "getDayOfYear", "getDayOfWeek",
             "getHours", "getMinutes", "getSeconds", "getMilliseconds")


def is_leap(y):
    return y % 4 == 0 and (y % 100 != 0 or y % 400 == 0)


def days_in_month(y, m):
    return 29 if (m == 2 and is_leap(y)) else _DIM[m - 1]


def days_from_civil(y, m, d):
    """Days since 0001-01-01 (which is day 0) of the proleptic Gregorian date y-m-d."""
    y2 = y - 1 if m <= 2 else y
    era = y2 // 400
    yoe = y2 - era * 400                                    # [0, 399]
    doy = (153 * (m - 3 if m > 2 else m + 9) + 2) // 5 + d - 1  # [0, 365], March-based
    doe = yoe * 365 + yoe // 4 - yoe // 100 + doy           # [0, 146096]
    return era * 146097 + doe - 306                         # 0000-03-01 is 306 days before 0001-01-01


def civil_from_days(n):
    """Inverse of days_from_civil: (y, m, d)."""
    z = n + 306
    era = z // 146097
    doe = z - era * 146097
    yoe = (doe - doe // 1460 + doe // 36524 - doe // 146096) // 365
    y = yoe + era * 400
    doy = doe - (365 * yoe + yoe // 4 - yoe // 100)
    mp = (5 * doy + 2) // 153
    d = doy - (153 * mp + 2) // 5 + 1
    m = mp + 3 if mp < 10 else mp - 9
    return (y + 1 if m <= 2 else y), m, d


def weekday(days):
    """0 = Sunday ... 6 = Saturday; 0001-01-01 (day 0) is a Monday."""
    return (days + 1) % 7


def day_of_year(y, m, d):
    """0-based ordinal of the date within its year."""
    return days_from_civil(y, m, d) - days_from_civil(y, 1, 1)


MIN_DAY = 0
MAX_DAY = days_from_civil(9999, 12, 31)
MIN_US = 0
MAX_US = (MAX_DAY + 1) * US_PER_DAY - 1     # 9999-12-31T23:59:59.999999Z


def us_from_civil(y, m, d, hh=0, mm=0, ss=0, us=0):
    """Instant of a UTC civil date-time."""
    if not (1 <= m <= 12 and 1 <= d <= days_in_month(y, m) and 0 <= hh < 24 and 0 <= mm < 60 and 0 <= ss < 60 and 0 <= us < US_PER_S):
        raise ValueError((y, m, d, hh, mm, ss, us))
    return days_from_civil(y, m, d) * US_PER_DAY + ((hh * 60 + mm) * 60 + ss) * US_PER_S + us


def civil_from_us(t_us, offset_s=0):
    """(y, m, d, hh, mm, ss, us, days) of the instant as seen at a fixed offset east of UTC;
    no range check (days may be negative / beyond year 9999)."""
    local = t_us + offset_s * US_PER_S
    days, rem = divmod(local, US_PER_DAY)
    y, m, d = civil_from_days(days)
    secs, us = divmod(rem, US_PER_S)
    hh, r = divmod(secs, 3600)
    mm, ss = divmod(r, 60)
    return y, m, d, hh, mm, ss, us, days


def in_range(t_us):
    return MIN_US <= t_us <= MAX_US


def fields(t_us, offset_s=0):
    """The ten CEL accessors of an instant at a fixed offset (seconds east of UTC), as a dict;
    UNSPEC when the *local* civil date falls outside years 1..9999 (the field has no
    representation and the property does not rule on it)."""
    y, m, d, hh, mm, ss, us, days = civil_from_us(t_us, offset_s)
    if not (MIN_DAY <= days <= MAX_DAY):
        return UNSPEC
    return {
        "getFullYear": y,
        "getMonth": m - 1,
        "getDate": d,
        "getDayOfMonth": d - 1,
        "getDayOfYear": days - days_from_civil(y, 1, 1),
        "getDayOfWeek": weekday(days),
        "getHours": hh,
        "getMinutes": mm,
        "getSeconds": ss,
        "getMilliseconds": us // 1000,
    }


# ---- arithmetic --------------------------------------------------------------------------------

def dur_in_range(d_us):
    return -MAX_DUR_US <= d_us <= MAX_DUR_US


def ts_add(t_us, d_us):
    """timestamp + duration: the instant, or ERR when it leaves years 1..9999."""
    r = t_us + d_us
    return r if in_range(r) else ERR


def ts_sub(t_us, d_us):
    r = t_us - d_us
    return r if in_range(r) else ERR


def ts_diff(t1_us, t2_us):
    """timestamp - timestamp: signed elapsed microseconds, or ERR beyond +-315 576 000 000 s."""
    r = t1_us - t2_us
    return r if dur_in_range(r) else ERR


# ---- fixed offsets and RFC 3339 text -------------------------------------------------------------

def format_offset(minutes, negative_zero=False):
    """'+HH:MM' / '-HH:MM' for an offset in minutes east of UTC."""
    sign = "-" if (minutes < 0 or (minutes == 0 and negative_zero)) else "+"
    a = abs(minutes)
    return "%s%02d:%02d" % (sign, a // 60, a % 60)


def parse_offset(text):
    """Seconds east of UTC for '+HH:MM' / '-HH:MM' (exactly that shape), else None."""
    if len(text) != 6 or text[0] not in "+-" or text[3] != ":":
        return None
    digs = text[1:3] + text[4:6]
    if not all(c in "0123456789" for c in digs):
        return None
    hh, mm = int(text[1:3]), int(text[4:6])
    if mm > 59:
        return None
    s = (hh * 60 + mm) * 60
    return -s if text[0] == "-" else s


def rfc3339(t_us, offset_min=None):
    """RFC 3339 text of an instant: 'Z' form when offset_min is None, else local time + offset.
    Returns None when the local date is outside years 1..9999."""
    off_s = 0 if offset_min is None else offset_min * 60
    y, m, d, hh, mm, ss, us, days = civil_from_us(t_us, off_s)
    if not (MIN_DAY <= days <= MAX_DAY):
        return None
    frac = (".%06d" % us) if us else ""
    zone = "Z" if offset_min is None else format_offset(offset_min)
    return "%04d-%02d-%02dT%02d:%02d:%02d%s%s" % (y, m, d, hh, mm, ss, frac, zone)


def parse_rfc3339(text):
    """(instant_us, exact) for 'YYYY-MM-DDTHH:MM:SS[.f+](Z|+HH:MM|-HH:MM)'; exact is False when
    the fraction has non-zero digits below the microsecond (then instant_us is truncated).
    None when the text does not have that shape or the date does not exist."""
    if len(text) < 20 or text[4] != "-" or text[7] != "-" or text[10] not in "Tt" or text[13] != ":" or text[16] != ":":
        return None
    try:
        y, m, d = int(text[0:4]), int(text[5:7]), int(text[8:10])
        hh, mm, ss = int(text[11:13]), int(text[14:16]), int(text[17:19])
    except ValueError:
        return None
    rest = text[19:]
    us, exact = 0, True
    if rest.startswith("."):
        i = 1
        while i < len(rest) and rest[i] in "0123456789":
            i += 1
        digs = rest[1:i]
        if not digs:
            return None
        us = int((digs + "000000")[:6])
        exact = not digs[6:].strip("0")
        rest = rest[i:]
    if rest in ("Z", "z"):
        off = 0
    else:
        off = parse_offset(rest)
        if off is None:
            return None
    if y < 1:
        return None
    try:
        t = us_from_civil(y, m, d, hh, mm, ss, us)
    except ValueError:
        return None
    return t - off * US_PER_S, exact


# ---- self-test -----------------------------------------------------------------------------------

def selftest():
    # anchors known independently of this file
    assert days_from_civil(1, 1, 1) == 0 and civil_from_days(0) == (1, 1, 1)
    assert days_from_civil(1970, 1, 1) == 719162
    assert days_from_civil(2000, 3, 1) - days_from_civil(2000, 2, 28) == 2      # leap (div. by 400)
    assert days_from_civil(1900, 3, 1) - days_from_civil(1900, 2, 28) == 1      # not leap (div. by 100)
    assert days_from_civil(401, 1, 1) == 146097                                 # one 400-year era
    assert weekday(days_from_civil(1970, 1, 1)) == 4                            # Thursday
    assert weekday(days_from_civil(2000, 1, 1)) == 6                            # Saturday
    assert weekday(days_from_civil(2024, 2, 29)) == 4                           # Thursday
    assert weekday(days_from_civil(1, 1, 1)) == 1                               # Monday (proleptic)
    assert weekday(days_from_civil(9999, 12, 31)) == 5                          # Friday
    # unix epoch: 2009-02-13T23:31:30Z is 1234567890 s after 1970-01-01
    assert us_from_civil(2009, 2, 13, 23, 31, 30) - us_from_civil(1970, 1, 1) == 1234567890 * US_PER_S
    assert MAX_US == 315537897599999999 and MAX_DAY == 3652058
    # cross-check with a counting loop: every first and last day of every month of years 1..9999
    n = 0
    for y in range(1, 10000):
        jan1 = n
        for m in range(1, 13):
            dim = 29 if (m == 2 and (y % 4 == 0 and (y % 100 != 0 or y % 400 == 0))) else _DIM[m - 1]
            if days_from_civil(y, m, 1) != n or civil_from_days(n) != (y, m, 1):
                raise AssertionError(("first", y, m))
            if days_from_civil(y, m, dim) != n + dim - 1 or civil_from_days(n + dim - 1) != (y, m, dim):
                raise AssertionError(("last", y, m))
            if day_of_year(y, m, 1) != n - jan1:
                raise AssertionError(("doy", y, m))
            n += dim
    assert n == MAX_DAY + 1
    # every day of four years of different leap character, both directions, weekday succession
    for y in (1, 1900, 2000, 2024, 9999):
        k = days_from_civil(y, 1, 1)
        cnt = 0
        for m in range(1, 13):
            for d in range(1, days_in_month(y, m) + 1):
                assert days_from_civil(y, m, d) == k + cnt and civil_from_days(k + cnt) == (y, m, d)
                assert weekday(k + cnt) == (weekday(k) + cnt) % 7
                cnt += 1
        assert cnt == (366 if is_leap(y) else 365)
    # the repository's own pinned accessor values (features/timestamps.feature, tests/test_celtypes.py)
    t = us_from_civil(2009, 2, 13, 23, 31, 30)
    f = fields(t)
    assert (f["getDate"], f["getDayOfMonth"], f["getDayOfWeek"], f["getDayOfYear"], f["getFullYear"], f["getHours"],
            f["getMinutes"], f["getMonth"], f["getSeconds"], f["getMilliseconds"]) == (13, 12, 5, 43, 2009, 23, 31, 1, 30, 0)
    assert fields(t, parse_offset("+11:00"))["getDayOfMonth"] == 13
    assert fields(us_from_civil(2009, 2, 13, 2, 0, 0), parse_offset("-02:30"))["getDayOfMonth"] == 11
    assert fields(t, parse_offset("-09:30"))["getFullYear"] == 2009
    assert fields(t, parse_offset("-00:00"))["getSeconds"] == 30
    assert fields(t, 5 * 3600 + 45 * 60)["getMinutes"] == 16             # Asia/Kathmandu = +05:45
    assert fields(us_from_civil(2009, 2, 13, 23, 31, 20, 123456))["getMilliseconds"] == 123
    # local date leaving 1..9999 is UNSPEC, the boundary itself is not
    assert fields(0, -60) is UNSPEC and fields(0, 0)["getFullYear"] == 1 and fields(0, 14 * 3600)["getHours"] == 14
    assert fields(MAX_US, 60) is UNSPEC and fields(MAX_US, -60)["getMinutes"] == 58
    # arithmetic and ranges
    assert ts_add(0, -1) == ERR and ts_add(MAX_US, 1) == ERR and ts_add(MAX_US, 0) == MAX_US and ts_sub(0, 1) == ERR
    assert ts_diff(MAX_US, 0) == MAX_US and dur_in_range(MAX_DUR_US) and not dur_in_range(-MAX_DUR_US - 1)
    assert ts_diff(us_from_civil(2009, 2, 13), us_from_civil(2009, 1, 1)) == 43 * US_PER_DAY
    # text forms
    assert format_offset(-30) == "-00:30" and format_offset(845) == "+14:05" and format_offset(0, True) == "-00:00"
    assert parse_offset("-00:30") == -1800 and parse_offset("+14:00") == 50400 and parse_offset("02:00") is None
    assert parse_offset("+1:00") is None and parse_offset("+01:60") is None
    assert rfc3339(t) == "2009-02-13T23:31:30Z" and rfc3339(t + 789000, 330) == "2009-02-14T05:01:30.789000+05:30"
    assert rfc3339(0, -1) is None and rfc3339(0) == "0001-01-01T00:00:00Z"
    assert parse_rfc3339("2009-02-13T23:31:30Z") == (t, True)
    assert parse_rfc3339("2009-02-14T05:01:30.789+05:30") == (t + 789000, True)
    assert parse_rfc3339("0001-01-01T00:00:01.000000001Z") == (US_PER_S, False)
    assert parse_rfc3339("9999-12-31T23:59:59.999999Z") == (MAX_US, True)
    assert parse_rfc3339("2009-02-30T00:00:00Z") is None and parse_rfc3339("10000-01-01T00:00:00Z") is None
    for u in (0, 1, t, t + 999999, MAX_US):
        for om in (None, 0, -840, 840, 345, -15):
            s = rfc3339(u, om)
            if s is not None:
                assert parse_rfc3339(s) == (u, True), (u, om, s)
    return True


if __name__ == "__main__":
    selftest()
    print("calendar ok")
