"""Reference name resolution for property C12: longest-prefix binding, package levels tried
longest first, remaining components as field selections.  UNSPEC where the statement is silent."""
from . import UNSPEC

ERR = "ERR"


def levels(package, ref):
    if ref.startswith("."):
        return [""]
    out = []
    if package:
        parts = package.split(".")
        for n in range(len(parts), 0, -1):
            out.append(".".join(parts[:n]) + ".")
    out.append("")
    return out


def is_prefix(b, full):
    return full == b or full.startswith(b + ".")


def resolve(bindings, package, ref):
    """bindings: dotted name -> plain value (int, or nested dict of str -> ...).
    Returns the plain value, ERR, or UNSPEC."""
    r = ref[1:] if ref.startswith(".") else ref
    first = r.split(".")[0]
    for lvl in levels(package, ref):
        full = lvl + r
        cands = [b for b in bindings if is_prefix(b, full)]
        mentions = [b for b in bindings if is_prefix(lvl + first, b) or b == lvl + first]
        if cands:
            # a reference that only names a namespace (alone or beside a value) is not ruled on
            if any(b != full and b.startswith(full + ".") for b in bindings):
                return UNSPEC
            best = max(cands, key=len)
            # a shorter binding that is a value AND a namespace for the winner: the statement says
            # the longest prefix wins; selecting a field that only the shorter one has is decided
            # by the same rule (the winner is still the longest prefix of *this* reference).
            rest = full[len(best):].lstrip(".")
            v = bindings[best]
            for comp in (rest.split(".") if rest else []):
                if not isinstance(v, dict) or comp not in v:
                    return ERR
                v = v[comp]
            return v
        if mentions:
            return UNSPEC   # the level mentions `a`, but only through names that are not prefixes of the reference
    return ERR


def selftest():
    assert resolve({"a": 1}, None, "a") == 1
    assert resolve({"a": {"b": {"c": 5}}}, None, "a.b.c") == 5
    assert resolve({"a": {"b": 1}, "a.b": 2}, None, "a.b") == 2
    assert resolve({"a": {"c": 3}, "a.b": 1}, None, "a.c") == 3
    assert resolve({"a": 5, "a.b": 1}, None, "a") is UNSPEC
    assert resolve({"p.a": 1, "a": 2}, "p", "a") == 1 and resolve({"p.a": 1, "a": 2}, "p", ".a") == 2
    assert resolve({"a": 2}, "p.q", "a") == 2 and resolve({"p.a": 3, "a": 2}, "p.q", "a") == 3
    assert resolve({"p.a.b": 1, "a": {"c": 2}}, "p", "a.c") is UNSPEC
    assert resolve({}, None, "a") == ERR and resolve({"a": 1}, None, "a.b") == ERR and resolve({"a": {"b": 1}}, None, "a.c") == ERR


if __name__ == "__main__":
    selftest()
    print("names ok")
