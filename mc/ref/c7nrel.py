"""The relation each Custodian ``op`` names, with the ``value_type`` transforms (C19).

Plain Python values only: None, bool, int, str, list.  Dates are ISO-8601 UTC texts
("2020-09-10T11:12:13Z") compared as integer seconds since the epoch; ``now`` likewise.

Source of the reading (c7n/filters/core.py, ``ValueFilter.match`` / ``process_value_type`` /
``OPERATORS``; quoted in the translator's own comments):

    OPERATORS: eq/equal ==, ne/not-equal !=, gt/greater-than >, ge/gte >=, lt/less-than <, le/lte <=,
               in: r in v, ni/not-in: r not in v, contains: v in r, glob: fnmatch(r, v),
               difference: bool(set(r) - set(v)), intersect: bool(set(r) & set(v))       -- op(r, v)
    match():   v, r = process_value_type(v, r); absent: r is None; present: r is not None;
               not-null: bool(r); empty: not r
    process_value_type (returns (sentinel, value) = (new v, new r)):
               normalize: r.strip().lower()   integer: int(str(r).strip())   size: len(r)
               unique_size: len(set(r))       swap: (r, v) exchanged
               age:        (date(r), now - v days)  i.e. the test is  (now - v days) OP date(r)
               expiration: (now + v days, date(r))  i.e. the test is  date(r) OP (now + v days)

Anything outside this reading (operands of different kinds, unordered kinds, a non-numeric text under
``integer``, glob patterns with brackets) is UNSPEC.
"""
import datetime

from . import UNSPEC

ORDER = {
    "eq": "==", "equal": "==", "ne": "!=", "not-equal": "!=",
    "gt": ">", "greater-than": ">", "ge": ">=", "gte": ">=",
    "lt": "<", "less-than": "<", "le": "<=", "lte": "<=",
}
MEMBER = ("in", "ni", "not-in", "contains")
SETOPS = ("intersect", "difference")
PRESENCE = ("present", "absent", "not-null", "empty")
OPS = tuple(ORDER) + MEMBER + ("glob",) + SETOPS
VALUE_TYPES = (None, "size", "integer", "normalize", "swap", "unique_size", "age", "expiration")
MISSING = ("MISSING",)        # the resource has no such attribute (Custodian sees None)


def kind(x):
    if x is None:
        return "null"
    if isinstance(x, bool):
        return "bool"
    if isinstance(x, int):
        return "int"
    if isinstance(x, str):
        return "str"
    if isinstance(x, list):
        return "list"
    return "other"


def _hashable(x):
    return all(kind(e) in ("int", "str", "bool") for e in x)


def relation(op, r, v):
    """op(r, v) for two plain operands of the relation (after any value_type transform)."""
    kr, kv = kind(r), kind(v)
    if op in ORDER:
        sym = ORDER[op]
        if kr != kv or kr in ("null", "other"):
            return UNSPEC
        if sym == "==":
            return r == v
        if sym == "!=":
            return r != v
        if kr not in ("int", "str"):
            return UNSPEC                       # ordering of lists / bools: not what any policy means
        return {">": r > v, ">=": r >= v, "<": r < v, "<=": r <= v}[sym]
    if op in ("in", "ni", "not-in"):
        if kv == "list":
            if not all(kind(e) == kr for e in v):
                return UNSPEC
            inside = r in v
        elif kv == "str" and kr == "str":
            inside = r in v                      # substring
        else:
            return UNSPEC
        return inside if op == "in" else not inside
    if op == "contains":
        if kr == "list":
            if not all(kind(e) == kv for e in r):
                return UNSPEC
            return v in r
        if kr == "str" and kv == "str":
            return v in r
        return UNSPEC
    if op == "glob":
        if kr != "str" or kv != "str":
            return UNSPEC
        return glob(r, v)
    if op in SETOPS:
        if kr != "list" or kv != "list" or not _hashable(r) or not _hashable(v):
            return UNSPEC
        if len({kind(e) for e in r + v}) > 1:
            return UNSPEC
        if op == "intersect":
            return any(e in v for e in r)
        return any(e not in v for e in r)
    raise ValueError(op)


def glob(text, pattern):
    """Shell-style match of the whole text: ``*`` any run, ``?`` any one character.  Bracket classes: UNSPEC."""
    if "[" in pattern:
        return UNSPEC
    # dynamic programme over (pattern prefix, text prefix)
    reach = {0}
    for p in pattern:
        nxt = set()
        for i in reach:
            if p == "*":
                nxt.update(range(i, len(text) + 1))
            elif i < len(text) and (p == "?" or text[i] == p):
                nxt.add(i + 1)
        reach = nxt
    return len(text) in reach


def parse_date(text):
    """ISO-8601 UTC 'YYYY-MM-DDTHH:MM:SSZ' -> integer seconds since 1970-01-01 (stdlib calendar arithmetic)."""
    if kind(text) != "str" or len(text) != 20 or text[-1] != "Z" or text[10] != "T":
        return None
    try:
        d = datetime.datetime(int(text[0:4]), int(text[5:7]), int(text[8:10]), int(text[11:13]), int(text[14:16]), int(text[17:19]))
    except ValueError:
        return None
    delta = d - datetime.datetime(1970, 1, 1)
    return delta.days * 86400 + delta.seconds


def format_date(seconds):
    d = datetime.datetime(1970, 1, 1) + datetime.timedelta(seconds=seconds)
    return d.strftime("%Y-%m-%dT%H:%M:%SZ")


def decide(op, v, value_type, r, now=None):
    """Match decision of ``{type: value, key: k, op: op, value: v, value_type: value_type}`` on a resource whose
    attribute k is ``r`` (``MISSING`` when the resource has no such attribute).  True / False / UNSPEC."""
    if op in PRESENCE:
        if value_type is not None:
            return UNSPEC
        rr = None if r is MISSING else r
        if op == "present":
            return rr is not None
        if op == "absent":
            return rr is None
        if op == "not-null":
            return bool(rr)
        return not rr
    if r is MISSING or r is None:
        return UNSPEC                            # what eq etc. mean on a missing attribute is not "the relation the op names"
    if value_type is None:
        return relation(op, r, v)
    if value_type == "size":
        return relation(op, len(r), v) if kind(r) in ("list", "str") else UNSPEC
    if value_type == "unique_size":
        if kind(r) != "list" or not _hashable(r):
            return UNSPEC
        return relation(op, len(set((kind(e), e) for e in r)), v)
    if value_type == "integer":
        if kind(r) == "int":
            return relation(op, r, v)
        if kind(r) != "str":
            return UNSPEC
        t = r.strip(" ")
        digits = t[1:] if t[:1] in "+-" else t
        if not digits or not all(c in "0123456789" for c in digits):
            return UNSPEC
        return relation(op, int(t), v)
    if value_type == "normalize":
        return relation(op, r.strip().lower(), v) if kind(r) == "str" else UNSPEC
    if value_type == "swap":
        return relation(op, v, r)
    if value_type in ("age", "expiration"):
        date = parse_date(r)
        if date is None or now is None or kind(v) == "bool" or not isinstance(v, (int, float)) or op not in ORDER:
            return UNSPEC
        secs = duration_seconds(days=v)
        if secs is UNSPEC:
            return UNSPEC
        if value_type == "age":
            return relation(op, now - secs, date)
        return relation(op, date, now + secs)
    return UNSPEC


def reduce(op, v, value_type, r, now=None):
    """(v', r') with decide(op, v', None, r') == decide(op, v, value_type, r, now): the same comparison with the
    transform already applied (used to tell a wrong operator from a wrong transform).  None if not reducible."""
    if value_type is None or decide(op, v, value_type, r, now) is UNSPEC:
        return None
    if value_type == "size":
        return v, len(r)
    if value_type == "unique_size":
        return v, len(set((kind(e), e) for e in r))
    if value_type == "integer":
        return v, (r if kind(r) == "int" else int(r.strip(" ")))
    if value_type == "normalize":
        return v, r.strip().lower()
    if value_type == "swap":
        return r, v
    if value_type == "age":
        return parse_date(r), now - duration_seconds(days=v)
    if value_type == "expiration":
        return now + duration_seconds(days=v), parse_date(r)
    return None


def duration_seconds(days=None, seconds=None):
    """Whole seconds a day count / second count denotes; fractions of a second are dropped (the translator's
    pinned texts: 0.084 days -> "2h57s", 0.011 days -> "15m50s")."""
    from fractions import Fraction
    q = Fraction(str(days)) * 86400 if days is not None else Fraction(str(seconds))
    if q < 0:
        return UNSPEC
    return q.numerator // q.denominator


# -- the repository's own pinned expectations in this fragment ------------------------------------------------
# (op, value, value_type, attribute value, now) -> expected, from features/c7n_interface.feature
_NOW = "2020-09-10T13:14:15Z"
PINNED = [
    ("eq", "redis", None, "redis", None, True), ("eq", "redis", None, "not redis", None, False),
    ("equal", [], None, [], None, True), ("equal", [], None, ["a", "b"], None, False),
    ("ne", "spot", None, "not spot", None, True), ("ne", "spot", None, "spot", None, False),
    ("gt", 1, None, 2, None, True), ("gt", 1, None, 1, None, False),
    ("lt", 7, None, 0, None, True), ("lt", 7, None, 7, None, False),
    ("glob", "PRE-*", None, "PRE-Demo", None, True), ("glob", "PRE-*", None, "NOTPRE", None, False),
    ("in", ["vpc-1", "vpc-2"], None, "vpc-2", None, True), ("in", ["vpc-1", "vpc-2"], None, "vpc-x", None, False),
    ("ni", ["igw-1", "igw-2"], None, "igw-x", None, True), ("ni", ["igw-1", "igw-2"], None, "igw-1", None, False),
    ("not-in", ["A", "B"], None, "C", None, True), ("not-in", ["A", "B"], None, "A", None, False),
    ("contains", "aurora", None, ["this", "that", "aurora"], None, True),
    ("gte", 0.084, "age", "2020-09-10T11:12:13Z", "2020-09-10T13:14:15Z", True),  # 0.084 days = "2h57s" (pinned)
    ("lte", 1, "age", "2020-09-10T11:12:13Z", "2020-09-10T13:14:15Z", True),
    ("ne", 0, "integer", "2 ", None, True), ("ne", 0, "integer", "  0", None, False),
    ("lt", 10, "expiration", "2020-09-10T11:12:13Z", "2020-09-12T13:14:15Z", True),
    ("lt", 10, "expiration", "2020-09-10T11:12:13Z", "2020-10-12T13:14:15Z", True),
    ("in", ["08-19-weekend-off", "8x5"], "normalize", "08-19-WEEKEND-OFF", None, True),
    ("in", ["08-19-weekend-off", "8x5"], "normalize", "24x7", None, False),
    ("gt", 3, "size", ["one", "two", "three", "four"], None, True), ("gt", 3, "size", ["one", "two", "three"], None, False),
    ("not-in", "Default", "swap", "SomeTagName", None, True), ("not-in", "Default", "swap", "ADefaultTagName", None, False),
    ("gt", 3, "unique_size", ["one", "two", "two", "three", "four"], None, True),
    ("gt", 3, "unique_size", ["one", "two", "two", "three", "three", "three"], None, False),
]


def selftest():
    for op, v, vt, r, now, want in PINNED:
        got = decide(op, v, vt, r, parse_date(now) if now else None)
        assert got is want, (op, v, vt, r, now, got, want)
    # every alias names the same relation as its long form
    for a, b in (("eq", "equal"), ("ne", "not-equal"), ("gt", "greater-than"), ("ge", "gte"), ("lt", "less-than"), ("le", "lte"), ("ni", "not-in")):
        for r in (4, 5, 6):
            assert relation(a, r, 5) == relation(b, r, 5)
    assert [relation("le", r, 5) for r in (4, 5, 6)] == [True, True, False]
    assert [relation("lt", r, 5) for r in (4, 5, 6)] == [True, False, False]
    assert [relation("ge", r, 5) for r in (4, 5, 6)] == [False, True, True]
    assert relation("in", "b", "abc") is True and relation("contains", "abc", "b") is True and relation("in", 1, [1, 2]) is True
    assert relation("difference", ["a", "b"], ["a"]) is True and relation("difference", ["a"], ["a", "b"]) is False
    assert relation("intersect", ["a"], ["b"]) is False and relation("intersect", [], []) is False
    assert relation("eq", 1, "1") is UNSPEC and relation("gt", [1], [0]) is UNSPEC and relation("eq", True, True) is True
    assert glob("abc", "a*") and glob("abc", "a?c") and not glob("abc", "a?") and glob("", "*") and not glob("a", "") and glob("a*b", "a*b")
    assert glob("x", "[x]") is UNSPEC
    # presence: the four meanings Custodian distinguishes
    rows = {MISSING: (False, True, False, True), "": (True, False, False, True), "x": (True, False, True, False)}
    rows_null = (False, True, False, True)
    for r, want in list(rows.items()) + [(None, rows_null)]:
        assert tuple(decide(o, None, None, r) for o in PRESENCE) == want, r
    assert decide("present", None, None, []) is True and decide("empty", None, None, 0) is True
    assert decide("eq", 1, None, MISSING) is UNSPEC
    n = parse_date("2020-09-10T00:00:00Z")
    assert format_date(n) == "2020-09-10T00:00:00Z" and parse_date("2020-02-30T00:00:00Z") is None
    assert parse_date("1970-01-02T00:00:01Z") == 86401
    # age: (now - v days) OP date ; expiration: date OP (now + v days)
    assert decide("gt", 1, "age", format_date(n - 86401), n) is True and decide("gt", 1, "age", format_date(n - 86400), n) is False
    assert decide("lt", 1, "expiration", format_date(n + 86399), n) is True and decide("lt", 1, "expiration", format_date(n + 86400), n) is False
    assert decide("gt", 2, "swap", 1) is True and decide("gt", 2, None, 1) is False
    assert decide("eq", 5, "integer", " 5 ") is True and decide("eq", 5, "integer", "five") is UNSPEC
    for (op, v, vt, r, nw) in (("gt", 1, "size", ["a", "b"], None), ("le", 1, "age", format_date(n - 86400), n), ("lt", 2, "expiration", format_date(n), n),
                               ("in", "b", "swap", "abc", None), ("eq", "ab", "normalize", " AB ", None), ("ge", 2, "unique_size", ["a", "a", "b"], None)):
        v2, r2 = reduce(op, v, vt, r, nw)
        assert decide(op, v2, None, r2) is decide(op, v, vt, r, nw) is not UNSPEC, (op, vt)
    assert duration_seconds(days=0.084) == 7257 and duration_seconds(days=0.011) == 950 and duration_seconds(days=0.5) == 43200
    assert duration_seconds(days=0) == 0 and duration_seconds(seconds=90061) == 90061 and duration_seconds(days=1.5) == 129600


if __name__ == "__main__":
    selftest()
    print("c7nrel ok")
