"""Reference model for C20: what the command line must print and return, as a function of the
*outcome* of evaluating the expression (mc.outcome form: ("V", celtype, plain, ...), ("E",),
("P", line, col), ("X", ...)) and of the kind of each input document.  Never calls the library.

Only what the fixed statement of C20 says is stated; everything else is UNSPEC:

  -n EXPR            value with a JSON serialisation -> status 0, stdout = that JSON text, one line
                     evaluation error              -> UNSPEC (the statement speaks of errors only under -b)
  -n -b EXPR         true -> 0, false -> 1, any other value or an evaluation error -> 2; stdout free
  syntax error       status 1 and a message on stderr containing "<line>:<column>" of the reported
                     position, which must lie inside the expression text (any mode)
  NDJSON, document k malformed JSON      -> contributes no output line and status 3
                     empty line          -> UNSPEC (NDJSON readers may skip empty lines)
                     well-formed, no -b  -> value: status 0 and its JSON text; evaluation error: status UNSPEC,
                                            exactly one output line holding some JSON text (so that output
                                            line k keeps belonging to document k)
                     well-formed, -b     -> true: 0, false: 1; anything else: UNSPEC (the statement gives
                                            the 0/1/2 table for -n only); stdout free
  stream             stdout = concatenation of the one-document outputs, status = max of the
                     one-document statuses (differential: needs no expectation of its own)
  -s                 the whole input is one document: same table; empty input is malformed
"""
import json
import re
import struct

from . import UNSPEC
from . import jsonref

FREE = ("FREE",)  # no requirement on this channel

# --arg type names: per family two legal texts, each with the JSON value `x` must print (UNSPEC where the
# text format is C15's) and an expression that is `true` only if x arrived with the requested CEL type
# and value; and one text that is not a value of the type (None: every text is legal).
_FAMILIES = {
    "int": ([("42", 42, "x + 1 == 43"), ("-7", -7, "x - 1 == -8")], "4x"),
    "uint": ([("42", 42, "x + 1u == 43u"), ("0", 0, "x + 1u == 1u")], "-1"),
    "double": ([("1.5", 1.5, "x + 0.5 == 2.0"), ("-2", -2.0, "x + 0.5 == -1.5")], "1.5.5"),
    "bool": ([("true", True, "x && true"), ("false", False, "!x")], "maybe"),
    "string": ([("abc", "abc", "x + '!' == 'abc!'"), ("", "", "x + '!' == '!'")], None),
    "bytes": ([("abc", "YWJj", "x == b'abc'"), ("", "", "x == b''")], None),
    # the elements must arrive as CEL values too: integer division, CEL types, overflow checks
    "list": ([("[5, 2, True]", [5, 2, True], "x[0] / x[1] == 2 && type(x[0]) == int && type(x[2]) == bool && x + [3] == [5, 2, true, 3]"), ("[]", [], "size(x) == 0")], "1 +"),
    "map": ([("{'a': 7, 'b': [1.5]}", {"a": 7, "b": [1.5]}, "x.a / 2 == 3 && type(x.b[0]) == double && x == x"), ("{}", {}, "size(x) == 0")], "nope"),
    "null": ([("null", None, "x == null"), ("", None, "x == null")], None),
    "duration": ([("60s", UNSPEC, "x == duration('60s')"), ("1h", UNSPEC, "x == duration('3600s')")], "xyz"),
    "timestamp": ([("2020-01-01T00:00:00Z", UNSPEC, "x == timestamp('2020-01-01T00:00:00Z')"),
                   ("1970-01-01T00:00:01Z", UNSPEC, "x == timestamp('1970-01-01T00:00:01Z')")], "xyz"),
}
_NAMES = {"int": "int", "uint": "uint", "double": "double", "bool": "bool", "string": "string", "bytes": "bytes", "list": "list",
          "map": "map", "null_type": "null", "single_duration": "duration", "single_timestamp": "timestamp", "int64_value": "int",
          "uint64_value": "uint", "double_value": "double", "bool_value": "bool", "string_value": "string", "bytes_value": "bytes",
          "number_value": "double", "null_value": "null"}
ARG_TYPES = {name: _FAMILIES[fam] for name, fam in _NAMES.items()}


def unfloat(bits):
    return struct.unpack(">d", bytes.fromhex(bits))[0]


def json_of(celtype, plain):
    """The JSON document (plain Python, exact types) a CEL value serialises to, or UNSPEC where
    C20 has nothing to say (non-finite doubles, non-string map keys, timestamps/durations/types:
    text formats are C15's)."""
    if celtype == "null_type":
        return None
    if celtype == "bool":
        return True if plain else False
    if celtype in ("int", "uint"):
        return int(plain)
    if celtype == "string":
        return plain
    if celtype == "double":
        if plain == "nan":
            return UNSPEC
        f = unfloat(plain)
        return UNSPEC if f in (float("inf"), float("-inf")) else f
    if celtype == "bytes":
        return jsonref.b64(bytes.fromhex(plain))
    if celtype == "list":
        out = []
        for t, p in plain:
            v = json_of(t, p)
            if v is UNSPEC:
                return UNSPEC
            out.append(v)
        return out
    if celtype == "map":
        out = {}
        for (kt, kp), (vt, vp) in plain:
            v = json_of(vt, vp)
            if kt != "string" or v is UNSPEC:
                return UNSPEC
            out[kp] = v
        return out
    return UNSPEC


def _no_constant(name):
    raise ValueError(f"{name} is not JSON")


def parse_line(stdout):
    """stdout must be exactly one newline-terminated line of strict JSON -> ("ok", doc) | ("bad", why)."""
    if not stdout.endswith("\n") or "\n" in stdout[:-1]:
        return ("bad", f"stdout is not exactly one line: {stdout!r}")
    try:
        return ("ok", json.loads(stdout[:-1], parse_constant=_no_constant))
    except ValueError as ex:
        return ("bad", f"stdout is not JSON ({ex}): {stdout!r}")


def stdout_problem(expected, stdout):
    """None when stdout meets the expectation: FREE, ("empty",), ("line",) or ("json", doc)."""
    if expected is FREE or expected is UNSPEC:
        return None
    if expected == ("empty",):
        return None if stdout == "" else f"expected no output, got {stdout!r}"
    tag, doc = parse_line(stdout)
    if tag == "bad":
        return doc
    if expected == ("line",):
        return None
    d = jsonref.first_diff(expected[1], doc)
    if d is None:
        return None
    return f"expected JSON {json.dumps(expected[1])}, got {stdout!r} (at {list(d[0])}: {d[1]} vs {d[2]})"


def _value_json(o):
    j = json_of(o[1], o[2])
    return UNSPEC if j is UNSPEC else ("json", j)


def expect(mode, o, boolean, doc_kind="ok"):
    """(status, stdout, needs_location) for one run.
    mode: "null" (-n) | "doc" (one NDJSON line, or the -s input); o: outcome of the expression on
    that input (ignored for malformed/empty documents); doc_kind: "ok" | "malformed" | "empty".
    status is an int or UNSPEC; stdout is FREE, UNSPEC, ("empty",), ("line",) or ("json", doc)."""
    if o[0] == "P":
        return (1, FREE, True)
    if o[0] == "X":
        return (UNSPEC, UNSPEC, False)
    if mode == "doc" and doc_kind == "malformed":
        return (3, ("empty",), False)
    if mode == "doc" and doc_kind == "empty":
        return (UNSPEC, UNSPEC, False)
    is_bool = o[0] == "V" and o[1] == "bool"
    if mode == "null":
        if boolean:
            if is_bool:
                return (0 if o[2] else 1, FREE, False)
            return (2, FREE, False)
        if o[0] == "V":
            j = _value_json(o)
            return (UNSPEC, UNSPEC, False) if j is UNSPEC else (0, j, False)
        return (UNSPEC, UNSPEC, False)
    if boolean:
        # "with -b the exit status is 0 iff the result is true, 1 iff it is false, and 2 for any other value or an
        # evaluation error"; the status of a stream is the worst per-document status, so the rule is per document
        if is_bool:
            return (0 if o[2] else 1, FREE, False)
        return (2, FREE, False)
    if o[0] == "V":
        j = _value_json(o)
        return (UNSPEC, ("line",), False) if j is UNSPEC else (0, j, False)
    return (UNSPEC, ("line",), False)


_POS = re.compile(r"(?<![0-9])([0-9]+):([0-9]+)(?![0-9])")


def location_problem(text, reported, stderr):
    """None when stderr carries a line:column that lies inside text (and is the reported one,
    when the parser's exception reported one)."""
    lines = text.split("\n")
    found = [(int(a), int(b)) for a, b in _POS.findall(stderr)]
    if reported is not None and (type(reported[0]) is not int or type(reported[1]) is not int):
        return f"the parse error carries no position: {reported!r}"
    if reported is not None and reported not in found:
        return f"stderr does not contain the reported position {reported[0]}:{reported[1]}: {stderr[:200]!r}"
    cands = [reported] if reported is not None else found
    if not cands:
        return f"stderr names no line:column: {stderr[:200]!r}"
    for ln, col in cands:
        if 1 <= ln <= len(lines) and 1 <= col <= len(lines[ln - 1]) + 1:
            return None
    return f"position {cands[0][0]}:{cands[0][1]} is outside the text {text!r}"


def combine(singles):
    """Stream expectation from the one-document observations [(status, stdout), ...]."""
    return (max([s for s, _ in singles], default=0), "".join(t for _, t in singles))


def doc_kind(text):
    """Kind of one input document by the JSON grammar (stdlib parser as trusted data)."""
    if text.strip(" \t\r\n") == "":
        return "empty"
    try:
        json.loads(text)
        return "ok"
    except ValueError:
        return "malformed"


def selftest():
    T, F = ("V", "bool", True, "BoolType"), ("V", "bool", False, "BoolType")
    one, s, E, P = ("V", "int", 1, "IntType"), ("V", "string", "\u00e9", "StringType"), ("E",), ("P", 1, 2)
    lst = ("V", "list", (("int", 1), ("bool", True), ("string", "a")), "ListType")
    # pinned by /repo/tests/test_main.py: -bn non-bool -> 2, -bn false -> 1, -n value -> 0 + JSON, parse error -> 1
    assert expect("null", s, True)[0] == 2 and expect("null", F, True)[0] == 1 and expect("null", T, True)[0] == 0
    assert expect("null", E, True)[0] == 2 and expect("null", one, True)[:2] == (2, FREE)
    assert expect("null", one, False) == (0, ("json", 1), False) and expect("null", lst, False)[1] == ("json", [1, True, "a"])
    assert expect("null", P, False) == (1, FREE, True) and expect("doc", P, True, "malformed") == (1, FREE, True)
    assert expect("null", E, False)[0] is UNSPEC
    # test_main_slurp_bool_status: -s -b false -> status 1; process_json_doc tests: malformed -> 3
    assert expect("doc", F, True)[0] == 1 and expect("doc", T, True)[0] == 0 and expect("doc", one, True)[:2] == (2, FREE)
    assert expect("doc", one, False, "malformed") == (3, ("empty",), False) and expect("doc", one, False, "empty")[0] is UNSPEC
    assert expect("doc", s, False) == (0, ("json", "\u00e9"), False) and expect("doc", E, False) == (UNSPEC, ("line",), False)
    assert expect("doc", E, True)[:2] == (2, FREE) and expect("null", E, False)[1] is UNSPEC
    assert stdout_problem(("line",), "null\n") is None and stdout_problem(("line",), "") and stdout_problem(("line",), "a\nb\n") and stdout_problem(("line",), "nope\n")
    assert expect("null", ("V", "double", "7ff0000000000000", "DoubleType"), False)[0] is UNSPEC
    assert expect("null", ("V", "map", ((("int", 1), ("int", 2)),), "MapType"), False)[0] is UNSPEC
    assert json_of("map", ((("string", "a"), ("list", ())),)) == {"a": []} and json_of("bytes", "6162") == "YWI="
    assert json_of("double", "3ff0000000000000") == 1.0 and json_of("uint", 2) == 2 and json_of("type", "int") is UNSPEC
    assert stdout_problem(("json", 1), "1\n") is None and stdout_problem(("json", 1), "1.0\n") and stdout_problem(("json", 1), "true\n")
    assert stdout_problem(("json", True), "1\n") and stdout_problem(("json", "\u00e9"), '"\\u00e9"\n') is None
    assert stdout_problem(("json", 1), "1\n1\n") and stdout_problem(("json", 1), "1") and stdout_problem(("json", 1), "")
    assert stdout_problem(("json", [1, 2]), "[1, 2]\n") is None and stdout_problem(("json", [1, 2]), "[1,2.0]\n")
    assert stdout_problem(("empty",), "") is None and stdout_problem(("empty",), "null\n") and stdout_problem(FREE, "x") is None
    assert parse_line("NaN\n")[0] == "bad" and parse_line("Infinity\n")[0] == "bad" and parse_line("null\n") == ("ok", None)
    assert location_problem("1+", (1, 2), "ERROR: <input>:1:2 1+\n | .^\n") is None
    assert location_problem("1 +\n+", (2, 1), "ERROR: <input>:2:1 +") is None and location_problem("(1", (1, 3), "x 1:3 y") is None
    assert location_problem("1+", (1, 4), "ERROR: <input>:1:4") and location_problem("1+", (2, 1), "ERROR: <input>:2:1")
    assert location_problem("1+", (1, 2), "ERROR: syntax") and location_problem("1+", None, "ERROR: syntax")
    assert location_problem("1+", (None, None), "ERROR: <input>:?:?") and location_problem("1+", (0, 1), "0:1") and location_problem("1+", None, "at 1:1") is None
    assert combine([]) == (0, "") and combine([(0, "a\n"), (3, ""), (1, "b\n")]) == (3, "a\nb\n") and combine([(1, "x\n"), (0, "y\n")]) == (1, "x\ny\n")
    assert [doc_kind(t) for t in ('{"x": 1}', "[1]", "not json", "", "\n", '{"x":\n 1}\n', "not\njson", '{"x": 1} {"x": 2}')] == \
        ["ok", "ok", "malformed", "empty", "empty", "ok", "malformed", "malformed"]
    assert len(ARG_TYPES) == 19 and all(len(v[0]) == 2 and all(len(t) == 3 for t in v[0]) for v in ARG_TYPES.values())


if __name__ == "__main__":
    selftest()
    print("cli ok")
