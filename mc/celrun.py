"""Thin helpers that drive the real public API and fold results into outcomes."""
from . import outcome, repo

repo.load()
import celpy  # noqa: E402
import celpy.celtypes as ct  # noqa: E402

RUNNERS = {"I": celpy.InterpretedRunner, "C": celpy.CompiledRunner}


def make_env(kind, package=None, annotations=None):
    return celpy.Environment(package=package, annotations=annotations, runner_class=RUNNERS[kind])


class Prog:
    """compile+program once, evaluate many times; any failure before evaluate is kept as the
    outcome of every evaluation."""

    def __init__(self, kind, text, functions=None, package=None, annotations=None, env=None):
        self.kind = kind
        self.text = text
        self.failed = None
        self.runner = None
        try:
            self.env = env or make_env(kind, package, annotations)
        except RecursionError as ex:
            self.failed = ("X", "env", type(ex).__name__)
            return
        except Exception as ex:  # noqa
            self.failed = outcome.of_exception(ex, "env")
            return
        try:
            self.ast = self.env.compile(text)
        except RecursionError as ex:
            self.failed = ("X", "compile", type(ex).__name__)
            return
        except Exception as ex:  # noqa
            self.failed = outcome.of_exception(ex, "compile")
            return
        try:
            self.runner = self.env.program(self.ast, functions=functions)
        except RecursionError as ex:
            self.failed = ("X", "program", type(ex).__name__)
        except Exception as ex:  # noqa
            self.failed = outcome.of_exception(ex, "program")

    def eval(self, bindings=None):
        if self.failed is not None:
            return self.failed
        return outcome.run(lambda: self.runner.evaluate(bindings or {}), "evaluate")

    def eval_raw(self, bindings=None):
        """(outcome, raw value or exception)"""
        if self.failed is not None:
            return self.failed, None
        try:
            v = self.runner.evaluate(bindings or {})
        except RecursionError as ex:
            return ("X", "evaluate", type(ex).__name__), ex
        except Exception as ex:  # noqa
            return outcome.of_exception(ex, "evaluate"), ex
        if isinstance(v, celpy.CELEvalError):
            return outcome.E, v
        return outcome.V(v), v


def evaluate(kind, text, bindings=None, **kw):
    return Prog(kind, text, **kw).eval(bindings)
