"""Check driver: sharded bounded-exhaustive enumeration, violation / known-finding protocol,
evidence writer (DESIGN.md sections 2.4, 2.5)."""
import collections
import hashlib
import json
import multiprocessing
import os
import sys
import time
import traceback

from . import bigframe, repo

VERIF = os.path.dirname(os.path.dirname(os.path.abspath(__file__)))
NPROC = int(os.environ.get("VERIF_NPROC", "16"))
MAX_VIOL_PER_PART = 4000
MAX_REPLAYS = 40


class HarnessError(Exception):
    """The machinery (not the code under test) is wrong; exit status 3, never a VIOLATION."""


def jhash(obj):
    return hashlib.sha1(json.dumps(obj, sort_keys=True, default=repr).encode()).hexdigest()[:12]


class Part:
    """What one shard of an enumeration found; merged in the parent."""

    def __init__(self):
        self.evaluations = 0
        self.nontrivial = 0
        self.unspec = 0
        self.outcomes = collections.Counter()
        self.violations = []
        self.violation_count = 0
        self.samples = []
        self.spaces = {}
        self.extra = collections.Counter()
        self.notes = []

    # -- recording -----------------------------------------------------------------------
    def case(self, nontrivial=True, n=1, evaluations=None):
        """One distinct enumerated case (distinct by construction of the enumeration)."""
        self.evaluations += n if evaluations is None else evaluations
        if nontrivial:
            self.nontrivial += n
        else:
            self.unspec += n

    def outcome(self, label):
        self.outcomes[label] += 1

    def sample(self, obj, limit=3):
        if len(self.samples) < limit:
            self.samples.append(obj)

    def space(self, name, cardinality, enumerated, bound=None):
        s = self.spaces.setdefault(name, {"cardinality": 0, "enumerated": 0, "bound": bound})
        s["cardinality"] += cardinality
        s["enumerated"] += enumerated

    def violation(self, kind, sig, witness, detail=""):
        self.violation_count += 1
        if len(self.violations) < MAX_VIOL_PER_PART:
            self.violations.append({"kind": kind, "sig": sig, "witness": witness, "detail": detail})

    def merge(self, other):
        self.evaluations += other.evaluations
        self.nontrivial += other.nontrivial
        self.unspec += other.unspec
        self.outcomes.update(other.outcomes)
        self.violations.extend(other.violations)
        self.violation_count += other.violation_count
        for s in other.samples:
            if len(self.samples) < 12:
                self.samples.append(s)
        for k, v in other.spaces.items():
            s = self.spaces.setdefault(k, {"cardinality": 0, "enumerated": 0, "bound": v.get("bound")})
            s["cardinality"] += v["cardinality"]
            s["enumerated"] += v["enumerated"]
        self.extra.update(other.extra)
        self.notes.extend(other.notes)
        return self


def _limit_worker():
    """A worker may not take the machine down: an evaluation that builds gigabytes (an error message doubling per
    operand, say) gets a MemoryError -- an outcome the checks record -- instead of exhausting the host."""
    try:
        import resource
        cap = int(os.environ.get("VERIF_WORKER_AS_GB", "12")) << 30
        soft, hard = resource.getrlimit(resource.RLIMIT_AS)
        if hard == resource.RLIM_INFINITY or cap <= hard:
            resource.setrlimit(resource.RLIMIT_AS, (cap, hard))
    except Exception:  # noqa  -- a platform without the limit: go on without it
        pass


def _call(args):
    fn, task = args
    try:
        return ("ok", bigframe.call(fn, task))
    except HarnessError as ex:
        return ("harness", f"{ex}")
    except BaseException as ex:  # noqa
        return ("crash", f"{type(ex).__name__}: {ex}\n{traceback.format_exc()}")


def pmap(fn, tasks, nproc=None, chunksize=1):
    """Run fn(task) over forked workers; each worker process is long-lived.  Results in task order.
    A crash inside fn is a harness error (workers fold library exceptions into outcomes)."""
    tasks = list(tasks)
    if not tasks:
        return []
    nproc = min(nproc or NPROC, len(tasks))
    bigframe.prepare()
    if os.environ.get("VERIF_SERIAL"):
        res = [_call((fn, t)) for t in tasks]
    else:
        ctx = multiprocessing.get_context("fork")
        with ctx.Pool(max(1, nproc), initializer=_limit_worker) as pool:  # always a forked child: the parent never runs the library
            res = pool.map(_call, [(fn, t) for t in tasks], chunksize=chunksize)
    out = []
    for status, val in res:
        if status != "ok":
            raise HarnessError(f"worker {status}: {val}")
        out.append(val)
    return out


def shards(n, k):
    """Split range(n) into k contiguous (lo, hi) pieces."""
    k = max(1, min(k, n))
    step = -(-n // k)
    return [(i, min(n, i + step)) for i in range(0, n, step)]


def load_known(prop):
    path = os.path.join(VERIF, "known_findings.jsonl")
    out = []
    if os.path.exists(path):
        for line in open(path):
            line = line.strip()
            if not line or line.startswith("#"):
                continue
            e = json.loads(line)
            if e.get("property") == prop:
                out.append(e)
    return out


def match_known(v, known):
    """A violation is covered by a *finding* entry iff the entry names its signature exactly
    (``sigs`` list).  ``fixed`` entries suppress nothing."""
    for e in known:
        if e.get("status") != "finding":
            continue
        if v["sig"] in e.get("sigs", []):
            return e
    return None


class Ctx:
    def __init__(self, prop, tier, seed, level):
        self.prop = prop
        self.tier = tier
        self.seed = seed
        self.level = level
        self.part = Part()
        self.t0 = time.time()
        self.assumptions = []
        self.rule = ""
        self.coverage_extra = {}
        self.caps_hit = []

    @property
    def thorough(self):
        return self.tier == "thorough"

    def run_shards(self, fn, tasks, nproc=None):
        for p in pmap(fn, tasks, nproc=nproc):
            self.part.merge(p)

    # ---------------------------------------------------------------------------------------
    def finish(self):
        part = self.part
        known = load_known(self.prop)
        # group by signature; one replay per signature
        by_sig = collections.OrderedDict()
        for v in part.violations:
            by_sig.setdefault(v["sig"], []).append(v)
        new, reported_known = [], {}
        for sig, vs in by_sig.items():
            e = match_known(vs[0], known)
            if e is not None:
                reported_known.setdefault(e["id"], (e, []))[1].append(sig)
            else:
                new.append((sig, vs))
        for eid, (e, sigs) in reported_known.items():
            print(f"KNOWN-FINDING: property={self.prop} {e['what']} [{eid}; {len(sigs)} signature(s) seen]")
        if os.environ.get("VERIF_DUMP_SIGS"):
            with open(os.environ["VERIF_DUMP_SIGS"], "w") as f:
                for sig, vs in by_sig.items():
                    f.write(json.dumps({"n": len(vs), "sig": sig, "detail": vs[0]["detail"][:300], "witness": vs[0]["witness"]}, default=repr) + "\n")
        rdir = os.path.join(VERIF, "replays", self.prop)
        for sig, vs in new[:MAX_REPLAYS]:
            os.makedirs(rdir, exist_ok=True)
            v = vs[0]
            path = os.path.join(rdir, jhash([sig, v["witness"]]) + ".json")
            with open(path, "w") as f:
                json.dump({"property": self.prop, "kind": v["kind"], "sig": sig, "witness": v["witness"],
                           "detail": v["detail"], "cases_with_this_signature": len(vs)}, f, indent=1, default=repr)
            print(f"VIOLATION property={self.prop} replay={path}")
            print(f"  kind={v['kind']} sig={sig}\n  {v['detail']}"[:1500])
        if len(new) > MAX_REPLAYS:
            print(f"  ... {len(new) - MAX_REPLAYS} further violating signatures not written")
        exhaustive = bool(part.spaces) and all(s["cardinality"] == s["enumerated"] for s in part.spaces.values()) and not self.caps_hit
        cov = {
            "evaluations": part.evaluations,
            "distinct_nontrivial": part.nontrivial,
            "unspec_not_compared": part.unspec,
            "rule": self.rule,
            "samples": part.samples[:12],
            "exhaustive": exhaustive,
            "spaces": part.spaces,
            "outcome_classes": dict(part.outcomes.most_common(40)),
            "caps_hit": self.caps_hit,
            "violating_cases": part.violation_count,
            "violating_signatures_new": len(new),
            "known_findings_seen": sorted(reported_known),
        }
        cov.update({k: v for k, v in part.extra.items()})
        cov.update(self.coverage_extra)
        if part.notes:
            cov["notes"] = part.notes[:20]
        ev = {
            "property_id": self.prop,
            "tier": self.tier,
            "seed": self.seed,
            "level": self.level,
            "coverage": cov,
            "assumptions": self.assumptions,
            "wall_s": round(time.time() - self.t0, 2),
            "violations": len(new),
            "repo": repo.REPO,
        }
        os.makedirs(os.path.join(VERIF, "evidence"), exist_ok=True)
        dest = os.path.join(VERIF, "evidence", f"{self.prop}.json")
        if os.environ.get("VERIF_EVIDENCE_DIR"):
            os.makedirs(os.environ["VERIF_EVIDENCE_DIR"], exist_ok=True)
            dest = os.path.join(os.environ["VERIF_EVIDENCE_DIR"], f"{self.prop}.json")
        with open(dest + ".tmp", "w") as f:
            json.dump(ev, f, indent=1, default=repr)
        os.replace(dest + ".tmp", dest)
        # vacuity guards: harness errors, not violations
        if part.evaluations == 0 or part.nontrivial < 2:
            raise HarnessError("vacuous run: nothing non-trivial was enumerated")
        if len(part.outcomes) == 1 and part.evaluations > 10:
            raise HarnessError(f"vacuous run: a single outcome class {list(part.outcomes)} from {part.evaluations} executions")
        print(f"{self.prop} {self.tier}: evaluations={part.evaluations} nontrivial={part.nontrivial} unspec={part.unspec} "
              f"exhaustive={exhaustive} violating_cases={part.violation_count} new_signatures={len(new)} "
              f"known={len(reported_known)} wall={ev['wall_s']}s")
        return 1 if new else 0
