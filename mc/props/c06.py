"""C06 Parser precedence / associativity; AST dump round-trips (DESIGN.md section 3, C06).

Bounded-exhaustive, parsing only (celpy.celparser.CELParser().parse and celparser.tree_dump; no
evaluation, no runner kinds).  Sub-spaces:

  adjacent   every pair / triple of adjacent operators as *text* (templates x operator slots); expected
             term = the precedence-climbing reference parser of mc.ref.celast (rejects included).
  terms1     every term with <= 1 operator over every tuple of the 13 atoms.
  shapes     every operator shape with <= 3 (quick) / <= 4 (thorough) operators, leaves filled
             left-to-right from the atom alphabet under a set of rotations.
  keywords   true/false/null and look-alike identifiers in every primary position.
  containers list / map / call / message literals of arity 0..3 in 14 contexts.
             (terms1, shapes, keywords, containers: printed minimally and fully parenthesised by the
             celast printer -- the three small spaces also with parentheses around every operand, atoms
             included; oracle abstract(parse(text)) == term for each text, hence equality modulo paren
             nodes, and parse(tree_dump(t)) == t with Lark tree equality for each tree.  A failing dump
             is attributed to a root cause by term surgery, see dump_cause.)
  whitespace every terms1 term and every 2-operator shape (one-token leaves) with <= 5 (quick) / 6 (thorough)
             tokens x every assignment of {' ', '\\n', '\\t\\r\\f ', ' //c\\n'}
             (and '' where the two tokens are separable) to every token gap, plus leading / trailing
             variants; all must parse to a tree equal to the conventionally spaced text.
"""
import itertools
import math
from functools import lru_cache

from .. import runner
from ..ref import celast
from ..ref.celast import BINOPS

LEVEL = "exploration"

ID = lambda n: ("id", n)  # noqa: E731
A_, B_ = ID("a"), ID("b")
LIT = {"1": ("lit", "INT_LIT", "1"), '"s"': ("lit", "STRING_LIT", '"s"'), "true": ("lit", "BOOL_LIT", "true"),
       "false": ("lit", "BOOL_LIT", "false"), "null": ("lit", "NULL_LIT", "null")}
ELIST, EMAP = ("list", ()), ("map", ())
# `[]` last: with the rotations used it stays out of most multi-operator terms, so the one known dump
# defect it triggers cannot mask the dump oracle there (terms1 / containers still put it everywhere)
ATOMS = [A_, LIT["1"], EMAP, LIT['"s"'], B_, LIT["true"], ("dotid", "a"), ("list", (A_,)), ("call", "f", (A_,)),
         LIT["null"], ("map", ((A_, B_),)), LIT["false"], ELIST]
NA = len(ATOMS)
UNOPS = ("not", "neg", "dot", "dotcall", "index", "msg")      # the last three carry one inner leaf
INNER = ("dotcall", "index", "msg")
ROT_QUICK = (0, 3, 6, 9)
ONE_TOKEN = [A_, LIT["true"], LIT["1"], B_, LIT['"s"'], LIT["null"]]      # leaves of the 2-operator whitespace bases


# ---- the real parser, folded into outcomes ----------------------------------------------------------
_PARSER = None


def rparse(text):
    """('T', tree) | ('P', line, col) | ('X', class)"""
    global _PARSER
    import celpy.celparser as cp
    if _PARSER is None:
        _PARSER = cp.CELParser()
    try:
        return ("T", _PARSER.parse(text))
    except cp.CELParseError as ex:
        return ("P", ex.line, ex.column)
    except Exception as ex:  # noqa
        return ("X", type(ex).__name__)


def roundtrip(tree):
    """(mode, dumped text): mode 'ok' iff parse(tree_dump(tree)) == tree."""
    import celpy.celparser as cp
    try:
        s = cp.tree_dump(tree)
    except Exception as ex:  # noqa
        return (f"raises-{type(ex).__name__}", None)
    if not isinstance(s, str):
        return ("non-text", repr(s))
    o = rparse(s)
    if o[0] == "P":
        return ("reparse-rejected", s)
    if o[0] == "X":
        return (f"reparse-raises-{o[1]}", s)
    return ("ok", s) if o[1] == tree else ("tree-differs", s)


# ---- term utilities ---------------------------------------------------------------------------------
def mapterm(t, f):
    """Rebuild t bottom-up, passing every node (and every None leaf of a shape) through f."""
    if t is None:
        return f(None)
    k, m = t[0], lambda x: mapterm(x, f)
    if k in ("id", "lit", "dotid"):
        r = t
    elif k == "list":
        r = (k, tuple(m(x) for x in t[1]))
    elif k == "map":
        r = (k, tuple((m(x), m(y)) for x, y in t[1]))
    elif k in ("call", "dotcall0"):
        r = (k, t[1], tuple(m(x) for x in t[2]))
    elif k == "cond":
        r = (k, m(t[1]), m(t[2]), m(t[3]))
    elif k == "bin":
        r = (k, t[1], m(t[2]), m(t[3]))
    elif k in ("not", "neg"):
        r = (k, m(t[1]))
    elif k == "dot":
        r = (k, m(t[1]), t[2])
    elif k == "dotcall":
        r = (k, m(t[1]), t[2], tuple(m(x) for x in t[3]))
    elif k == "index":
        r = (k, m(t[1]), m(t[2]))
    elif k == "msg":
        r = (k, m(t[1]), tuple((n, m(v)) for n, v in t[2]))
    else:
        raise runner.HarnessError(f"not a term: {t!r}")
    return f(r)


def totuple(x):
    return tuple(totuple(i) for i in x) if isinstance(x, list) else x


def head(t):
    if not isinstance(t, tuple) or not t or not isinstance(t[0], str):
        return "seq" if isinstance(t, tuple) else repr(t)
    return t[0] + (t[1] if t[0] == "bin" else ":" + str(t[1]) if t[0] in ("lit", "?", "?token", "?name") else "")


CLASS = {1: "or", 2: "and", 3: "rel", 4: "add", 5: "mul"}


def coarse(h):
    """Observed side of a signature: binary operators by precedence class, so one defect gives few signatures."""
    return "bin:" + CLASS[celast.LEVEL[h[3:]]] if h.startswith("bin") and h[3:] in celast.LEVEL else h


def mismatch(e, o):
    """Heads of the first (pre-order) node where expected and observed terms differ."""
    if e == o:
        return None
    if not (isinstance(e, tuple) and isinstance(o, tuple)) or head(e) != head(o) or len(e) != len(o):
        return head(e), head(o)
    for x, y in zip(e, o):
        if x != y:
            if isinstance(x, tuple) and isinstance(y, tuple):
                return mismatch(x, y)
            return f"{head(e)}.{x}", f"{head(o)}.{y}"
    return head(e), head(o)


def unop(k, x, inner=A_):
    return {"not": lambda: ("not", x), "neg": lambda: ("neg", x), "dot": lambda: ("dot", x, "f"),
            "dotcall": lambda: ("dotcall", x, "f", (inner,)), "index": lambda: ("index", x, inner),
            "msg": lambda: ("msg", x, (("f", inner),))}[k]()


# ---- shapes -----------------------------------------------------------------------------------------
@lru_cache(None)
def nshapes(n):
    """Closed-form recurrence, independent of the generator below."""
    if n == 0:
        return 1
    two = sum(nshapes(i) * nshapes(n - 1 - i) for i in range(n))
    three = sum(nshapes(i) * nshapes(j) * nshapes(n - 1 - i - j) for i in range(n) for j in range(n - i))
    return len(UNOPS) * nshapes(n - 1) + len(BINOPS) * two + three


def productions(n):
    """Top-level productions of shapes with n >= 1 operators: (key, size)."""
    out = [(("u", k), nshapes(n - 1)) for k in UNOPS]
    out += [(("b", op, i), nshapes(i) * nshapes(n - 1 - i)) for op in BINOPS for i in range(n)]
    out += [(("c", i, j), nshapes(i) * nshapes(j) * nshapes(n - 1 - i - j)) for i in range(n) for j in range(n - i)]
    return out


@lru_cache(None)
def shapes(n):
    return (None,) if n == 0 else tuple(s for key, _ in productions(n) for s in production(n, key))


def production(n, key):
    if key[0] == "u":
        return (unop(key[1], s, None) for s in shapes(n - 1))
    if key[0] == "b":
        return (("bin", key[1], l, r) for l in shapes(key[2]) for r in shapes(n - 1 - key[2]))
    i, j = key[1], key[2]
    return (("cond", c, x, y) for c in shapes(i) for x in shapes(j) for y in shapes(n - 1 - i - j))


def fill(shape, rot, atoms=ATOMS):
    j = [rot]

    def f(node):
        if node is None:
            j[0] += 1
            return atoms[(j[0] - 1) % len(atoms)]
        return node
    return mapterm(shape, f)


def terms1():
    """Every term with at most one operator over every tuple of atoms."""
    for x in ATOMS:
        yield x
    for k in UNOPS:
        for x in ATOMS:
            for y in (ATOMS if k in INNER else (None,)):
                yield unop(k, x, y)
    for op in BINOPS:
        for x in ATOMS:
            for y in ATOMS:
                yield ("bin", op, x, y)
    for c in ATOMS:
        for x in ATOMS:
            for y in ATOMS:
                yield ("cond", c, x, y)


N_TERMS1 = NA + 3 * NA + 3 * NA ** 2 + len(BINOPS) * NA ** 2 + NA ** 3

# ---- keyword positions / container contexts ---------------------------------------------------------
KW_NAMES = [LIT["true"], LIT["false"], LIT["null"]] + [ID(n) for n in ("truex", "falsex", "nullx", "_true", "_null", "true_", "True", "NULL", "nul", "trueFalse")]
C_, X_ = ID("c"), ID("x")
POSITIONS = ([lambda k, op=op: ("bin", op, k, B_) for op in BINOPS] + [lambda k, op=op: ("bin", op, A_, k) for op in BINOPS] + [
    lambda k: k, lambda k: ("cond", k, A_, B_), lambda k: ("cond", C_, k, B_), lambda k: ("cond", C_, A_, k),
    lambda k: ("not", k), lambda k: ("neg", k), lambda k: ("dot", k, "f"), lambda k: ("dotcall", k, "f", (A_,)),
    lambda k: ("index", k, A_), lambda k: ("msg", k, (("f", A_),)), lambda k: ("index", A_, k), lambda k: ("dotcall", A_, "f", (k,)),
    lambda k: ("dotcall", A_, "f", (B_, k)), lambda k: ("call", "f", (k,)), lambda k: ("call", "f", (A_, k)), lambda k: ("dotcall0", "f", (k,)),
    lambda k: ("msg", A_, (("f", k),)), lambda k: ("msg", A_, (("f", B_), ("g", k))), lambda k: ("list", (k,)), lambda k: ("list", (A_, k)),
    lambda k: ("map", ((k, A_),)), lambda k: ("map", ((A_, k),)), lambda k: ("map", ((A_, B_), (k, C_))), lambda k: ("map", ((A_, B_), (C_, k)))])
N_KEYWORDS = (2 * len(BINOPS) + 24) * len(KW_NAMES)

# ---- the three literal words in *name* positions ------------------------------------------------------
# "true, false and null are always literals": where the grammar wants a name (field after '.', root-scoped name,
# method / function name, message field label) the three words are not names, their look-alikes are.
NAME_TEMPLATES = ("x.{}", ".{}", "x.{}()", "x.{}(1)", "x.{}.y", "x.y.{}", "M{{{}: 1}}", "{}(1)", ".{}(1)", "has(x.{})", "[x.{}]", "x.{} + 1")   # (not W{f: 1}: there a literal is a receiver, which the grammar allows)
NAME_WORDS = ("true", "false", "null", "truex", "nullx", "_null", "True", "NULL", "nul", "in", "int")
N_NAMEPOS = len(NAME_TEMPLATES) * len(NAME_WORDS)


def name_position_shard(task):
    part = runner.Part()
    for tpl in NAME_TEMPLATES:
        for w in NAME_WORDS:
            text = tpl.format(w)
            literal = w in ("true", "false", "null")
            r = rparse(text)
            part.case()
            part.outcome(f"name-position:{'literal-word' if literal else 'identifier'}:{r[0]}")
            if r[0] == "X":
                part.violation("parser-exception", f"parse:name-position:{tpl}:{r[1]}", {"what": "namepos", "text": text}, f"{text!r}: the parser raised {r[1]}")
            elif literal and r[0] == "T":
                part.violation("accepted", f"parse:literal-word-accepted-as-a-name:{w}:{tpl.format('W')}", {"what": "namepos", "text": text},
                               f"{text!r} parses, with {w!r} read as a name; {w} is always a literal")
            elif not literal and r[0] == "P":
                part.violation("rejected", f"parse:identifier-rejected:{w}:{tpl.format('W')}", {"what": "namepos", "text": text},
                               f"{text!r} is rejected at {r[1]}:{r[2]}; {w!r} is an ordinary identifier")
    part.space("literal words in name positions", N_NAMEPOS, N_NAMEPOS)
    return part


ELEMS = (A_, B_, LIT["1"])
FIELDS = ("f", "g", "h")


def container(kind, n):
    es = ELEMS[:n]
    return {"list": lambda: ("list", es), "map": lambda: ("map", tuple((e, ELEMS[(i + 1) % 3]) for i, e in enumerate(es))),
            "call": lambda: ("call", "f", es), "dotcall": lambda: ("dotcall", X_, "f", es), "dotcall0": lambda: ("dotcall0", "f", es),
            "msg": lambda: ("msg", ID("M"), tuple(zip(FIELDS, es)))}[kind]()


CONTEXTS = [lambda k: k, lambda k: ("bin", "+", k, A_), lambda k: ("bin", "+", A_, k), lambda k: ("list", (k,)), lambda k: ("list", (A_, k)),
            lambda k: ("call", "g", (k,)), lambda k: ("dot", k, "g"), lambda k: ("cond", A_, k, B_), lambda k: ("map", ((k, A_),)),
            lambda k: ("map", ((A_, k),)), lambda k: ("msg", ID("N"), (("f", k),)), lambda k: ("not", k), lambda k: ("index", k, A_),
            lambda k: ("index", A_, k)]
KINDS = ("list", "map", "call", "dotcall", "dotcall0", "msg")
N_CONTAINERS = len(KINDS) * 4 * len(CONTEXTS)


def dup_containers():
    """Aggregates whose entries repeat: the same key text twice (legal syntax; only evaluation rejects it), the same field
    name twice, the same element twice, key equal to value.  A dump that pairs entries through a mapping loses them."""
    one = LIT["1"]
    out = [("map", ((A_, B_), (A_, one))), ("map", ((A_, A_), (A_, A_))), ("map", ((A_, B_), (B_, A_), (A_, one))), ("map", ((one, A_), (one, B_))), ("map", ((LIT['"s"'], A_), (LIT['"s"'], B_))),
           ("map", ((A_, B_), (B_, B_))), ("msg", ID("M"), (("f", A_), ("f", B_))), ("msg", ID("M"), (("f", A_), ("g", A_), ("f", one))), ("msg", ID("M"), (("f", A_), ("f", A_))),
           ("list", (A_, A_)), ("list", (A_, B_, A_)), ("call", "f", (A_, A_)), ("dotcall", X_, "f", (A_, A_)), ("dotcall0", "f", (A_, A_))]
    return out


N_DUP_CONTAINERS = len(dup_containers()) * len(CONTEXTS)

# ---- adjacent-operator forms (text) -----------------------------------------------------------------
U_, M_ = ("!", "-"), (".f", ".f(x)", "[x]", "{f: x}")
FORMS = [
    ("a o1 b o2 c", "a {} b {} c", (BINOPS, BINOPS)), ("a o1 b o2 c o3 d", "a {} b {} c {} d", (BINOPS, BINOPS, BINOPS)),
    ("a o1 (b o2 c)", "a {} (b {} c)", (BINOPS, BINOPS)), ("(a o1 b) o2 c", "(a {} b) {} c", (BINOPS, BINOPS)),
    ("u a o b", "{}a {} b", (U_, BINOPS)), ("a o u b", "a {} {}b", (BINOPS, U_)), ("u (a o b)", "{}(a {} b)", (U_, BINOPS)),
    ("u1 u2 a", "{}{}a", (U_, U_)), ("u1 u2 u3 a", "{}{}{}a", (U_, U_, U_)), ("u1 (u2 a)", "{}({}a)", (U_, U_)),
    ("a o b M", "a {} b{}", (BINOPS, M_)), ("(a o b) M", "(a {} b){}", (BINOPS, M_)), ("a M o b", "a{} {} b", (M_, BINOPS)),
    ("u a M", "{}a{}", (U_, M_)), ("(u a) M", "({}a){}", (U_, M_)), ("a M1 M2", "a{}{}", (M_, M_)), ("a M1 M2 M3", "a{}{}{}", (M_, M_, M_)),
    ("a o1 u b o2 c", "a {} {}b {} c", (BINOPS, U_, BINOPS)), ("a o1 b M o2 c", "a {} b{} {} c", (BINOPS, M_, BINOPS)),
    ("c ? x o y : z", "c ? x {} y : z", (BINOPS,)), ("x o y ? a : b", "x {} y ? a : b", (BINOPS,)), ("c ? x : y o z", "c ? x : y {} z", (BINOPS,)),
    ("a o (c ? x : y)", "a {} (c ? x : y)", (BINOPS,)), ("(c ? x : y) o a", "(c ? x : y) {} a", (BINOPS,)),
    ("u c ? x : y", "{}c ? x : y", (U_,)), ("c ? u x : y", "c ? {}x : y", (U_,)), ("c ? x : u y", "c ? x : {}y", (U_,)), ("u (c ? x : y)", "{}(c ? x : y)", (U_,)),
    ("c M ? x : y", "c{} ? x : y", (M_,)), ("c ? x M : y", "c ? x{} : y", (M_,)), ("c ? x : y M", "c ? x : y{}", (M_,)), ("(c ? x : y) M", "(c ? x : y){}", (M_,)),
    # numeric-literal lexing the language definition leaves ambiguous: counted, never compared
    ("unspec-lexical", "{}", (("-1", "-1[a]", "-1.f", "1.f", "a-1", "a -1", "a - -1", "--1", "!-1", "a ? -1 : 1.f", "a.true", "1.0.f"),)),
    ("fixed", "{}", (("c ? x : d ? y : z", "a || b ? x : y ? u : w", "a ? b || c : d", "a ? b && c || d : e", "(c ? x : y) ? u : w",
                      "c ? (d ? x : y) : z", "a ? b : c ? d : e ? g : h", "a[c ? x : y]", "f(c ? x : y)", "f(a, c ? x : y)", "[c ? x : y]",
                      "{c ? x : y : z}", "{k: c ? x : y}", "a.f(c ? x : y)", "M{f: c ? x : y}", "(c ? x : y)", "((a))", "a[b || c]", "[a || b, c && d]",
                      "{a || b: c in d}", "c ? x : (y)", "(c) ? (x) : (y)"),)),
    # the middle operand of ?: is a ConditionalOr: the CEL grammar rejects an unparenthesised ?: there
    ("must-reject", "{}", (("c ? d ? x : y : z", "a ? b ? c : d : e ? g : h", "a || b ? c ? d : e : g", "a ? b ? c ? d : e : g : h",
                            "c ? d ? x : y : z ? u : w", "[c ? d ? x : y : z]", "f(c ? d ? x : y : z)"),)),
]
N_ADJACENT = sum(math.prod(len(s) for s in slots) for _, _, slots in FORMS)


def adjacent_texts():
    for name, tpl, slots in FORMS:
        for combo in itertools.product(*slots):
            yield name, tpl.format(*combo)


# ---- whitespace -------------------------------------------------------------------------------------
WS = {"space": " ", "newline": "\n", "mixed": "\t\r\f ", "comment": " //c\n"}
WS_ORDER = ("comment", "newline", "mixed", "space", "empty")
EDGE = [(w, "") for w in WS.values()] + [("", w) for w in WS.values()] + [("", " //c")]
MAXTOK = {"quick": 5, "thorough": 6}


def gap_choices(toks):
    return [list(WS.values()) + ([""] if celast.separable(toks[i], toks[i + 1]) else []) for i in range(len(toks) - 1)]


@lru_cache(None)
def ws_bases(maxtok):
    out = []
    for t in itertools.chain(terms1(), (fill(s, 0, ONE_TOKEN) for s in shapes(2))):
        toks, glue = celast.tokens(t)
        if len(toks) <= maxtok:
            out.append((t, tuple(toks), tuple(glue)))
    return out


def ws_cardinality(maxtok):
    return sum(math.prod(4 + celast.separable(x, y) for x, y in zip(toks, toks[1:])) + len(EDGE) for _, toks, _ in ws_bases(maxtok))


# ---- checks -----------------------------------------------------------------------------------------
def ref_must_be(text, term):
    try:
        got = celast.parse(text)
    except (celast.Reject, celast.Unspec) as ex:
        got = (type(ex).__name__, str(ex))
    if got != (term, set()):
        raise runner.HarnessError(f"printer and reference parser disagree on {text!r}: {got!r} vs {term!r}")


MARK = "zz9"                               # identifier used nowhere else: `[]` -> `[zz9]`
HYPS = [("empty-list_lit", lambda n: ("list", (ID(MARK),)) if n == ELIST else n),
        ("empty-map_lit", lambda n: ("map", ((A_, B_),)) if n == EMAP else n),
        ("int-literal-before-dot", lambda n: (n[0], ID("n")) + n[2:] if n[0] in ("dot", "dotcall") and n[1][:2] == ("lit", "INT_LIT") else n),
        ("multi-field-message", lambda n: ("msg", n[1], n[2][:1]) if n[0] == "msg" and len(n[2]) > 1 else n)]


def dump_cause(term, printer):
    """Root-cause attribution by term surgery.  Apply every applicable rewrite (empty list -> [a], empty
    map -> {a: b}, integer receiver of `.` -> identifier, message -> its first field); if the rewritten
    term, printed the same way, round-trips, drop the rewrites one at a time in the fixed order: the first
    one that cannot be dropped names the signature (a later one is reported once the earlier is repaired)."""
    def ok(hyps):
        t = term
        for _, f in hyps:
            t = mapterm(t, f)
        o = rparse(printer(t))
        return o[0] == "T" and roundtrip(o[1])[0] == "ok"
    usable = [(n, f) for n, f in HYPS if mapterm(term, f) != term]
    if not usable or not ok(usable):
        return "unattributed", []
    present = [n for n, _ in usable]
    while len(usable) > 1:
        if not ok(usable[1:]):
            break
        usable = usable[1:]
    return usable[0][0], present


DIAG_PER_CLASS = 25
STYLES = {"min": celast.minimal, "full": celast.full, "paren-all": celast.fullest}


def check_dump(part, term, style, text, tree, space):
    mode, dumped = roundtrip(tree)
    part.extra["dump_round_trips"] += 1
    if mode == "ok":
        part.extra["dump_round_trips_ok"] += 1
        return
    usable = tuple(n for n, f in HYPS if mapterm(term, f) != term)
    part.extra[f"diag:{mode}:{'+'.join(usable)}"] += 1
    if part.extra[f"diag:{mode}:{'+'.join(usable)}"] > DIAG_PER_CLASS:
        # like Part.violation beyond its cap: counted, not stored.  Every (mode, suspect constructs) class
        # has its first DIAG_PER_CLASS members of each shard diagnosed and stored.
        part.violation_count += 1
        part.outcome("dump:failed (counted; attribution sampled per shard)")
        return
    cause, present = dump_cause(term, STYLES[style])
    what = mode
    if cause == "empty-list_lit" and isinstance(dumped, str):
        # the one defect "an empty list literal is rendered as the empty string": the dump of the same term
        # with every `[]` replaced by `[zz9]`, minus the text `[zz9]`, is exactly the observed dump
        import celpy.celparser as cp
        o = rparse(STYLES[style](mapterm(term, HYPS[0][1])))
        try:
            marked = cp.tree_dump(o[1]) if o[0] == "T" else None
        except Exception:  # noqa
            marked = None
        if isinstance(marked, str) and marked.replace(f"[({MARK})]", "").replace(f"[{MARK}]", "") == dumped:
            what = "rendered-as-empty-string"
    part.outcome(f"dump:{cause}")
    part.violation("dump-round-trip", f"dump:{cause}:{what}", {"check": "dump", "text": text, "space": space},
                   f"parse({text!r}) dumps to {dumped!r}: {mode} (expected a text that re-parses to the same tree; suspect constructs present: {present})")


def check_term(part, term, space, styles=("min", "full"), dump=True):
    """Oracles (i), (ii), (iv) for one term; one case."""
    part.case()
    part.outcome("term:" + head(term).split(":")[0])
    for style in styles:
        text = STYLES[style](term)
        ref_must_be(text, term)
        o = rparse(text)
        part.extra["parser_calls"] += 1
        if o[0] != "T":
            part.violation("rejected", f"parse:{style}:rejected:{head(term)}", {"check": "term", "term": term, "space": space},
                           f"{text!r} ({style}) is CEL for {term!r} but the parser gives {o!r}")
            continue
        got = celast.abstract(o[1])
        if got != term:
            e, g = mismatch(term, got)
            part.violation("wrong-tree", f"parse:{style}:{e}->{coarse(g)}", {"check": "term", "term": term, "space": space},
                           f"{text!r} ({style}): expected {term!r}, parser built {got!r}")
        if dump:
            check_dump(part, term, style, text, o[1], space)


ALL3 = ("min", "full", "paren-all")


def check_adjacent(part, name, text):
    try:
        exp, flags = celast.parse(text)
    except celast.Reject:
        exp, flags = "reject", set()
    except celast.Unspec:
        part.case(nontrivial=False)
        part.outcome("adjacent:unspec:" + ("accepted" if rparse(text)[0] == "T" else "not-accepted"))
        return
    if (exp == "reject") != (name == "must-reject"):
        raise runner.HarnessError(f"reference parser verdict on template {name!r} text {text!r}: {exp!r}")
    o = rparse(text)
    part.extra["parser_calls"] += 1
    w = {"check": "adjacent", "form": name, "text": text}
    if flags:                              # `!-a`: celpy's documented superset of the CEL unary rule
        part.case(nontrivial=o[0] == "T")
        part.outcome("adjacent:extension-" + ("accepted" if o[0] == "T" else "rejected"))
        if o[0] != "T":
            return
    else:
        part.case()
        part.outcome("adjacent:" + ("reject" if exp == "reject" else head(exp).split(":")[0]))
    if exp == "reject":
        if o[0] == "T":
            part.violation("accepted-non-cel", "adjacent:ternary-middle-operand:accepted", w,
                           f"{text!r} is not derivable from the CEL grammar (conditional-or middle operand) but parsed to {celast.abstract(o[1])!r}")
        elif o[0] == "X":
            part.violation("exception", f"adjacent:raises-{o[1]}", w, f"{text!r}: parser raised {o[1]}")
        return
    if o[0] != "T":
        part.violation("rejected", f"adjacent:rejected:{head(exp)}", w, f"{text!r} is CEL for {exp!r} but the parser gives {o!r}")
        return
    got = celast.abstract(o[1])
    if got != exp:
        e, g = mismatch(exp, got)
        part.violation("wrong-tree", f"adjacent:{e}->{coarse(g)}", w, f"{text!r}: expected {exp!r}, parser built {got!r}")


def ws_verdict(base_tree, text):
    o = rparse(text)
    if o[0] != "T":
        return "rejected" if o[0] == "P" else f"raises-{o[1]}"
    return "ok" if o[1] == base_tree else "tree-differs"


def check_ws(part, term, toks, glue):
    base_text = celast.join(toks, glue)
    b = rparse(base_text)
    if b[0] != "T" or celast.abstract(b[1]) != term:
        part.notes.append(f"whitespace base {base_text!r} not parsed as the term (reported by terms1 / shapes2)")
        b = None
    choices = gap_choices(toks)
    names = {v: k for k, v in WS.items()}
    names[""] = "empty"
    variants = [(celast.join(toks, gaps=g), "", "") for g in itertools.product(*choices)] + [(le + base_text + tr, le, tr) for le, tr in EDGE]
    for text, lead, trail in variants:
        ref_must_be(text, term)            # the variant is the same CEL term for the reference tokenizer
        part.case()
        if b is None:
            part.outcome("ws:no-base")
            continue
        part.extra["parser_calls"] += 1
        v = ws_verdict(b[1], text)
        part.outcome("ws:" + v)
        if v == "ok":
            continue
        if lead or trail:
            cause = ("leading-" if lead else "trailing-") + ("comment-at-eof" if trail == " //c" else names[lead or trail])
        else:                              # attribute to the first whitespace kind that fails when used in every gap
            cause = "combination"
            for k in WS_ORDER:
                uni = [("" if "" in c else " ") if k == "empty" else WS[k] for c in choices]
                if ws_verdict(b[1], celast.join(toks, gaps=uni)) != "ok":
                    cause = k
                    break
        part.violation("whitespace", f"ws:{cause}:{v}", {"check": "ws", "base": base_text, "variant": text},
                       f"{text!r} must parse like {base_text!r}: {v}")
    return len(variants)


# ---- shards -----------------------------------------------------------------------------------------
def small_shard(task):
    what, lo, hi, maxtok = task
    part = runner.Part()
    if what == "adjacent":
        items = list(adjacent_texts())[lo:hi]
        for name, text in items:
            check_adjacent(part, name, text)
        part.space("adjacent-operators", 0, len(items))
    elif what == "terms1":
        items = list(terms1())[lo:hi]
        for t in items:
            check_term(part, t, "terms1", ALL3)
        part.space("terms<=1op x all atoms", 0, len(items))
    elif what == "keywords":
        items = [p(k) for p in POSITIONS for k in KW_NAMES][lo:hi]
        for t in items:
            check_term(part, t, "keywords", ALL3)
        part.space("keyword positions", 0, len(items))
    elif what == "containers":
        items = [c(container(k, n)) for k in KINDS for n in range(4) for c in CONTEXTS][lo:hi]
        for t in items:
            check_term(part, t, "containers", ALL3)
        part.space("container arities", 0, len(items))
    elif what == "dup-containers":
        items = [c(k) for k in dup_containers() for c in CONTEXTS][lo:hi]
        for t in items:
            check_term(part, t, "dup-containers", ALL3)
        part.space("containers with repeated entries", 0, len(items))
    elif what == "ws":
        n = 0
        for t, toks, glue in ws_bases(maxtok)[lo:hi]:
            n += check_ws(part, t, list(toks), list(glue))
        part.space("whitespace variants", 0, n)
    if lo == 0 and what in ("terms1", "adjacent"):
        part.sample({"space": what, "first": repr(items[0]), "last_of_shard": repr(items[-1])})
    return part


# ---- literal spellings in every syntactic position: pure dump round trip (no reference parser needed) ----
LIT_SPELLINGS = [("neg-int", "-1"), ("neg-int2", "-42"), ("neg-double", "-1.5"), ("double", "1.5"), ("double-e", "1e3"), ("double-dot", ".5"), ("neg-double-e", "-1e3"), ("neg-double-e2", "-12e-3"), ("double-E", "1E+3"), ("neg-double-dot", "-.5"), ("uint", "1u"),
                 ("hex", "0x1F"), ("neg-hex", "-0x1f"), ("dq-string", '"s"'), ("sq-string", "'s'"), ("bytes", 'b"x"'), ("raw", 'r"a"'), ("triple", '"""m"""'),
                 ("escape", '"\\n\\""'), ("ident-digit", "x1"), ("bool", "true"), ("null", "null")]
LIT_POSITIONS = [("alone", "{X}"), ("select", "{X} .f"), ("method", "{X} .f(a)"), ("method0", "{X} .f()"), ("index", "{X}[a]"), ("index-arg", "a[{X}]"), ("add-right", "a + {X}"),
                 ("add-left", "{X} + a"), ("sub-right", "a - {X}"), ("mul-right", "a * {X}"), ("not", "!{X}"), ("neg", "- {X}"), ("list", "[{X}]"), ("list2", "[a, {X}]"),
                 ("map-key", "{{{X}: a}}"), ("map-value", "{{a: {X}}}"), ("call-arg", "f({X})"), ("method-arg", "a.f({X})"), ("cond-c", "{X} ? a : b"), ("cond-l", "a ? {X} : b"),
                 ("cond-r", "a ? b : {X}"), ("in-left", "{X} in a"), ("rel-right", "a < {X}"), ("field", "M{{f: {X}}}"), ("paren", "({X})"), ("paren-select", "({X}).f"),
                 ("or-right", "a || {X}"), ("macro-body", "a.map(v, {X})")]


def literal_texts(levels):
    out = []
    for cls, x in LIT_SPELLINGS:
        for pname, tpl in LIT_POSITIONS:
            t1 = tpl.format(X=x)
            out.append((cls, pname, t1))
            if levels >= 2:
                for p2name, tpl2 in LIT_POSITIONS:
                    if p2name in ("alone",):
                        continue
                    out.append((cls, f"{pname}>{p2name}", tpl2.format(X="(" + t1 + ")" if pname not in ("alone", "paren", "list", "list2", "call-arg", "map-key", "map-value") else t1)))
    return out


def literal_shard(task):
    lo, hi, levels = task
    part = runner.Part()
    items = literal_texts(levels)[lo:hi]
    for cls, pos, text in items:
        o = rparse(text)
        if o[0] != "T":
            # every spelling of LIT_SPELLINGS is a legal CEL literal and every position takes any primary
            part.case()
            part.outcome("literal:rejected")
            part.violation("rejected", f"parse:literal-spelling:{cls}:{pos.split('>')[-1]}:rejected", {"check": "dump", "text": text, "space": "literals"},
                           f"{text!r} is CEL (literal spelling {cls} in position {pos}) but the parser rejects it: {o}")
            continue
        part.case()
        mode, dumped = roundtrip(o[1])
        part.outcome("literal:" + mode)
        if mode != "ok":
            part.violation("dump-roundtrip", f"dump:literal-spelling:{cls}:{pos.split('>')[0] if mode.startswith('raises') else pos.split('>')[-1]}:{mode}",
                           {"check": "dump", "text": text, "space": "literals"}, f"parse({text!r}) dumps to {dumped!r}: {mode}")
    part.space("literal spellings x positions (dump round trip)", 0, len(items))
    return part


def shape_shard(task):
    n, key, lo, hi, rots = task
    part = runner.Part()
    cnt = 0
    for s in itertools.islice(production(n, key), lo, hi):
        for r in rots:
            check_term(part, fill(s, r), f"shapes{n}")
            cnt += 1
    part.space(f"shapes with {n} operators x {len(rots)} rotation(s)", 0, cnt)
    if lo == 0 and key == ("u", "not"):
        part.sample({"space": f"shapes{n}", "first": celast.minimal(fill(next(iter(production(n, key))), rots[0]))})
    return part


# ---- pair histories: a text parsed alone and after every other text in one process (mc/pairhist.py) -----------
# The alphabet holds texts that differ only where a careless cache key would not look: blanks inside a literal, a
# comment that ends at a line break or at the end of the text, letter case, a line break between tokens, parentheses.
PH_TEXTS = ['x == "a  b" || y', 'x == "a b" || y', 'x == "a\tb" || y', "x == 'a  b' || y", 'a // c + b * 2', 'a // c\n + b * 2', 'a + b * 2', 'a +\nb * 2', 'a + b*2', '(a + b) * 2', 'a + (b * 2)',
            'A + b * 2', 'a + B * 2', '"""a\n\nb"""', '"""a\nb"""', '"""a b"""', 'b"a  b"', 'b"a b"', 'r"a  b"', 'f(a ,b)', 'f(a, b)', 'f(a)(b)', 'x.f (a)', 'x . f(a)', 'x.F(a)', '{a: 1, a: 2}', '{a: 2}', '{a: 1, b: 2}',
            '[a, a]', '[a]', 'a ? b : c', 'a ? b : c // d', 'a ?b: c', 'true', 'True', ' true ', 'a && b || c', 'a && (b || c)', '1', '1 ', '01', '-1', '- 1', '1u', '1 u']


def _ph_tree(o):
    if o[0] != "T":
        return tuple(o)
    t = o[1]

    def flat(n):
        return (str(n.data), tuple(flat(c) for c in n.children)) if hasattr(n, "children") else (str(getattr(n, "type", "?")), str(n))
    try:
        import celpy.celparser as cp
        d = cp.tree_dump(t)
    except Exception as ex:  # noqa
        d = f"raises-{type(ex).__name__}"
    return ("T", runner.jhash(flat(t)), d)


def ph_terms():
    return [[cls, t] for cls in ("lark", "transpiler") for t in PH_TEXTS]


def ph_step(term):
    """Parse with a fresh CELParser of the given tree class; outcome = digest of the tree and its dump (or the rejection)."""
    import celpy.celparser as cp
    import lark
    from celpy.evaluation import TranspilerTree
    try:
        p = cp.CELParser(tree_class=lark.Tree if term[0] == "lark" else TranspilerTree)
        o = ("T", p.parse(term[1]))
    except cp.CELParseError as ex:
        o = ("P", ex.line, ex.column)
    except Exception as ex:  # noqa
        o = ("X", type(ex).__name__)
    return _ph_tree(o)


def ph_label(term):
    return f"[{term[0]}] {term[1]!r}"


def ph_outcome_label(o):
    return o[0]


def pinned_validation(ctx):
    """Soundness rule 2: the dump texts pinned by /repo/tests/test_parser.py must be, for the reference
    parser, the same term as their source (empty-list sources, which the tests call degenerate, excepted)."""
    import ast
    import os
    from .. import repo
    path = os.path.join(repo.REPO, "tests", "test_parser.py")
    try:
        mod = ast.parse(open(path).read())
    except (OSError, SyntaxError) as ex:
        ctx.part.notes.append(f"pinned validation skipped: {ex}")
        return
    srcs, ok = {}, 0
    for node in ast.walk(mod):
        if isinstance(node, ast.Assign) and isinstance(node.value, ast.Call) and getattr(node.value.func, "attr", "") == "parse" \
                and node.value.args and isinstance(node.value.args[0], ast.Constant) and isinstance(node.targets[0], ast.Name):
            srcs[node.targets[0].id] = node.value.args[0].value
    for node in ast.walk(mod):
        if isinstance(node, ast.Compare) and isinstance(node.left, ast.Call) and getattr(node.left.func, "attr", getattr(node.left.func, "id", "")) in ("display", "tree_dump") \
                and isinstance(node.comparators[0], ast.Constant) and node.left.args and isinstance(node.left.args[0], ast.Name):
            src, dumped = srcs.get(node.left.args[0].id), node.comparators[0].value
            if src is None or "[]" in src:
                continue
            try:
                a, b = celast.parse(src)[0], celast.parse(dumped)[0]
            except celast.Unspec:
                continue
            except celast.Reject as ex:
                raise runner.HarnessError(f"reference parser rejects a text pinned by tests/test_parser.py: {src!r} / {dumped!r}: {ex}")
            if a != b:
                raise runner.HarnessError(f"reference parser reads pinned source {src!r} and pinned dump {dumped!r} as different terms")
            ok += 1
    ctx.coverage_extra["pinned_dump_pairs_validated"] = ok


def run(ctx):
    celast.selftest()
    pinned_validation(ctx)
    kmax = 4 if ctx.thorough else 3
    for n in range(1, 4):                   # generator vs closed form, and distinctness
        if len(set(shapes(n))) != nshapes(n):
            raise runner.HarnessError(f"shape generator yields {len(set(shapes(n)))} distinct shapes with {n} operators, closed form {nshapes(n)}")
    texts = [t for _, t in adjacent_texts()]
    if len(set(texts)) != len(texts) or len(set(terms1())) != N_TERMS1:
        raise runner.HarnessError("enumeration is not duplicate-free")
    rots = {n: (tuple(range(NA)) if ctx.thorough and n <= 3 else (0,) if n == 4 else ROT_QUICK) for n in range(1, kmax + 1)}
    ctx.rule = (f"(1) {N_ADJACENT} operator-adjacency texts from {len(FORMS)} templates (all pairs and triples of the 14 binary operators, unary/binary, "
                "binary/member, unary/member, member chains, every ?: position, the rejected ?: middle operand) against the reference parser; "
                f"(2) every term with <= 1 operator over all tuples of {NA} atoms ({N_TERMS1}) and every operator shape with <= {kmax} operators "
                "(14 binary, ?:, !, -, .f, .f(.), [.], {f: .}) with leaves filled left-to-right from the atom alphabet starting at rotations "
                f"{ {n: list(r) for n, r in rots.items()} }, each printed minimally and fully parenthesised (<=1-operator terms, (4) and (5) also with every operand "
                "parenthesised): abstract(parse(text)) == term for each text (hence equal modulo paren nodes) and parse(tree_dump(tree)) == tree for each tree; (3) whitespace/comment variants of every "
                f"<=1-operator term and 2-operator shape (leaves from 6 one-token atoms) with <= {MAXTOK[ctx.tier]} tokens: each gap takes one of 4 whitespace/comment strings, or nothing where the tokens stay separate; (4) {len(KW_NAMES)} keyword/look-alike names x {len(POSITIONS)} primary positions; "
                f"(5) {len(KINDS)} container constructs x arity 0..3 x {len(CONTEXTS)} contexts. A case is one term (or one text in (1), one variant in (3)); "
                "all are non-trivial except texts the reference does not rule on (mixed `!-` chains rejected by the parser). Distinct by construction.")
    ctx.assumptions = ["atoms outside the 13-atom alphabet, operators applied more than " + str(kmax) + " deep, and numeric literal lexing (`-1`, `1.f`: printed `- 1`, `1 .f`) are not explored",
                       "14 binary operators (DESIGN.md says 15 in one place, 14 in another; the grammar has 14)",
                       "mixed unary chains (`!-a`) are outside the CEL grammar; celpy accepts them; compared only when accepted",
                       "acceptance of non-CEL text is checked only for the ?: middle operand, which the statement names",
                       "shapes with 4 operators use rotation 0 only; quick uses 4 of the 13 rotations"]
    maxtok = MAXTOK[ctx.tier]
    small = [("terms1", lo, hi, 0) for lo, hi in runner.shards(N_TERMS1, 16)] + [("containers", 0, N_CONTAINERS, 0), ("dup-containers", 0, N_DUP_CONTAINERS, 0), ("keywords", 0, N_KEYWORDS, 0)] \
        + [("adjacent", lo, hi, 0) for lo, hi in runner.shards(N_ADJACENT, 12)] + [("ws", lo, hi, maxtok) for lo, hi in runner.shards(len(ws_bases(maxtok)), 64)]
    big = []
    chunk = 1500 if not ctx.thorough else 6000
    for n in range(1, kmax + 1):           # simplest first, so the first witness of a signature is a small one
        for key, size in productions(n):
            per = max(1, chunk // len(rots[n]))
            big += [(n, key, lo, min(size, lo + per), rots[n]) for lo in range(0, size, per)]
    ctx.run_shards(small_shard, small)
    ctx.run_shards(shape_shard, big)
    lit_levels = 2
    n_lit = len(literal_texts(lit_levels))
    ctx.run_shards(literal_shard, [(lo, hi, lit_levels) for lo, hi in runner.shards(n_lit, 16)])
    ctx.run_shards(name_position_shard, [0])
    from .. import pairhist
    n_ph = pairhist.run(ctx, __name__)
    ctx.rule += (f" (6) {N_DUP_CONTAINERS} aggregates with repeated entries (same key text, same field name, same element) in every context. (7) pair histories: each of {len(ph_terms())} texts "
                 "(pairs that differ only by blanks inside a literal, by where a comment ends, by letter case, by parentheses; both tree classes) parsed alone and after every other one in "
                 "the same process, started from the pristine process state: tree and dump must be what the text gives alone.")
    card = {pairhist.SPACE: n_ph, "literal spellings x positions (dump round trip)": len(LIT_SPELLINGS) * (len(LIT_POSITIONS) + len(LIT_POSITIONS) * (len(LIT_POSITIONS) - 1)), "adjacent-operators": N_ADJACENT, "terms<=1op x all atoms": N_TERMS1, "keyword positions": N_KEYWORDS, "literal words in name positions": N_NAMEPOS,
            "container arities": N_CONTAINERS, "containers with repeated entries": N_DUP_CONTAINERS, "whitespace variants": ws_cardinality(maxtok)}
    for n in range(1, kmax + 1):
        card[f"shapes with {n} operators x {len(rots[n])} rotation(s)"] = nshapes(n) * len(rots[n])
    for name, s in ctx.part.spaces.items():
        s["cardinality"] = card.pop(name)
        s["bound"] = f"<= {kmax} operators" if name.startswith("shapes") else None
    if card:
        raise runner.HarnessError(f"sub-spaces never enumerated: {sorted(card)}")
    total = sum(s["cardinality"] for s in ctx.part.spaces.values())
    ctx.coverage_extra["expected_cases"] = total
    if ctx.part.evaluations != total:
        raise runner.HarnessError(f"enumerated {ctx.part.evaluations} cases, cardinality is {total}")


def replay(w):
    wit = w["witness"]
    if wit.get("space") == "pairhist":
        from .. import pairhist
        return pairhist.replay(w)
    part = runner.Part()
    print("replaying", wit)
    if wit["check"] == "term":
        check_term(part, totuple(wit["term"]), wit.get("space", "replay"), ALL3, dump=False)
    elif wit["check"] == "adjacent":
        check_adjacent(part, wit["form"], wit["text"])
    elif wit["check"] == "ws":
        b, v = rparse(wit["base"]), "base-rejected"
        if b[0] == "T":
            v = ws_verdict(b[1], wit["variant"])
        print(f"base {wit['base']!r} variant {wit['variant']!r}: {v} (expected: equal trees)")
        if v != "ok":
            part.violation("whitespace", w.get("sig", ""), wit, v)
    elif wit["check"] == "dump":
        o = rparse(wit["text"])
        if o[0] == "T":
            mode, dumped = roundtrip(o[1])
            print(f"parse({wit['text']!r}) -> tree_dump gives {dumped!r}; expected a text that re-parses to the same tree; observed: {mode}")
            if mode != "ok":
                part.violation("dump-round-trip", w.get("sig", ""), wit, mode)
        else:
            print(f"{wit['text']!r} no longer parses: {o!r}")
    for v in part.violations:
        print("  ", v["kind"], v["sig"], "-", v["detail"])
    print("REPRODUCED" if part.violations else "not reproduced")
    return 1 if part.violations else 0
