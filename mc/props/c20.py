"""C20 CLI output and exit status reflect the evaluation result (DESIGN.md section 3, C20).

Bounded-exhaustive over (a) `-n` expressions of the bool/int/string/list fragment (leaves, every
level-1 term, error leaves) with and without `-b`; (b) every token string up to a length bound
(syntax errors and their positions); (c) every `--arg` type name x {legal, legal, illegal} text;
(d) NDJSON streams: every sequence over an 8-document alphabet up to a length bound x 4
expressions x 5 option sets, plus `-s` on every document and its two-line spelling.

The real `celpy.__main__.main(argv)` is called in process with sys.stdin/stdout/stderr replaced by
io.StringIO objects.  The expected status/output is `mc.ref.cli` applied to the outcome of the
*API* evaluation of the same expression on the same input (interpreted runner), streams are judged
differentially against the one-document runs, a fixed list of cases is re-run (1) as the first
call in a fresh fork of a process that has only imported the library and (2) through a real
`python -m celpy` subprocess.
"""
import io
import json
import logging
import os
import re
import subprocess
import sys
import time
import traceback

from .. import celrun, outcome, repo, runner
from ..ref import UNSPEC, cli

LEVEL = "exploration"
PY = "/venv/bin/python"
SCRATCH = f"/tmp/c20/run-{os.getpid()}"  # cwd and HOME of the subprocesses; removed when the run ends
ERR_KEEP = 1500
# The names bound with --arg also exist in the process environment of every driven main() (in-process and subprocess):
# an explicit value, even an empty one, must win; the documented value-less forms read these.
ENV_VARS = {"x": "fromenv", "y": "7"}
os.environ.update(ENV_VARS)
_ADDR = re.compile(r"0x[0-9a-fA-F]+")

# ---------------------------------------------------------------------------------------------
# the enumerated spaces (pure data: nothing here touches the library)
# ---------------------------------------------------------------------------------------------
BOOLS = ["true", "false"]
INTS = ["0", "1", "-1", "2", "9223372036854775807", "-9223372036854775808"]
INTS3 = INTS[:3]
STRS = ['""', '"a"', '"é"', '"a\\"b"', "'\\n'", '"\U0001F600"']
STRS3 = STRS[:3]
LISTS = ["[]", "[1]", "[1, 2]", '[true, "a"]', "[[1]]"]
LISTS3 = LISTS[:3]
OTHERS = ["2u", "1.5", "null", 'b"ab"', '{"a": 1}', "{}"]
ERRS = ["1/0", "1 % 0", "[1][5]", '{"a": 1}.b', '{"a": 1}["b"]', 'int("x")', "9223372036854775807 + 1",
        "-9223372036854775808 - 1", "nope", "nope.x", '"a" < 1']
BOOL_ERRS = ["1/0 > 0", "nope"]
I_ARITH, I_CMP = ["+", "-", "*", "/", "%"], ["==", "!=", "<", "<=", ">", ">="]
B_OPS = ["&&", "||", "==", "!="]
S_METHODS = ['{}.contains("a")', '{}.startsWith("a")', '{}.endsWith("a")', '{}.matches("a")']
L_MACROS = ["{}.all(x, x == 1)", "{}.exists(x, x == 1)", "{}.exists_one(x, x == 1)", "{}.map(x, [x])", "{}.filter(x, x == 1)"]
IN_LEFT = ["1", "true", '"a"']
COND_ARMS = [("1", "2"), ('"a"', "[1]"), ("1/0", "2"), ("1", "1/0")]


def level1():
    out = [f"!({b})" for b in BOOLS + BOOL_ERRS] + [f"-({i})" for i in INTS]
    out += [f"{a} {op} {b}" for op in B_OPS for a in BOOLS for b in BOOLS]
    out += [t for op in ("&&", "||") for b in BOOLS for e in BOOL_ERRS for t in (f"{b} {op} {e}", f"{e} {op} {b}")]
    out += [f"({a}) {op} ({b})" for op in I_ARITH for a in INTS for b in INTS]
    out += [f"({a}) {op} ({b})" for op in I_CMP for a in INTS3 for b in INTS3]
    out += [f"{a} + {b}" for a in STRS for b in STRS]
    out += [f"{a} {op} {b}" for op in ("==", "<") for a in STRS3 for b in STRS3]
    out += [f"size({s})" for s in STRS] + [f"{s}.size()" for s in STRS] + [m.format(s) for m in S_METHODS for s in STRS]
    out += [f"{a} + {b}" for a in LISTS for b in LISTS]
    out += [f"{x} in {l}" for x in IN_LEFT for l in LISTS] + [f"{l}[{i}]" for l in LISTS for i in (0, 1)]
    out += [f"size({l})" for l in LISTS] + [f"{a} == {b}" for a in LISTS3 for b in LISTS3] + [m.format(l) for m in L_MACROS for l in LISTS]
    out += [f"{c} ? {a} : {b}" for c in BOOLS + BOOL_ERRS[:1] for a, b in COND_ARMS]
    return out


def level1_cardinality():
    nb, ni, ns, nl = len(BOOLS), len(INTS), len(STRS), len(LISTS)
    return ((nb + len(BOOL_ERRS)) + ni + len(B_OPS) * nb * nb + 2 * nb * len(BOOL_ERRS) * 2 + len(I_ARITH) * ni * ni
            + len(I_CMP) * len(INTS3) ** 2 + ns * ns + 2 * len(STRS3) ** 2 + 2 * ns + len(S_METHODS) * ns + nl * nl
            + len(IN_LEFT) * nl + 2 * nl + nl + len(LISTS3) ** 2 + len(L_MACROS) * nl + (nb + 1) * len(COND_ARMS))


def leaves():
    return BOOLS + INTS + STRS + LISTS + OTHERS + ERRS


def n_exprs(tier):
    l1 = level1()
    out = leaves() + l1
    if tier == "thorough":
        out += [f"[{t}]" for t in l1] + [f"({t}) == ({t})" for t in l1]
    return out


def n_exprs_cardinality(tier):
    return len(BOOLS) + len(INTS) + len(STRS) + len(LISTS) + len(OTHERS) + len(ERRS) + level1_cardinality() * (3 if tier == "thorough" else 1)


TOKENS = ["1", "x", "+", "-", "!", "(", ")", "[", "]", ",", ".", "?", ":", "{", "}", "&&", "==", "\n", "$", '"é"', "'"]


def tok_len(tier):
    return 4 if tier == "thorough" else 3


def tok_at(n, idx):
    ts = []
    for _ in range(n):
        ts.append(TOKENS[idx % len(TOKENS)])
        idx //= len(TOKENS)
    return " ".join(ts[::-1])


def tok_cases(tier, n, lo, hi):
    """Cases of the token strings with n tokens and raw index in [lo, hi), minus the texts that already are
    -n expressions.  Generated on demand: the thorough space is too large to keep as a list."""
    seen = _SEEN.get(tier)
    if seen is None:
        seen = _SEEN[tier] = set(n_exprs(tier))
    for idx in range(lo, hi):
        t = tok_at(n, idx)
        if t in seen:
            continue
        for b in (False, True):
            yield {"group": "tok", "mode": "null", "boolean": b, "argv": argv_for(["-n"] + (["-b"] if b else []), t), "stdin": "",
                   "api": {"text": t, "package": None, "var": None, "doc": None}}
        if n <= 2:
            yield {"group": "tok", "mode": "doc", "boolean": False, "argv": argv_for([], t), "stdin": DOCS[2] + "\n",
                   "api": {"text": t, "package": "jq", "var": "jq", "doc": DOCS[2]}}


_SEEN = {}


def tok_cardinality(tier):
    total = sum(len(TOKENS) ** n for n in range(1, tok_len(tier) + 1))
    tokset, overlap = set(TOKENS), 0
    for e in set(n_exprs(tier)):
        parts = e.split(" ")
        if 1 <= len(parts) <= tok_len(tier) and all(p in tokset for p in parts):
            overlap += 1
    return total - overlap


DOCS = ['{"x": true}', '{"x": false}', '{"x": 1}', '{"y": 1}', "[1]", "not json", "", '{"x": "é"}', '{"x": 1.0}', '{"x": "a\u2028b"}', '{"x": 9223372036854775808}']   # 1.0 == True == 1 in Python: value-keyed caches collide
TWO_LINE = ['{"x":\n true}', '{"x":\n false}', '{"x":\n 1}', '{"y":\n 1}', "[\n1]", "not\njson", "\n", '{"x":\n "é"}', '{"x":\n 1.0}', '{"x":\n "a\u2028b"}', '{"x":\n 9223372036854775808}']
OPTSETS = [([], "jq"), (["-b"], "jq"), (["-p", "pk"], "pk"), (["-d", "d"], "d"), (["-b", "-d", "d"], "d")]
DOC_EXPRS = [".x", ".x == true", ".x > 0", "{var}.x", "[1].map(v, {var}.x)"]   # the last: a macro whose body reads the document (a closure kept from an earlier document would show)
CONFIGS = [(opts, var, e.format(var=var)) for opts, var in OPTSETS for e in DOC_EXPRS]


def stream_len(tier):
    return 5 if tier == "thorough" else 4


def argv_for(opts, expr):
    return list(opts) + (["--"] if expr.startswith("-") else []) + [expr]


def cfg_api(cfg):
    opts, var, expr = cfg
    return {"text": expr, "package": None if "-d" in opts else var, "var": var}


_CASES = {}


def build_cases(tier):
    if tier not in _CASES:
        _CASES[tier] = _build_cases(tier)
    return _CASES[tier]


def _build_cases(tier):
    """Every non-stream case except the token strings (tok_cases): dict(group, mode, boolean, argv, stdin, api).  api = how to obtain the
    outcome through the library API ({text, package, var, doc}) or a pinned expectation ({"pinned": ...})."""
    cases = []
    for e in n_exprs(tier):
        for b in (False, True):
            cases.append({"group": "n", "mode": "null", "boolean": b, "argv": argv_for(["-n"] + (["-b"] if b else []), e), "stdin": "",
                          "api": {"text": e, "package": None, "var": None, "doc": None}})
    for name, (legal, illegal) in cli.ARG_TYPES.items():
        for text, jval, typed in legal:
            spec = f"x:{name}={text}"
            cases.append({"group": "arg", "mode": "null", "boolean": False, "argv": ["-n", "-a", spec, "x"], "stdin": "",
                          "api": {"pinned": [0, "free" if jval is UNSPEC else ["json", jval]]}})
            cases.append({"group": "arg", "mode": "null", "boolean": False, "argv": ["-n", "--arg", spec, typed], "stdin": "",
                          "api": {"pinned": [0, ["json", True]]}})
            cases.append({"group": "arg", "mode": "null", "boolean": True, "argv": ["-n", "-b", "-a", spec, typed], "stdin": "",
                          "api": {"pinned": [0, "free"]}})
        cases.append({"group": "arg", "mode": "null", "boolean": False, "argv": ["-n", "-a", f"x:{name}={illegal}", "x"], "stdin": "",
                      "api": {"pinned": None}} if illegal is not None else
                     {"group": "arg", "mode": "null", "boolean": True, "argv": ["-n", "-b", "-a", f"x:{name}={legal[0][0]}", "x == x"], "stdin": "",
                      "api": {"pinned": [0, "free"]}})
    cases.append({"group": "arg", "mode": "null", "boolean": False, "argv": ["-n", "-a", "x=abc", "x"], "stdin": "", "api": {"pinned": [0, ["json", "abc"]]}})
    cases.append({"group": "arg", "mode": "null", "boolean": False, "argv": ["-n", "-a", "x=", "x"], "stdin": "", "api": {"pinned": [0, ["json", ""]]}})
    cases.append({"group": "arg", "mode": "null", "boolean": False, "argv": ["-n", "-a", "x:int=1", "-a", "y:int=2", "x + y"], "stdin": "",
                  "api": {"pinned": [0, ["json", 3]]}})
    cases.append({"group": "arg", "mode": "null", "boolean": False, "argv": ["-n", "-a", "x:nope=1", "x"], "stdin": "", "api": {"pinned": None}})
    # the documented value-less forms read the environment (ENV_VARS); an explicit empty value does not
    cases.append({"group": "arg", "mode": "null", "boolean": False, "argv": ["-n", "-a", "x", "x"], "stdin": "", "api": {"pinned": [0, ["json", ENV_VARS["x"]]]}})
    cases.append({"group": "arg", "mode": "null", "boolean": False, "argv": ["-n", "-a", "x:string", "x"], "stdin": "", "api": {"pinned": [0, ["json", ENV_VARS["x"]]]}})
    cases.append({"group": "arg", "mode": "null", "boolean": False, "argv": ["-n", "-a", "y:int", "y + 1"], "stdin": "", "api": {"pinned": [0, ["json", int(ENV_VARS["y"]) + 1]]}})
    cases.append({"group": "arg", "mode": "null", "boolean": False, "argv": ["-n", "-a", "x:string=", "-a", "y=", "[x, y]"], "stdin": "", "api": {"pinned": [0, ["json", ["", ""]]]}})
    for ci, cfg in enumerate(CONFIGS):
        opts, var, expr = cfg
        for di, d in enumerate(DOCS):
            cases.append({"group": "single", "mode": "doc", "boolean": "-b" in opts, "argv": argv_for(opts, expr), "stdin": d + "\n",
                          "api": dict(cfg_api(cfg), doc=d), "cfg": ci, "doc": di})
        for di in range(len(DOCS)):
            for form, text in (("one-line", DOCS[di] + "\n"), ("two-line", TWO_LINE[di] + "\n")):
                cases.append({"group": "slurp", "mode": "slurp", "boolean": "-b" in opts, "argv": argv_for(["-s"] + opts, expr), "stdin": text,
                              "api": dict(cfg_api(cfg), doc=text), "cfg": ci, "doc": di, "form": form})
    return cases


def cases_cardinality(tier):
    n_tok2 = len(TOKENS) + len(TOKENS) ** 2 - sum(1 for e in set(n_exprs(tier)) if len(e.split(" ")) <= 2 and all(p in TOKENS for p in e.split(" ")))
    return {"n-expressions": n_exprs_cardinality(tier) * 2,
            "token-strings": tok_cardinality(tier) * 2 + n_tok2,
            "arg-bindings": len(cli.ARG_TYPES) * (2 * 3 + 1) + 8,
            "single-documents": len(CONFIGS) * len(DOCS),
            "slurp-documents": len(CONFIGS) * len(DOCS) * 2}


GROUP_SPACE = {"n": "n-expressions", "tok": "token-strings", "arg": "arg-bindings", "single": "single-documents", "slurp": "slurp-documents"}


def case_key(argv, stdin):
    return json.dumps([argv, stdin])


def stream_of(n, idx):
    seq = []
    for _ in range(n):
        seq.append(idx % len(DOCS))
        idx //= len(DOCS)
    return seq[::-1]


def subprocess_list(tier):
    """The FIXED list of 200 (argv, stdin, tag) cases that also go through a real `python -m celpy`."""
    cases = build_cases("quick") + [c for n in (1, 2) for c in tok_cases("quick", n, 0, len(TOKENS) ** n)]

    def pick(group, pred, count):
        pool = [c for c in cases if c["group"] == group and pred(c)]
        step = max(1, len(pool) // count)
        return [(c["argv"], c["stdin"], group) for c in pool[::step][:count]]

    out = pick("n", lambda c: not c["boolean"], 35) + pick("n", lambda c: c["boolean"], 35)
    out += pick("tok", lambda c: c["mode"] == "null" and not c["boolean"], 30)
    out += pick("arg", lambda c: True, 24)
    out += pick("single", lambda c: True, 20) + pick("slurp", lambda c: True, 10)
    streams = []
    for ci in (0, 1, 5, 7, 11, 15, 19):
        opts, var, expr = CONFIGS[ci]
        for seq in ([0, 1], [1, 0], [2, 3, 7], [5, 0], [0, 5, 1], [6, 2]):
            streams.append((argv_for(opts, expr), "".join(DOCS[d] + "\n" for d in seq), "stream"))
    for ci in (0, 1, 16, 19):
        opts, var, expr = CONFIGS[ci]
        streams.append((argv_for(opts, expr), "".join(DOCS[d] + "\n" for d in (0, 4, 2)), "stream"))
    out += streams
    if len(out) != 200 or len({case_key(a, s) for a, s, _ in out}) != 200:
        raise runner.HarnessError(f"fixed subprocess list has {len(out)} entries, {len({case_key(a, s) for a, s, _ in out})} distinct")
    return out


def fresh_list(tier):
    """Cases that are additionally observed as the first call in a fresh fork (fixed, not sampled)."""
    seen, out = set(), []

    def add(argv, stdin):
        k = case_key(argv, stdin)
        if k not in seen:
            seen.add(k)
            out.append((argv, stdin))

    for c in build_cases("quick"):
        if tier == "thorough":
            take = c["group"] in ("arg", "single", "slurp")
        else:  # a fresh fork costs 0.2 - 1 s of CPU here (cold regex caches, argparse, lexer), so quick keeps the list short
            take = c["group"] == "single" and c["cfg"] % len(DOC_EXPRS) in (0, 3)
        if take:
            add(c["argv"], c["stdin"])
    return out


# ---------------------------------------------------------------------------------------------
# driving main()
# ---------------------------------------------------------------------------------------------
class CountingIn(io.StringIO):
    """sys.stdin replacement that counts the documents the CLI takes from it."""

    def __init__(self, text):
        super().__init__(text)
        self.handed = 0

    def __next__(self):
        line = super().__next__()
        self.handed += 1
        return line

    def read(self, *a):
        self.handed += 1
        return super().read(*a)


def _log_state():
    root, lg = logging.getLogger(), logging.getLogger("celpy")
    return (root.level, tuple(id(h) for h in root.handlers), root.manager.disable, lg.level, tuple(id(h) for h in lg.handlers), lg.disabled, lg.propagate)


def _where(tb):
    src = repo.SRC + os.sep
    frames = [f for f in traceback.extract_tb(tb) if f.filename.startswith(src)]
    f = frames[-1] if frames else traceback.extract_tb(tb)[-1]
    return f"{os.path.basename(f.filename)}:{f.name}", f"{f.filename}:{f.lineno}"


LOG_CHANGES = [0]


def drive(argv, stdin_text):
    """One call of the real main(); returns a JSON-able observation."""
    import celpy.__main__ as cm

    saved = (sys.stdin, sys.stdout, sys.stderr)
    before = _log_state()
    fin, fout, ferr = CountingIn(stdin_text), io.StringIO(), io.StringIO()
    sys.stdin, sys.stdout, sys.stderr = fin, fout, ferr
    line = None
    try:
        try:
            r = cm.main(list(argv))
            st = ["ret", r] if type(r) is int else ["ret?", repr(r)]
        except SystemExit as ex:
            c = ex.code
            st = ["exit", 0 if c is None else (c if type(c) is int else 1)]
        except BaseException as ex:  # noqa  -- an outcome, never a crash of the worker
            where, line = _where(ex.__traceback__)
            st = ["exc", type(ex).__name__, where]
    finally:
        sys.stdin, sys.stdout, sys.stderr = saved
    if _log_state() != before:
        LOG_CHANGES[0] += 1
        root, lg = logging.getLogger(), logging.getLogger("celpy")
        root.setLevel(before[0])
        root.manager.disable = before[2]
        lg.setLevel(before[3])
    obs = {"st": st, "out": fout.getvalue(), "err": _ADDR.sub("0x", ferr.getvalue())[:ERR_KEEP], "n": fin.handed}
    if line:
        obs["at"] = line
    return obs


def code(obs):
    """The process exit status this observation stands for: int, or 'exc' (traceback, status 1)."""
    return obs["st"][1] if obs["st"][0] in ("ret", "exit") else ("exc" if obs["st"][0] == "exc" else obs["st"][1])


def same_obs(a, b):
    return a["st"] == b["st"] and a["out"] == b["out"] and a["err"] == b["err"] and a["n"] == b["n"]


def show(obs):
    return f"status={obs['st']} stdout={obs['out']!r} stderr={obs['err'][:160]!r} documents_read={obs['n']}"


def fresh_drive(argv, stdin_text):
    """The same call made as the FIRST thing in a fresh fork of this process.  The caller must be a
    process that has imported the library but never run it."""
    r, w = os.pipe()
    pid = os.fork()
    if pid == 0:
        status = 0
        try:
            os.close(r)
            data = json.dumps(drive(argv, stdin_text)).encode()
            while data:
                data = data[os.write(w, data):]
        except BaseException:  # noqa
            status = 9
        finally:
            os._exit(status)
    os.close(w)
    chunks = []
    while True:
        c = os.read(r, 65536)
        if not c:
            break
        chunks.append(c)
    os.close(r)
    _, st = os.waitpid(pid, 0)
    if st != 0:
        raise runner.HarnessError(f"fresh child for {argv!r} ended with wait status {st}")
    return json.loads(b"".join(chunks).decode())


def fresh_shard(task):
    """Observe a slice of the fresh list; this process itself never runs the library."""
    import celpy.celparser as cp

    if cp.CELParser.CEL_PARSER is not None:
        raise runner.HarnessError("fresh_shard runs in a process that already built a parser")
    return [(case_key(a, s), fresh_drive(a, s)) for a, s in task]


# ---------------------------------------------------------------------------------------------
# judging
# ---------------------------------------------------------------------------------------------
def api_outcome(api, slurp=False):
    """Outcome of the expression on the input through the library API (interpreted runner)."""
    import celpy.adapter as adapter

    if api.get("doc") is None:
        return celrun.Prog("I", api["text"]).eval({})
    kind = cli.doc_kind(api["doc"])
    prog = celrun.Prog("I", api["text"], package=api["package"])
    if prog.failed is not None or kind != "ok":
        return prog.failed if prog.failed is not None else ("V", "null_type", None, "NoneType")
    try:
        value = adapter.json_to_cel(json.loads(api["doc"]))
    except Exception as ex:  # noqa
        return ("X", "json_to_cel", type(ex).__name__)
    return prog.eval({api["var"]: value})


def oclass(o):
    if o[0] == "V" and o[1] == "bool":
        return "V:bool:" + ("true" if o[2] else "false")
    return outcome.label(o)


def expectation(case):
    """(status, stdout, need_location, outcome-class, parse position or None)"""
    api = case["api"]
    if "pinned" in api:
        if api["pinned"] is None:
            return (UNSPEC, UNSPEC, False, "arg:illegal", None)
        st, out = api["pinned"]
        return (st, cli.FREE if out == "free" else ("json", out[1]), False, "arg:legal", None)
    o = api_outcome(api)
    kind = "ok"
    if case["mode"] in ("doc", "slurp"):
        kind = cli.doc_kind(api["doc"])
        if case["mode"] == "slurp" and kind == "empty":
            kind = "malformed"
    st, out, loc = cli.expect("null" if case["mode"] == "null" else "doc", o, case["boolean"], kind)
    oc = oclass(o) if (kind == "ok" or o[0] == "P") else kind
    return (st, out, loc, oc, (o[1], o[2]) if o[0] == "P" else None)


def witness_of(case, obs):
    w = {k: case[k] for k in ("group", "mode", "boolean", "argv", "stdin", "api")}
    w["check"] = "case"
    w["observed"] = obs
    return w


def sclass(oc, boolean):
    """Outcome class as it matters to the status: under -b every non-bool value is one class."""
    if oc.startswith("V:") and not (boolean and oc.startswith("V:bool:")):
        return "V:non-bool" if boolean else "V"
    return oc


def judge_case(part, case, obs, fresh=None):
    st, out, need_loc, oc, pos = expectation(case)
    mode = case["mode"] + ("-b" if case["boolean"] else "")
    cmd = "celpy " + " ".join(json.dumps(a) for a in case["argv"]) + (f" <<< {case['stdin']!r}" if case["mode"] != "null" else "")
    out_specified = out is not UNSPEC and out is not cli.FREE
    part.case(nontrivial=st is not UNSPEC or out_specified)
    part.outcome(f"{mode}:{oc}->{'unspec' if st is UNSPEC else st}" + (":one-line" if out == ("line",) else ""))
    got = code(obs)
    if fresh is not None and not same_obs(fresh, obs):
        part.violation("history-dependent", f"fresh-vs-later:{case['group']}:{mode}:{oc}", dict(witness_of(case, obs), check="fresh", fresh=fresh),
                       f"{cmd}: as the first call in a fresh fork: {show(fresh)}; later in a long-lived worker: {show(obs)}")
    if st is UNSPEC and not out_specified:
        if got == "exc":
            part.extra[f"observed:unspec-case-uncaught:{case['group']}:{obs['st'][1]}@{obs['st'][2]}"] += 1
            if len(part.notes) < 4:
                part.notes.append(f"not compared (statement silent): {cmd} ends with uncaught {obs['st'][1]} at {obs.get('at')}")
        elif case["mode"] != "null" and case["boolean"] and oc not in ("malformed", "empty") and got == 0:
            part.extra["observed:doc-b:non-bool-or-error->status0(unspec)"] += 1
        return
    if got == "exc":
        part.violation("uncaught-exception", f"{mode}:uncaught:{obs['st'][1]}@{obs['st'][2]}", witness_of(case, obs),
                       f"{cmd}: expected {'status ' + str(st) if st is not UNSPEC else 'one output line'}, main() raised {obs['st'][1]} at {obs.get('at')} ({oc})")
        return
    if st is not UNSPEC and got != st:
        smode = case["mode"] if oc == "malformed" else mode  # -b plays no part in the status of a malformed document
        part.violation("wrong-status", f"{smode}:status:{sclass(oc, case['boolean'])}:exp={st}:got={got}", witness_of(case, obs),
                       f"{cmd}: outcome {oc}: expected status {st}, got {obs['st']}; stdout {obs['out']!r}")
    prob = cli.stdout_problem(out, obs["out"])
    if prob:
        cls = "not-one-line" if "one line" in prob else ("not-json" if "not JSON" in prob else ("unexpected-output" if "no output" in prob else "differs"))
        part.violation("wrong-output", f"{mode}:stdout:{oc}:{cls}", witness_of(case, obs), f"{cmd}: outcome {oc}: {prob}")
    if need_loc:
        prob = cli.location_problem(case["api"]["text"], pos, obs["err"])
        if prob:
            cls = "no-position" if "no position" in prob or "names no" in prob else ("not-in-message" if "does not contain" in prob else "outside-text")
            part.violation("syntax-error-not-located", f"{mode}:location:{cls}", witness_of(case, obs), f"{cmd}: {prob}")


def case_shard(task):
    tier, group, lo, hi, fresh = task
    part = runner.Part()
    if group == "tok":
        cases = list(tok_cases(tier, lo[0], lo[1], hi))
    else:
        cases = [c for c in build_cases(tier) if c["group"] == group][lo:hi]
    if group == "arg" and lo == 0:
        import celpy.__main__ as cm
        extra, missing = sorted(set(cm.CLI_ARG_TYPES) - set(cli.ARG_TYPES)), sorted(set(cli.ARG_TYPES) - set(cm.CLI_ARG_TYPES))
        if extra or missing:
            part.notes.append(f"CLI_ARG_TYPES differs from the modelled names: unmodelled {extra}, absent {missing}")
    singles = {}
    for c in cases:
        obs = drive(c["argv"], c["stdin"])
        judge_case(part, c, obs, fresh.get(case_key(c["argv"], c["stdin"])))
        if group == "single":
            singles[(c["cfg"], c["doc"])] = obs
        if group == "slurp":
            judge_slurp(part, c, obs)
    part.space(GROUP_SPACE[group], 0, len(cases))
    part.extra["fresh_fork_comparisons"] += sum(1 for c in cases if case_key(c["argv"], c["stdin"]) in fresh)
    part.extra["logging_state_changed_by_main"] += LOG_CHANGES[0]
    LOG_CHANGES[0] = 0
    if lo in (0, (1, 0)) and cases:
        part.sample({"group": group, "first": cases[0]["argv"], "last_in_shard": cases[-1]["argv"]})
    return part


def judge_slurp(part, c, obs):
    """-s on a document equals the NDJSON run on the same one-line document (differential)."""
    if cli.doc_kind(DOCS[c["doc"]]) == "empty":
        return
    opts, var, expr = CONFIGS[c["cfg"]]
    ref = drive(argv_for(opts, expr), DOCS[c["doc"]] + "\n")
    part.extra["reference_runs"] += 1
    if code(ref) == "exc" and code(obs) == "exc" and ref["st"] == obs["st"]:
        return
    if (code(ref), ref["out"]) != (code(obs), obs["out"]):
        part.violation("slurp-differs", f"slurp:{c['form']}:differs-from-ndjson:{DOCS[c['doc']]}", dict(witness_of(c, obs), check="slurp", cfg=c["cfg"], doc=c["doc"]),
                       f"celpy -s {opts} {expr!r} on {c['stdin']!r}: {show(obs)}; the same document as one NDJSON line: {show(ref)}")


def judge_stream(part, ci, seq, singles, obs):
    opts, var, expr = CONFIGS[ci]
    crash = [d for d in seq if code(singles[d]) == "exc"]
    exp_out = "".join(singles[d]["out"] for d in seq)
    exp_st = max([code(singles[d]) for d in seq if d not in crash], default=0)
    got = code(obs)
    wit = {"check": "stream", "cfg": ci, "opts": opts, "expr": expr, "docs": [DOCS[d] for d in seq], "observed": obs}
    cmd = f"celpy {' '.join(opts)} {expr!r} on documents {[DOCS[d] for d in seq]}"
    part.extra[f"state:{ci}:{got}:{obs['n']}"] += 1
    part.extra["transitions"] += obs["n"]
    if crash:
        lost = obs["out"] != exp_out
        part.case(nontrivial=len(seq) >= 2 and lost)
        part.outcome("stream:contains-document-that-crashes-alone")
        if lost:
            c = singles[crash[0]]
            part.violation("stream-aborted", f"stream:uncaught:{c['st'][1]}@{c['st'][2]}", wit,
                           f"{cmd}: document {DOCS[crash[0]]!r} alone ends main() with uncaught {c['st'][1]} at {c.get('at')}; in the stream the output "
                           f"is {obs['out']!r} where the one-document runs give {exp_out!r} (status {obs['st']}; other documents alone: "
                           f"{[code(singles[d]) for d in seq]})")
        return
    part.case(nontrivial=len(seq) >= 2)
    part.outcome(f"stream:status={exp_st}")
    if got != exp_st:
        part.violation("stream-status", f"stream:status:exp={exp_st}:got={got}", wit,
                       f"{cmd}: one-document statuses {[code(singles[d]) for d in seq]}, expected max {exp_st}, got {obs['st']}")
    if obs["out"] != exp_out:
        a, b = obs["out"].count("\n"), exp_out.count("\n")
        cls = "lines-missing" if a < b else ("lines-extra" if a > b else "lines-differ")
        part.violation("stream-output", f"stream:output:{cls}", wit, f"{cmd}: expected {exp_out!r} (concatenation of the one-document outputs), got {obs['out']!r}")
    if obs["n"] != len(seq):
        part.violation("stream-consumption", f"stream:documents-read:{'fewer' if obs['n'] < len(seq) else 'more'}", wit,
                       f"{cmd}: {len(seq)} documents on stdin, {obs['n']} read")


def stream_shard(task):
    tier, ci, n, lo, hi = task
    part = runner.Part()
    opts, var, expr = CONFIGS[ci]
    argv = argv_for(opts, expr)
    singles = [drive(argv, d + "\n") for d in DOCS]
    part.extra["reference_runs"] += len(DOCS)
    for idx in range(lo, hi):
        seq = stream_of(n, idx)
        obs = drive(argv, "".join(DOCS[d] + "\n" for d in seq))
        judge_stream(part, ci, seq, singles, obs)
        if n >= 2:
            part.extra["traces_validated_against_impl"] += 1
    # the one-document runs must not have drifted while the shard ran (repeated calls stay independent)
    again = [drive(argv, d + "\n") for d in DOCS]
    for d, (a, b) in enumerate(zip(singles, again)):
        if not same_obs(a, b):
            part.violation("history-dependent", f"single-document-run-drifts:{DOCS[d]}", {"check": "drift", "cfg": ci, "doc": d, "before": a, "after": b},
                           f"celpy {opts} {expr!r} on {DOCS[d]!r}: before the shard {show(a)}, after {hi - lo} other runs {show(b)}")
    part.space(f"streams:len={n}", 0, hi - lo)
    part.extra["logging_state_changed_by_main"] += LOG_CHANGES[0]
    LOG_CHANGES[0] = 0
    if lo == 0 and ci == 0:
        part.sample({"group": "stream", "config": argv, "len": n, "first": [DOCS[d] for d in stream_of(n, lo)], "last_in_shard": [DOCS[d] for d in stream_of(n, hi - 1)]})
    return part


def run_subprocess(argv, stdin_text):
    os.makedirs(SCRATCH, exist_ok=True)
    env = {"PATH": os.environ.get("PATH", "/usr/bin:/bin"), "PYTHONPATH": repo.SRC, "HOME": SCRATCH, "PYTHONHASHSEED": "0", "PYTHONDONTWRITEBYTECODE": "1",
           "PYTHONUTF8": "1", "COLUMNS": "80", "LANG": "C.UTF-8", **ENV_VARS}
    try:
        p = subprocess.run([PY, "-m", "celpy"] + list(argv), input=stdin_text.encode("utf-8"), stdout=subprocess.PIPE, stderr=subprocess.PIPE,
                           env=env, cwd=SCRATCH, timeout=300)
    except subprocess.TimeoutExpired as ex:
        raise runner.HarnessError(f"subprocess timed out: {argv!r}") from ex
    err = p.stderr.decode("utf-8", "replace")
    return {"rc": p.returncode, "out": p.stdout.decode("utf-8", "replace"), "err": _ADDR.sub("0x", err)[-ERR_KEEP:], "traceback": "Traceback (most recent call last)" in err,
            "err_head": _ADDR.sub("0x", err)[:ERR_KEEP]}


def judge_subprocess(part, argv, stdin_text, tag, inproc, sub):
    part.case()
    part.outcome(f"subprocess:rc={sub['rc']}")
    exp_rc = 1 if code(inproc) == "exc" else code(inproc)
    wit = {"check": "subprocess", "argv": argv, "stdin": stdin_text, "group": tag, "inprocess": inproc, "subprocess": sub}
    cmd = "python -m celpy " + " ".join(json.dumps(a) for a in argv) + f" <<< {stdin_text!r}"
    if "celpy" not in sub["err"] and "No module named" in sub["err"]:
        raise runner.HarnessError(f"subprocess could not import celpy: {sub['err']}")
    if sub["rc"] != exp_rc:
        part.violation("subprocess-status", f"subprocess:status:{tag}:main={code(inproc)}:rc={sub['rc']}", wit,
                       f"{cmd}: main() in process gave {inproc['st']}, the process exit status is {sub['rc']}; stderr tail {sub['err'][-300:]!r}")
    if (code(inproc) == "exc") != sub["traceback"]:
        part.violation("subprocess-status", f"subprocess:traceback-mismatch:{tag}", wit, f"{cmd}: in process {inproc['st']}, subprocess stderr {'has a' if sub['traceback'] else 'has no'} traceback")
    if sub["out"] != inproc["out"]:
        part.violation("subprocess-output", f"subprocess:stdout:{tag}", wit, f"{cmd}: in-process stdout {inproc['out']!r}, subprocess stdout {sub['out']!r}")
    first = inproc["err"].split("\n")[0]
    if inproc["st"][0] == "ret" and first and len(inproc["err"]) < ERR_KEEP and first not in sub["err_head"]:
        part.violation("subprocess-stderr", f"subprocess:stderr:{tag}", wit, f"{cmd}: main() in process wrote {first!r} to stderr, the subprocess wrote {sub['err_head'][:300]!r}")
    part.extra["traces_validated_against_subprocess"] += 1


def subprocess_shard(task):
    part = runner.Part()
    for argv, stdin_text, tag, sub in task:
        judge_subprocess(part, argv, stdin_text, tag, drive(argv, stdin_text), sub)
    part.space("subprocess-fixed-list", 0, len(task))
    return part


def start_subprocess_helper(items, conc):
    """Fork a helper (it never touches the library) that runs the fixed list through real interpreter
    processes, `conc` at a time, while the in-process phases use the worker pool; -> (pid, result path)."""
    os.makedirs(SCRATCH, exist_ok=True)
    path = os.path.join(SCRATCH, f"subprocess-results-{os.getpid()}.json")
    sys.stdout.flush()
    pid = os.fork()
    if pid != 0:
        return pid, path
    status = 7
    try:
        from concurrent.futures import ThreadPoolExecutor

        with ThreadPoolExecutor(conc) as ex:
            results = list(ex.map(lambda it: run_subprocess(it[0], it[1]), items))
        with open(path + ".tmp", "w") as f:
            json.dump(results, f)
        os.replace(path + ".tmp", path)
        status = 0
    except BaseException:  # noqa
        traceback.print_exc()
    finally:
        os._exit(status)


def drop_scratch():
    import shutil

    shutil.rmtree(SCRATCH, ignore_errors=True)
    try:
        os.rmdir(os.path.dirname(SCRATCH))
    except OSError:
        pass


def collect_subprocess_helper(pid, path):
    _, st = os.waitpid(pid, 0)
    if st != 0 or not os.path.exists(path):
        raise runner.HarnessError(f"subprocess helper ended with wait status {st}")
    with open(path) as f:
        results = json.load(f)
    os.unlink(path)
    return results


# ---------------------------------------------------------------------------------------------
def validate_model():
    """Soundness rule 2: the model against what /repo/tests/test_main.py pins (statuses and outputs
    of main() for given evaluation results), plus the internal consistency of the case tables."""
    cli.selftest()
    for tier in ("quick", "thorough"):
        e = n_exprs(tier)
        if len(e) != len(set(e)) or len(e) != n_exprs_cardinality(tier):
            raise runner.HarnessError(f"-n expression list ({tier}): {len(e)} generated, {len(set(e))} distinct, cardinality {n_exprs_cardinality(tier)}")
    if [cli.doc_kind(d) for d in DOCS] != ["ok", "ok", "ok", "ok", "ok", "malformed", "empty", "ok", "ok", "ok", "ok"]:
        raise runner.HarnessError("document alphabet kinds")
    if [cli.doc_kind(d) for d in TWO_LINE] != ["ok", "ok", "ok", "ok", "ok", "malformed", "empty", "ok", "ok", "ok", "ok"]:
        raise runner.HarnessError("two-line document kinds")
    if any(json.loads(a) != json.loads(b) for a, b in zip(DOCS, TWO_LINE) if cli.doc_kind(a) == "ok"):
        raise runner.HarnessError("two-line spellings denote different documents")


def run(ctx):
    validate_model()
    tier, L = ctx.tier, stream_len(ctx.tier)
    ctx.rule = (f"(a) -n EXPR and -n -b EXPR for every leaf and level-1 term of the bool/int/string/list fragment plus error leaves"
                f"{' and each term wrapped as [t] and (t) == (t)' if ctx.thorough else ''} ({n_exprs_cardinality(tier)} expressions); (b) every string of <= {tok_len(tier)} tokens over "
                f"{len(TOKENS)} tokens (incl. newline, '$', an unterminated quote, a non-ASCII string) under -n, -n -b and (<= 2 tokens) with one document on stdin; "
                f"(c) every --arg type name x (2 legal texts x {{x, a type-revealing expression, the same under -b}} + 1 illegal text); (d) for 4 expressions x 5 option sets "
                f"(none, -b, -p pk, -d d, -b -d d): each of 8 documents alone, under -s in one-line and two-line spelling, and every stream of <= {L} documents. "
                "Expected status/stdout = mc.ref.cli applied to the outcome of the API evaluation of the same expression on the same input; a stream is compared with "
                "the concatenation / max of its one-document runs. Non-trivial: the model is not UNSPEC for the case (streams: length >= 2); UNSPEC: evaluation "
                "errors under -n without -b, non-bool or error under -b outside -n, empty lines, values without a C20-specified JSON text under -n, illegal --arg texts, stream length <= 1; "
                "a well-formed document on which the expression errs must still yield exactly one output line (content free)")
    ctx.assumptions = ["only the interpreted runner (the CLI has no other)", "-i, -f, -v and stat() are not explored; --arg values read from the environment only for two names",
                       "an expression starting with '-' is passed after '--' (argparse convention)",
                       "whether a text is a syntax error, and the value of an expression, are taken from the library API (Environment.compile/program/evaluate): C20 relates the CLI to that result",
                       "stderr is compared only for the position of a syntax error; logging output is disabled in process (mc.repo)",
                       "fresh forks start from a process that imported the library and pre-built the Lark tables (mc.repo.prebuild_parsers) but has CELParser.CEL_PARSER None and "
                       "never evaluated anything; the 200 `python -m celpy` runs are first calls in truly fresh interpreters",
                       "status-so-far after k documents is observed as the final status of the length-k prefix stream (the space is prefix-closed)"]
    import celpy.__main__  # noqa: F401  -- imported, never run, in this process

    repo.prebuild_parsers()  # Lark tables memoised (harness-only speed-up); CELParser.CEL_PARSER is None again afterwards

    cases = build_cases(tier)
    card = cases_cardinality(tier)
    by_group = {g: sum(1 for c in cases if c["group"] == g) for g in GROUP_SPACE if g != "tok"}
    if len({case_key(c["argv"], c["stdin"]) + c["group"] + c["mode"] for c in cases}) != len(cases):
        raise runner.HarnessError("case list has duplicates")
    # 0. the fixed list through real interpreter processes, in the background
    sl = subprocess_list(tier)
    helper = start_subprocess_helper(sl, max(2, runner.NPROC // 2))
    try:
        _phases(ctx, tier, L, cases, card, by_group, sl, helper)
    except BaseException:
        try:
            os.kill(helper[0], 9)
            os.waitpid(helper[0], 0)
        except OSError:
            pass
        raise
    finally:
        drop_scratch()
    confirm(ctx)


def _phases(ctx, tier, L, cases, card, by_group, sl, helper):
    # 1. fresh-fork observations, taken by workers that never run the library themselves
    fl = fresh_list(tier)
    per = max(1, -(-len(fl) // (runner.NPROC * 4)))
    fresh = {}
    for chunk in runner.pmap(fresh_shard, [fl[i:i + per] for i in range(0, len(fl), per)]):
        fresh.update(chunk)
    ctx.coverage_extra["fresh_fork_observations"] = len(fresh)
    phase = {"fresh_forks_s": round(time.time() - ctx.t0, 1)}
    t1 = time.time()
    # 2. every non-stream case in long-lived workers
    tasks = []
    for g in by_group:  # the readable groups first, so that the first witness of a signature comes from them
        for lo, hi in runner.shards(by_group[g], 16 if g == "n" else 8):
            keys = {case_key(c["argv"], c["stdin"]) for c in [c for c in cases if c["group"] == g][lo:hi]}
            tasks.append((tier, g, lo, hi, {k: fresh[k] for k in keys if k in fresh}))
    for n in range(1, tok_len(tier) + 1):
        for lo, hi in runner.shards(len(TOKENS) ** n, max(1, len(TOKENS) ** n // 400)):
            tasks.append((tier, "tok", (n, lo), hi, {}))
    ctx.run_shards(case_shard, tasks)
    phase["cases_s"], t1 = round(time.time() - t1, 1), time.time()
    # 3. streams
    stasks = []
    for n in range(0, L + 1):
        for ci in range(len(CONFIGS)):
            for lo, hi in runner.shards(len(DOCS) ** n, max(1, len(DOCS) ** n // 1024)):
                stasks.append((tier, ci, n, lo, hi))
    ctx.run_shards(stream_shard, stasks)
    phase["streams_s"], t1 = round(time.time() - t1, 1), time.time()
    # 4. the fixed list through a real interpreter process
    sl = [(a, s, tag, sub) for (a, s, tag), sub in zip(sl, collect_subprocess_helper(*helper))]
    phase["subprocess_wait_s"], t1 = round(time.time() - t1, 1), time.time()
    per = max(1, -(-len(sl) // (runner.NPROC * 2)))
    ctx.run_shards(subprocess_shard, [sl[i:i + per] for i in range(0, len(sl), per)])
    phase["subprocess_compare_s"] = round(time.time() - t1, 1)
    ctx.coverage_extra["phase_wall"] = phase
    # cardinalities (closed forms, independent of the loops)
    spaces = ctx.part.spaces
    for name, n in card.items():
        spaces[name]["cardinality"] = n
    for n in range(0, L + 1):
        spaces[f"streams:len={n}"]["cardinality"] = len(DOCS) ** n * len(CONFIGS)
    spaces["subprocess-fixed-list"]["cardinality"] = 200
    expected = sum(card.values()) + sum(len(DOCS) ** n for n in range(L + 1)) * len(CONFIGS) + 200
    bad = {k: v for k, v in spaces.items() if v["cardinality"] != v["enumerated"]}
    if bad or ctx.part.evaluations != expected:
        raise runner.HarnessError(f"enumerated {ctx.part.evaluations} cases, cardinality is {expected}; spaces off: {bad}")
    # model-checking style counters for the stream part (the level stays "exploration")
    extra = ctx.part.extra
    states = [k for k in extra if k.startswith("state:")]
    ctx.coverage_extra["states"] = len(states)
    ctx.coverage_extra["distinct_status_consumed_pairs"] = sorted({k.split(":", 2)[2] for k in states})
    for k in states:
        del extra[k]
    ctx.coverage_extra["transitions"] = extra.pop("transitions", 0)
    ctx.coverage_extra["traces_validated_against_impl"] = extra.pop("traces_validated_against_impl", 0) + extra.get("traces_validated_against_subprocess", 0)
    ctx.coverage_extra["bound"] = {"stream_length": L, "documents": len(DOCS), "configurations": len(CONFIGS)}
    ctx.coverage_extra["expected_cases"] = expected
    due = sum(1 for c in cases if case_key(c["argv"], c["stdin"]) in fresh)
    if extra.get("fresh_fork_comparisons", 0) != due or due != len(fresh) or due < len(OPTSETS) * 2 * len(DOCS):
        raise runner.HarnessError(f"fresh comparisons made {extra.get('fresh_fork_comparisons')}, due {due}, fresh observations {len(fresh)}")


def confirm(ctx):
    """Soundness rule 3: the first witness of every signature is reproduced twice, each time as the
    first call in a fresh fork of this (library-idle) process."""
    import celpy.celparser as cp

    seen = set()
    if cp.CELParser.CEL_PARSER is not None:  # VERIF_SERIAL: this process has run the library, its forks are not fresh
        ctx.coverage_extra["violations_reconfirmed_in_fresh_forks"] = "skipped (serial run)"
        return
    for v in list(ctx.part.violations):
        if v["sig"] in seen or v["witness"].get("check") not in ("case", "stream", "slurp"):
            continue
        seen.add(v["sig"])
        if len(seen) > runner.MAX_REPLAYS:
            break
        w = v["witness"]
        argv, stdin_text = (w["argv"], w["stdin"]) if "argv" in w else (argv_for(w["opts"], w["expr"]), "".join(d + "\n" for d in w["docs"]))
        a, b = fresh_drive(argv, stdin_text), fresh_drive(argv, stdin_text)
        if not same_obs(a, b):
            raise runner.HarnessError(f"non-reproducible observation for {argv!r}: {show(a)} / {show(b)}")
        if not same_obs(a, w["observed"]):
            ctx.part.violation("history-dependent", f"fresh-vs-later:{v['sig']}", {"check": "fresh", "argv": argv, "stdin": stdin_text, "fresh": a, "observed": w["observed"]},
                               f"{argv!r}: first call in a fresh fork {show(a)}; in the long-lived worker {show(w['observed'])}")
    ctx.coverage_extra["violations_reconfirmed_in_fresh_forks"] = len(seen)


def replay(w):
    wit = w["witness"]
    validate_model()
    part = runner.Part()
    chk = wit.get("check")
    print("replaying", json.dumps({k: v for k, v in wit.items() if k not in ("observed", "fresh", "inprocess", "subprocess")}, ensure_ascii=False))
    if chk in ("case", "slurp"):
        case = {k: wit[k] for k in ("group", "mode", "boolean", "argv", "stdin", "api")}
        obs = drive(case["argv"], case["stdin"])
        st, out, loc, oc, pos = expectation(case)
        print(f"  outcome through the API: {oc}; expected status {st}, stdout {out}, located syntax error: {loc} {pos}")
        print(f"  observed {show(obs)}" + (f" at {obs['at']}" if "at" in obs else ""))
        judge_case(part, case, obs)
        if chk == "slurp":
            judge_slurp(part, dict(case, cfg=wit["cfg"], doc=wit["doc"], form=wit.get("form", "")), obs)
    elif chk == "stream":
        ci = wit["cfg"]
        opts, var, expr = CONFIGS[ci]
        argv = argv_for(opts, expr)
        singles = [drive(argv, d + "\n") for d in DOCS]
        seq = [DOCS.index(d) for d in wit["docs"]]
        obs = drive(argv, "".join(DOCS[d] + "\n" for d in seq))
        for d in seq:
            print(f"  alone   {DOCS[d]!r}: {show(singles[d])}" + (f" at {singles[d]['at']}" if "at" in singles[d] else ""))
        print(f"  stream  {show(obs)}")
        judge_stream(part, ci, seq, singles, obs)
    elif chk == "subprocess":
        inproc = drive(wit["argv"], wit["stdin"])
        sub = run_subprocess(wit["argv"], wit["stdin"])
        print(f"  in process {show(inproc)}\n  subprocess rc={sub['rc']} stdout={sub['out']!r} stderr tail={sub['err'][-200:]!r}")
        judge_subprocess(part, wit["argv"], wit["stdin"], wit["group"], inproc, sub)
    elif chk in ("fresh", "drift"):
        if chk == "drift":
            opts, var, expr = CONFIGS[wit["cfg"]]
            argv, stdin_text = argv_for(opts, expr), DOCS[wit["doc"]] + "\n"
        else:
            argv, stdin_text = wit["argv"], wit["stdin"]
        first = fresh_drive(argv, stdin_text)
        for cfg in CONFIGS:  # some history in this process, then the same call again
            drive(argv_for(cfg[0], cfg[2]), "".join(d + "\n" for d in DOCS))
        later = drive(argv, stdin_text)
        print(f"  first call in a fresh fork: {show(first)}\n  after {len(CONFIGS)} other calls:   {show(later)}")
        if not same_obs(first, later):
            part.violation("history-dependent", "replay", {}, "first call and later call differ")
    else:
        raise runner.HarnessError(f"unknown witness check {chk!r}")
    drop_scratch()
    for v in part.violations:
        print("  " + v["kind"] + ": " + v["detail"][:1200])
    print("REPRODUCED" if part.violations else "not reproduced")
    return 1 if part.violations else 0
