"""C04 Evaluation ends in a value or a CEL error, never another exception (DESIGN.md section 3, C04).

(a) compile: every string over a token alphabet up to N tokens, plus every single-token deletion,
    duplication and adjacent swap of every corpus expression: a Tree or a CELParseError whose
    line/column lie inside the text;
(b) evaluate: the generated program space of C03 (every operator, member, index, macro and function
    applied to every value kind, ill-typed included) + the CEL minimum-size-limit family, three
    activations, both runners: V or E, never X;
(c) every raised library error renders with str() and repr().
"""
import itertools
import re

from .. import celrun, corpus, gen, outcome, runner
from . import _table

LEVEL = "exploration"
SPACES = ["leaves", "level1", "level2", "limits", "corpus"]
TOKENS = ["1", "x", '"s"', "'", '"', "\\", "(", ")", "[", "]", "{", "}", ".", ",", ":", "?", "+", "-", "!", "&&", "in", " ", "\n", "//c", "é", "\x00"]
_TOK = re.compile(r"""\s+|//[^\n]*|[rRbB]{0,2}\"\"\"(?:\\.|[^\\])*?\"\"\"|[rRbB]{0,2}'''(?:\\.|[^\\])*?'''|[rRbB]{0,2}"(?:\\.|[^"\\\n])*"|[rRbB]{0,2}'(?:\\.|[^'\\\n])*'|[A-Za-z_][A-Za-z_0-9]*|0x[0-9a-fA-F]+[uU]?|[0-9]*\.?[0-9]+(?:[eE][+-]?[0-9]+)?[uU]?|&&|\|\||[<>=!]=|.""", re.S)


def check_parse(parser, text, part, origin):
    from celpy.celparser import CELParseError
    import lark

    try:
        t = parser.parse(text)
        ok = isinstance(t, lark.Tree)
        part.outcome("tree")
        if not ok:
            part.violation("compile-not-a-tree", f"compile:not-a-tree:{origin}", {"text": text, "stage": "compile"}, f"compile({text!r}) returned {type(t).__name__}")
        return
    except CELParseError as ex:
        part.outcome("parse-error")
        lines = text.split("\n")
        nl = max(1, len(lines))
        bad = None
        if not isinstance(ex.line, int) or not isinstance(ex.column, int):
            bad = f"line/column missing ({ex.line!r},{ex.column!r})"
        elif not (1 <= ex.line <= nl):
            bad = f"line {ex.line} outside 1..{nl}"
        elif not (1 <= ex.column <= len(lines[ex.line - 1]) + 1):
            bad = f"column {ex.column} outside 1..{len(lines[ex.line - 1]) + 1} of line {ex.line}"
        if bad:
            part.violation("parse-error-position", f"compile:position:{origin}:{bad.split(' ')[0]}", {"text": text, "stage": "compile"}, f"compile({text!r}): CELParseError {bad}")
        rb = _table.render_check(ex)
        if rb:
            part.violation("render", f"render:parse-error:{','.join(rb)}", {"text": text, "stage": "compile"}, f"CELParseError of {text!r}: {rb}")
    except RecursionError:
        part.outcome("X")
        part.violation("other-exception", f"compile:X:RecursionError:{origin}", {"text": text, "stage": "compile"}, f"compile({text!r}) raised RecursionError")
    except Exception as ex:  # noqa
        part.outcome("X")
        part.violation("other-exception", f"compile:X:{type(ex).__name__}:{origin}", {"text": text, "stage": "compile"}, f"compile({text!r}) raised {type(ex).__name__}: {str(ex)[:100]}")


def ntoken_strings(n):
    for k in range(0, n + 1):
        for combo in itertools.product(TOKENS, repeat=k):
            yield "".join(combo)


def fuzz_shard(task):
    n, first = task
    import celpy
    env = celpy.Environment()
    part = runner.Part()
    cnt = 0
    # all strings whose first token is `first` (or the empty string / shorter ones for first=None)
    if first is None:
        check_parse(env.cel_parser, "", part, "tokens")
        part.case()
        cnt = 1
    else:
        for k in range(0, n):
            for combo in itertools.product(TOKENS, repeat=k):
                text = first + "".join(combo)
                check_parse(env.cel_parser, text, part, "tokens")
                part.case()
                cnt += 1
    part.space("compile:token-strings", 0, cnt, bound=f"<= {n} tokens over {len(TOKENS)} tokens")
    return part


# ---- evaluate everything that parses: short token strings over a call/macro/member alphabet ----
EVAL_TOKENS = ["has", "dyn", "size", "int", "x", "m", "1", '"a"', "[", "]", "(", ")", "{", "}", ".", ",", ":", "map", "min", "all", "-", "!", "?", "+", "in", "f"]


def evalfuzz_shard(task):
    rk, n, first = task
    import celpy
    import celpy.celtypes as ct
    part = runner.Part()
    env = celrun.make_env(rk)
    acts = [{}, {"x": ct.ListType([ct.IntType(1), ct.IntType(2)]), "m": ct.MapType({ct.StringType("f"): ct.IntType(1)})}]
    cnt = parsed = 0
    for k in range(0, n):
        for combo in itertools.product(EVAL_TOKENS, repeat=k):
            toks = (first,) + combo
            text = " ".join(toks)
            cnt += 1
            try:
                ast = env.compile(text)
            except celpy.CELParseError:
                part.case(nontrivial=False)
                continue
            except RecursionError:
                ast = None
            except Exception as ex:  # noqa
                part.case()
                part.outcome("X")
                part.violation("other-exception", f"evalfuzz:X:{rk}:compile:{type(ex).__name__}:{shape(toks)}", {"expr": text, "runner": rk, "activation": "empty", "package": None, "bindings_src": None, "stage": "compile"},
                               f"runner {rk}: compile({text!r}) raised {type(ex).__name__}")
                continue
            parsed += 1
            try:
                prog = env.program(ast)
            except Exception as ex:  # noqa
                part.case()
                part.outcome("X")
                o = outcome.of_exception(ex, "program")
                if o[0] == "X":
                    part.violation("other-exception", f"evalfuzz:X:{rk}:program:{type(ex).__name__}:{shape(toks)}", {"expr": text, "runner": rk, "activation": "empty", "package": None, "bindings_src": None, "stage": "program"},
                                   f"runner {rk}: program({text!r}) raised {type(ex).__name__}: {str(ex)[:80]}")
                continue
            for ai, b in enumerate(acts):
                part.case()
                o, raw = outcome.run(lambda: prog.evaluate(dict(b))), None
                part.outcome(outcome.label(o))
                if o[0] == "X":
                    part.violation("other-exception", f"evalfuzz:X:{rk}:evaluate:{o[2]}:{shape(toks)}", {"expr": text, "runner": rk, "activation": ["empty", "xm"][ai], "package": None, "bindings_src": None, "stage": "evaluate"},
                                   f"runner {rk}: {text!r} under activation {['empty', 'x=[1,2], m={f:1}'][ai]}: {outcome.short(o)}")
    part.space(f"evaluate:token-strings:{rk}", 0, cnt, bound=f"<= {n} tokens over {len(EVAL_TOKENS)} tokens; every string that parses is built and evaluated")
    part.extra[f"evalfuzz_parsed_{rk}"] += parsed
    return part


def shape(toks):
    """root-cause class of a token string: the function / macro names and bracket structure"""
    keep = [t for t in toks if t in ("has", "dyn", "size", "int", "map", "min", "all", "in", "?", "{", "[", ".", "f")]
    return "".join(keep)[:24] or "plain"


def edits(text):
    toks = [t for t in _TOK.findall(text)]
    out = []
    for i in range(len(toks)):
        out.append("".join(toks[:i] + toks[i + 1:]))
        out.append("".join(toks[:i] + [toks[i], toks[i]] + toks[i + 1:]))
        if i + 1 < len(toks):
            out.append("".join(toks[:i] + [toks[i + 1], toks[i]] + toks[i + 2:]))
    return out


def edit_shard(task):
    lo, hi = task
    import celpy
    env = celpy.Environment()
    part = runner.Part()
    scen = corpus.scenarios()[lo:hi]
    seen = set()
    cnt = 0
    for s in scen:
        for text in edits(s["expr"]):
            if text in seen:
                continue
            seen.add(text)
            check_parse(env.cel_parser, text, part, "corpus-edit")
            part.case()
            cnt += 1
    part.space("compile:corpus-edits", cnt, cnt, bound="single-token deletion / duplication / adjacent swap")
    return part


def run(ctx):
    n = 5 if ctx.thorough else 4
    tasks = [(n, None)] + [(n, t) for t in TOKENS]
    if ctx.thorough:  # finer shards: first two tokens
        tasks = [(n, None)] + [(n, t) for t in TOKENS]
    ctx.run_shards(fuzz_shard, tasks)
    ctx.part.spaces["compile:token-strings"]["cardinality"] = sum(len(TOKENS) ** k for k in range(0, n + 1))
    nscen = len(corpus.scenarios())
    ctx.run_shards(edit_shard, runner.shards(nscen, 32))
    ne = 5 if ctx.thorough else 4
    for rk in ("I", "C"):
        ctx.run_shards(evalfuzz_shard, [(rk, ne, t) for t in EVAL_TOKENS])
        ctx.part.spaces[f"evaluate:token-strings:{rk}"]["cardinality"] = sum(len(EVAL_TOKENS) ** k for k in range(1, ne + 1))
    # (b) + (c)
    part = ctx.part
    for k in ("I", "C"):
        tab = _table.table(ctx, k, SPACES)
        by_text = {}
        for sp in SPACES:
            for it, (outs, _r) in zip(_table.items(sp, ctx.tier), tab[sp]):
                if sp != "corpus":
                    by_text[it[2]] = outs
        for sp in SPACES:
            its = _table.items(sp, ctx.tier)
            part.space(f"evaluate:{sp}:{k}", len(its), len(tab[sp]))
            for it, (outs, rend) in zip(its, tab[sp]):
                _sp, idx, text, term, package, bsrc = it
                actnames = ["own"] if bsrc is not None else gen.ACT_NAMES
                for ai, (an, o) in enumerate(zip(actnames, outs)):
                    part.case()
                    part.outcome(outcome.label(o))
                    if o[0] not in ("V", "E", "P"):
                        cause, ctext = term, text
                        changed = True
                        while changed and cause is not None:
                            changed = False
                            for s_ in _table.subterms(cause):
                                st = gen.text(s_)
                                if st in by_text and by_text[st][ai][0] == "X":
                                    cause, ctext, changed = s_, st, True
                                    break
                        where = _table.root_of(cause, ctext) if cause is not None else "corpus:" + c3class(text)
                        sig = f"X:{k}:{o[1]}:{o[2]}:{where}"
                        part.violation("other-exception", sig, {"expr": text, "activation": an, "runner": k, "package": package, "bindings_src": bsrc, "stage": o[1]},
                                       f"runner {k}: {text!r} under activation {an!r}: {outcome.short(o)}" + (f" (minimal sub-term {ctext!r})" if ctext != text else ""))
                    elif o[0] == "P" and sp != "corpus":
                        part.violation("generated-term-does-not-parse", f"harness:P:{_table.root_of(term, text)}", {"expr": text, "activation": an, "runner": k, "stage": "compile"}, f"{text!r} does not parse")
                if rend:
                    part.violation("render", f"render:{k}:{','.join(rend)}:{_table.root_of(term, text) if term is not None else 'corpus'}",
                                   {"expr": text, "activation": None, "runner": k, "package": package, "bindings_src": bsrc, "stage": "render"},
                                   f"runner {k}: the error raised by {text!r} fails to render: {rend}")
    part.sample({"compile_alphabet": TOKENS, "max_tokens": n})
    part.sample({"evaluate_spaces": {sp: len(_table.items(sp, ctx.tier)) for sp in SPACES}, "activations": gen.ACT_NAMES})
    part.sample({"examples": [_table.items("level2", ctx.tier)[i][2] for i in (0, 1000, 5000)]})
    ctx.rule = (f"(a) every string of <= {n} tokens over a {len(TOKENS)}-token alphabet and every single-token edit of every corpus expression is compiled; "
                "(b) every generated term (leaves, level 1, level 2, size-limit family) and corpus expression is evaluated under {empty, right, wrong} activations by both runners; "
                "(c) every raised library error is rendered with str() and repr(); a case is one compile or one (runner, expression, activation) evaluation; all are non-trivial")
    ctx.assumptions = ["strings longer than the token bound only as edited corpus expressions", "host functions raising arbitrary exceptions are outside the property (activation of CEL values)"]


def c3class(text):
    from .c03 import corpus_class
    return corpus_class(text)


def replay(w):
    wit = w["witness"]
    if wit.get("stage") == "compile" and "text" in wit:
        import celpy
        part = runner.Part()
        check_parse(celpy.Environment().cel_parser, wit["text"], part, "replay")
        for v in part.violations:
            print(v["detail"])
        print("REPRODUCED" if part.violations else "not reproduced")
        return 1 if part.violations else 0
    acts = gen.activations()
    b = (corpus.build_bindings(wit["bindings_src"]) or {}) if wit.get("bindings_src") is not None else acts.get(wit.get("activation") or "empty", {})
    prog = celrun.Prog(wit["runner"], wit["expr"], package=wit.get("package"))
    if wit.get("bindings_src") is None and wit.get("activation") in gen.ACT_NAMES:
        for n in gen.activation_sequence(wit["activation"])[:-1]:      # the same program object has seen the earlier activations
            prog.eval_raw(dict(acts[n]))
    o, raw = prog.eval_raw(dict(b))
    print(wit["expr"], "runner", wit["runner"], "->", outcome.short(o))
    bad = o[0] == "X"
    if raw is not None and isinstance(raw, Exception):
        rb = _table.render_check(raw)
        if rb:
            print("render failures:", rb)
            bad = True
    print("REPRODUCED" if bad else "not reproduced")
    return 1 if bad else 0
