"""C03 Compiled and interpreted runners produce the same outcome (DESIGN.md section 3, C03).

Differential, bounded-exhaustive: the conformance corpus plus every term of the generator's
signature up to two operator levels, under three activations, evaluated by both runners in
separate worker pools; outcomes compared in the parent.
"""
from .. import celrun, gen, outcome, runner
from . import _table

LEVEL = "exploration"
SPACES = ["leaves", "level1", "level2", "limits", "corpus"]


import re

# Constructs that are not "built-in operators, functions and macros" of the CEL language
# definition (extension libraries of cel-go's conformance suite, or this interpreter's own
# non-CEL extras): the property does not rule on them -> counted, not compared.
EXTENSION = re.compile(r"\.reduce\(|\.min\(|\bcel\.(block|iterVar|index|bind)\b|\boptional\.|\boptional_type\b|\.(all|exists|exists_one|existsOne|map|filter|transformList|transformMap|transformMapEntry)\(\s*\w+\s*,\s*\w+\s*,")


def corpus_class(text):
    if re.search(r"google\.protobuf\.\w+\s*\{", text):
        return "message-construction:google.protobuf-wrapper"
    if re.search(r"\b[A-Z]\w*\s*\{", text):
        return "message-construction"
    return "expr:" + text[:70]


HAS_PROBE = "has(vm.a)"


def lab(o):
    return outcome.label(o)


def diverges(a, b):
    """Asymmetric pair?  X on both sides is C04's business."""
    if a[0] == "X" and b[0] == "X":
        return False
    return not outcome.same_value(a, b)


def run(ctx):
    tabs = {k: _table.table(ctx, k, SPACES) for k in ("I", "C")}
    by_text = {}
    part = ctx.part
    for sp in SPACES:
        its = _table.items(sp, ctx.tier)
        part.space(sp, len(its), len(tabs["I"][sp]), bound={"leaves": "level 0", "level1": "one operator level", "level2": "two operator levels" + (" (complete)" if ctx.thorough else " (short-circuit / has / macro / equality roots)"), "limits": "CEL minimum size limits", "corpus": "features/*.feature"}[sp])
        for it, (oi, _ri), (oc, _rc) in zip(its, tabs["I"][sp], tabs["C"][sp]):
            if sp != "corpus":
                by_text[it[2]] = (oi, oc)
    nsamples = 0
    for sp in SPACES:
        its = _table.items(sp, ctx.tier)
        for it, (oi, _ri), (oc, _rc) in zip(its, tabs["I"][sp], tabs["C"][sp]):
            _sp, idx, text, term, package, bsrc = it
            actnames = ["own"] if bsrc is not None else gen.ACT_NAMES
            for an, a, b in zip(actnames, oi, oc):
                unspec = EXTENSION.search(text) is not None   # corpus and generated texts alike
                part.case(nontrivial=not unspec)
                part.outcome(lab(a))
                if unspec or not diverges(a, b):
                    continue
                # attribute to a minimal diverging sub-term where one exists: first by outcome,
                # then by the Python class of an (equal) value, e.g. a native bool where the
                # interpreter yields BoolType
                ai_ = gen.ACT_NAMES.index(an) if bsrc is None else 0
                cause_term, cause_text, via_class = term, text, False
                changed = True
                while changed and cause_term is not None:
                    changed = False
                    for s_ in _table.subterms(cause_term):
                        st = gen.text(s_)
                        if st in by_text:
                            ai, ac = by_text[st][0][ai_], by_text[st][1][ai_]
                            if diverges(ai, ac) or (ai[0] == "X" or ac[0] == "X"):
                                cause_term, cause_text, changed = s_, st, True
                                break
                if cause_term is term and term is not None:
                    stack = list(_table.subterms(term))
                    while stack:
                        s_ = stack.pop(0)
                        st = gen.text(s_)
                        if st in by_text:
                            ai, ac = by_text[st][0][ai_], by_text[st][1][ai_]
                            if ai[0] == "V" and ac[0] == "V" and ai[3] != ac[3]:
                                cause_term, cause_text, via_class = s_, st, True
                                break
                        stack.extend(_table.subterms(s_))
                if not via_class and cause_term is term and term is not None and term[0] == "macro" and "has(" in term[4] and HAS_PROBE in by_text:
                    # macro bodies are text: a has() inside one is the same native-bool sub-term
                    pi, pc = by_text[HAS_PROBE][0][1], by_text[HAS_PROBE][1][1]
                    if pi[0] == "V" and pc[0] == "V" and pi[3] != pc[3]:
                        cause_text, via_class = HAS_PROBE, True
                        cause_term = ("has", gen.var("map"), "a")
                arg_error = False
                if not via_class and cause_term is not None and cause_term[0] in ("call", "meth") and a[0] == "E" and b[0] == "V":
                    for s_ in _table.subterms(cause_term):
                        st = gen.text(s_)
                        if st in by_text and by_text[st][0][ai_][0] == "E" and by_text[st][1][ai_][0] == "E":
                            arg_error = True
                if a[0] == "E" and b[0] == "V" and "CELEvalError" in repr(b[2]):
                    arg_error = True   # the error object sits inside the returned list / map
                if arg_error:
                    # one root cause: a function that RETURNS an error object (matches() with a bad pattern, `in`)
                    # is an argument of another function, which the compiled runner calls with that object
                    sig = "diverge:compiled-passes-error-value-as-argument"
                    part.violation("diverge", sig, {"expr": text, "activation": an, "package": package, "bindings_src": bsrc, "space": sp, "index": idx},
                                   f"{text!r} under activation {an!r}: interpreted {outcome.short(a)}, compiled {outcome.short(b)}: the argument is an error, the compiled runner still calls the function")
                    continue
                if via_class:
                    ai, ac = by_text[cause_text][0][ai_], by_text[cause_text][1][ai_]
                    if cause_text == HAS_PROBE:
                        ai, ac = by_text[HAS_PROBE][0][1], by_text[HAS_PROBE][1][1]
                    sig = f"diverge:via-subterm-class:I={ai[3]},C={ac[3]}:{_table.root_of(cause_term, cause_text).split(':')[0]}"
                elif cause_term is not term and cause_term is not None:
                    ai, ac = by_text[cause_text][0][ai_], by_text[cause_text][1][ai_]
                    sig = f"diverge:I={lab(ai)},C={lab(ac)}:{_table.root_of(cause_term, cause_text)}:{_table.kindsig(cause_term)}"
                elif term is None:
                    sig = f"diverge:I={lab(a)},C={lab(b)}:corpus:{corpus_class(text)}"
                else:
                    sig = f"diverge:I={lab(a)},C={lab(b)}:{_table.root_of(term, text)}:{_table.kindsig(term)}"
                part.violation("diverge", sig, {"expr": text, "activation": an, "package": package, "bindings_src": bsrc, "space": sp, "index": idx},
                               f"{text!r} under activation {an!r}: interpreted {outcome.short(a)}, compiled {outcome.short(b)}" + (f" (minimal diverging sub-term {cause_text!r})" if cause_text != text else ""))
            if nsamples < 6 and idx % 997 == ctx.seed % 997:
                part.sample({"space": sp, "expr": text, "interpreted": [outcome.short(o) for o in oi], "compiled": [outcome.short(o) for o in oc]})
                nsamples += 1
    ctx.rule = ("every expression of the conformance corpus (own bindings) and every generated term (leaves; level 1: every operator, function, method, macro, index, select, has, "
                "?: applied to every leaf tuple; level 2: roots over typed level-1 results, the eight error leaves and literal spellings; size-limit family) x activations "
                "{empty, all variables bound, variables bound to wrong kinds, a proper subset of the variables bound, empty again} applied in that order to one program object per runner; a case is (expression, activation); both runners evaluate it in separate processes; distinct by construction")
    ctx.assumptions = ["terms beyond two operator levels only through the corpus and the size-limit family", "protobuf message construction only as far as the corpus exercises it"]


def replay(w):
    from .. import corpus
    wit = w["witness"]
    acts = gen.activations()
    b = (corpus.build_bindings(wit["bindings_src"]) or {}) if wit.get("bindings_src") is not None else acts[wit["activation"]]
    # the two runner kinds must not share a process: fork for each
    from ..explore import sched
    res = {}
    seq = [acts[n] for n in gen.activation_sequence(wit["activation"])[:-1]] if wit.get("bindings_src") is None else []

    def one(k):
        prog = celrun.Prog(k, wit["expr"], package=wit.get("package"))
        for earlier in seq:                         # the same program object has been evaluated under the earlier activations
            prog.eval(dict(earlier))
        return prog.eval(dict(b))
    for k in ("I", "C"):
        res[k] = sched.run_in_fork(lambda k=k: one(k))[1]
    print(wit["expr"], "activation", wit["activation"], "-> interpreted", outcome.short(res["I"]), "compiled", outcome.short(res["C"]))
    bad = diverges(res["I"], res["C"])
    print("REPRODUCED" if bad else "not reproduced")
    return 1 if bad else 0
