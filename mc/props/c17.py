"""C17 Custodian helper functions implement their set, CIDR, tag and ARN semantics
(DESIGN.md section 3, C17).

Part 1 (helpers): bounded-exhaustive enumeration of every helper over its alphabet, each case
called directly and through CEL (``Environment(annotations=DECLARATIONS,
runner_class=C7N_Interpreted_Runner)``, ``program(ast, functions=FUNCTIONS)``, evaluated inside
``with C7NContext(filter=...)``) in function form and method form, against the reference models
``ref.globref``, ``ref.cidr`` and ``ref.c7nref``.

Part 2 (context histories): every sequence of length <= 4 (thorough <= 5) over
{ok, celerr, hostraise} x {F1, F2}, under four ways of installing the filter; a probe host
function records ``c7nlib.C7N`` during each evaluation.  Nothing ever assigns the global:
histories run in forked children of a worker that never evaluates, back to back only while the
state read after a history is the pristine one (a leak ends the chain, is reported, and the next
history starts in a new fork); short histories additionally run one per fresh fork, a sample in
fresh python subprocesses.
"""
import itertools
import json
import os
import subprocess
import sys
import traceback

from .. import outcome, repo, runner
from ..ref import UNSPEC, c7nref, cidr, globref

LEVEL = "exploration"


# =================================================================================================
# spaces
# =================================================================================================
def words(alpha, maxlen, minlen=0):
    """All tuples over alpha with minlen <= length <= maxlen, shortest first (shortlex)."""
    out = []
    for n in range(minlen, maxlen + 1):
        out.extend(itertools.product(alpha, repeat=n))
    return out


def nwords(k, maxlen, minlen=0):
    return sum(k ** n for n in range(minlen, maxlen + 1))


SET_ALPHA = {"str": ("a", "b", "c"), "int": (1, 2, 3), "mix": ("", "a", 0, 1)}      # "" and 0 have the same hash; mixed lists of strings and ints
NORM_ALPHA = ("a", "A", " ", "\t", "É")
GLOB_PAT_ALPHA = ("a", "b", "*", "?", "[", "]", "!")
GLOB_TEXT_ALPHA = ("a", "b")
VER_ALPHA = (0, 1, 2, 9, 10)
TAG_KEYS = ("k", "j")
TAG_VALUES = ("v", "", "m:op@2020-01-01", "a:b:op@2020-01-01", "noat", "m:noat", "m:op@bad", "op@2020-01-01", "m op@2020-01-01", ":op@2020-01-01", "m:@2020-01-01")
TAG_VALUE_KIND = {"v": "plain", "": "empty", "m:op@2020-01-01": "marked", "a:b:op@2020-01-01": "marked-colon-in-message",
                  "noat": "no-colon", "m:noat": "no-at", "m:op@bad": "bad-date", None: "absent",
                  "op@2020-01-01": "no-colon-but-at-date", "m op@2020-01-01": "no-colon-but-at-date", ":op@2020-01-01": "empty-message", "m:@2020-01-01": "empty-action"}
TAG_TARGETS = ("k", "j", "z")
CIDR_BASES = ("0.0.0.0", "10.0.0.0", "10.128.0.0", "172.16.254.0", "192.168.1.128", "255.255.255.255")
CIDR_BASES_MORE = ("127.0.0.1", "100.64.0.0", "169.254.169.254", "224.0.0.0")
CIDR_MALFORMED = ("", "junk", "localhost", "10.0.0", "10.0.0.0.0", "256.0.0.0", "10.0.0.0/33", "10.0.0.0/-1", "10.0.0.0/",
                  "/8", "10.0.0.0/8/8", " 10.0.0.0/8", "10.0.0.0 /8", "10.0.0.0/x", "junk/8", "010.0.0.0/8")
ARN_NAMES = c7nref.ARN_FIELD_NAMES + ("bogus",)
ARN_MAXFIELDS = 8
VERSION_OPS = ("<", "<=", "==", "!=", ">=", ">")


def P(tier):
    t = tier == "thorough"
    return {
        "set_len": 4 if t else 3,
        "norm_alpha": NORM_ALPHA + (("\n", "Z") if t else ()),
        "norm_len": 5 if t else 3,
        "glob_plen": 5 if t else 3,
        "glob_tlen": 4 if t else 3,
        "ver_len": 4 if t else 3,
        "tag_len": 4 if t else 3,
        "hist_len": 5 if t else 4,
        "cidr_bases": CIDR_BASES + (CIDR_BASES_MORE if t else ()),
        "cidr_extra": t,
    }


class Space:
    """n cases, case(i) -> JSON-able args; built deterministically from the tier in each worker."""

    def __init__(self, n, case):
        self.n = n
        self.case = case


def _pairspace(items):
    n = len(items)
    return Space(n * n, lambda i: [list(items[i // n]), list(items[i % n])])


def net_text(addr, p):
    return f"{cidr.fmt(addr)}/{p}"


def cidr_nets(bases):
    seen = set()
    for b in bases:
        a = cidr.parse_addr(b)
        for p in range(33):
            seen.add((a & cidr.mask(p), p))
    return sorted(seen, key=lambda n: (n[1], n[0]))


def cidr_hostbits(bases):
    out = []
    for b in bases:
        a = cidr.parse_addr(b)
        for p in range(33):
            if a & ~cidr.mask(p) & cidr.FULL:
                out.append((a, p))
    return out


def addr_targets(a, p):
    lo, hi = cidr.first(a, p), cidr.last(a, p)
    out = [lo]
    if hi != lo:
        out.append(hi)
    if lo > 0:
        out.append(lo - 1)
    if hi < cidr.FULL:
        out.append(hi + 1)
    return out


def extra_nets(a, p):
    """thorough: the last sub-network at every longer prefix, and the two sibling networks."""
    out = []
    hi = cidr.last(a, p)
    for q in range(p + 1, 33):
        out.append((hi & cidr.mask(q), q))
    if p:
        size = 1 << (32 - p)
        if a - size >= 0:
            out.append((a - size, p))
        if a + size <= cidr.FULL:
            out.append((a + size, p))
    return out


def cidr_pairs(pp):
    bases = pp["cidr_bases"]
    nets = cidr_nets(bases)
    out = []
    for a, p in nets:
        n = net_text(a, p)
        for xa, xp in nets:
            out.append([n, net_text(xa, xp)])
        for t in addr_targets(a, p):
            out.append([n, cidr.fmt(t)])
        if pp["cidr_extra"]:
            for xa, xp in extra_nets(a, p):
                out.append([n, net_text(xa, xp)])
    for a, p in cidr_hostbits(bases):  # host bits set: what the text denotes is not stated -> UNSPEC, outcomes recorded
        h, m = net_text(a, p), net_text(a & cidr.mask(p), p)
        out += [[h, cidr.fmt(a)], [h, m], ["0.0.0.0/0", h], [m, h]]
    for m in CIDR_MALFORMED:
        out += [[m, "10.0.0.0"], ["10.0.0.0/8", m]]
    out.append(["10.0.0.3", "10.0.0.3"])
    return out


def cidr_pairs_cardinality(pp):
    """Counted without building the pairs: shifts instead of masks, arithmetic instead of lists."""
    bases = [cidr.parse_addr(b) for b in pp["cidr_bases"]]
    nets = {((b >> (32 - p)) if p else 0, p) for b in bases for p in range(33)}
    total = len(nets) ** 2
    for top, p in nets:
        lo = (top << (32 - p)) if p else 0
        hi = lo + (1 << (32 - p)) - 1
        total += (1 if p == 32 else 2) + (1 if lo > 0 else 0) + (1 if hi < 2 ** 32 - 1 else 0)
        if pp["cidr_extra"]:
            total += (32 - p) + (0 if p == 0 else (1 if top > 0 else 0) + (1 if top < 2 ** p - 1 else 0))
    hostbits = sum(1 for b in bases for p in range(32) if b % (1 << (32 - p)))
    return total + 4 * hostbits + 2 * len(CIDR_MALFORMED) + 1


def size_texts(pp):
    bases = pp["cidr_bases"]
    return ([[net_text(a, p)] for a, p in cidr_nets(bases)] + [[net_text(a, p)] for a, p in cidr_hostbits(bases)]
            + [[b] for b in bases] + [[m] for m in CIDR_MALFORMED])


def size_texts_cardinality(pp):
    bases = [cidr.parse_addr(b) for b in pp["cidr_bases"]]
    nets = {((b >> (32 - p)) if p else 0, p) for b in bases for p in range(33)}
    hostbits = sum(1 for b in bases for p in range(32) if b % (1 << (32 - p)))
    return len(nets) + hostbits + len(bases) + len(CIDR_MALFORMED)


def arn_cases():
    out = []
    arns = []
    for n in range(ARN_MAXFIELDS + 1):
        for empties in itertools.product((False, True), repeat=n):
            arns.append(":".join(["arn"] + ["" if e else f"v{i + 1}" for i, e in enumerate(empties)]))
        if n:
            arns.append(":".join(["arn"] + [f"v{i + 1}" for i in range(n - 1)] + ["rtype/rid"]))
    for prefix in ("ARN", "", "x"):
        arns.append(":".join([prefix] + [f"v{i + 1}" for i in range(5)]))
    for a in arns:
        for f in ARN_NAMES:
            out.append([a, f])
    return out


def arn_cardinality():
    return ((2 ** (ARN_MAXFIELDS + 1) - 1) + ARN_MAXFIELDS + 3) * len(ARN_NAMES)


def version_texts(pp):
    return [".".join(str(c) for c in w) for w in words(VER_ALPHA, pp["ver_len"], 1)]


def tag_lists(pp):
    tags = [(k, v) for k in TAG_KEYS for v in TAG_VALUES]
    return words(tags, pp["tag_len"])


def build_space(family, tier):
    pp = P(tier)
    if family.startswith("setpair:"):
        return _pairspace(words(SET_ALPHA[family[8:]], pp["set_len"]))
    if family.startswith("setone:"):
        ls = words(SET_ALPHA[family[7:]], pp["set_len"])
        return Space(len(ls), lambda i: [list(ls[i])])
    if family == "normalize":
        ws = words(pp["norm_alpha"], pp["norm_len"])
        return Space(len(ws), lambda i: ["".join(ws[i])])
    if family == "glob":
        pats = ["".join(w) for w in words(GLOB_PAT_ALPHA, pp["glob_plen"])]
        texts = ["".join(w) for w in words(GLOB_TEXT_ALPHA, pp["glob_tlen"])]
        nt = len(texts)
        return Space(len(pats) * nt, lambda i: [texts[i % nt], pats[i // nt]])
    if family == "cidr":
        pairs = cidr_pairs(pp)
        return Space(len(pairs), lambda i: pairs[i])
    if family == "size":
        ts = size_texts(pp)
        return Space(len(ts), lambda i: ts[i])
    if family == "version":
        vs = version_texts(pp)
        n = len(vs)
        return Space(n * n, lambda i: [vs[i // n], vs[i % n]])
    if family == "tags":
        ls = tag_lists(pp)
        nt = len(TAG_TARGETS)
        return Space(len(ls) * nt, lambda i: [[list(t) for t in ls[i // nt]], TAG_TARGETS[i % nt]])
    if family == "arn":
        cs = arn_cases()
        return Space(len(cs), lambda i: cs[i])
    raise runner.HarnessError(f"unknown family {family}")


def cardinality(family, tier):
    """Closed forms, independent of build_space()."""
    pp = P(tier)
    if family.startswith("setpair:"):
        return nwords(len(SET_ALPHA[family[8:]]), pp["set_len"]) ** 2
    if family.startswith("setone:"):
        return nwords(len(SET_ALPHA[family[7:]]), pp["set_len"])
    if family == "normalize":
        return nwords(len(pp["norm_alpha"]), pp["norm_len"])
    if family == "glob":
        return nwords(len(GLOB_PAT_ALPHA), pp["glob_plen"]) * nwords(len(GLOB_TEXT_ALPHA), pp["glob_tlen"])
    if family == "cidr":
        return cidr_pairs_cardinality(pp)
    if family == "size":
        return size_texts_cardinality(pp)
    if family == "version":
        return nwords(len(VER_ALPHA), pp["ver_len"], 1) ** 2
    if family == "tags":
        return nwords(len(TAG_KEYS) * len(TAG_VALUES), pp["tag_len"]) * len(TAG_TARGETS)
    if family == "arn":
        return arn_cardinality()
    raise runner.HarnessError(f"unknown family {family}")


# family -> [(helper, path, CEL text or None)]
D, DPY, FN, METH = "direct", "direct-py", "cel-fn", "cel-method"
# one program per operator: a relation nested inside a list literal costs ~8 ms per evaluation in the interpreter
_VOPS_FN = [f"version(va) {op} version(vb)" for op in VERSION_OPS]
VARIANTS = {
    "setpair": [(h, D, None) for h in ("intersect", "difference")] + [(h, DPY, None) for h in ("intersect", "difference")]
    + [("intersect", FN, "intersect(la, lb)"), ("intersect", METH, "la.intersect(lb)"),
       ("difference", FN, "difference(la, lb)"), ("difference", METH, "la.difference(lb)")],
    "setone": [("unique_size", D, None), ("unique_size", DPY, None), ("unique_size", FN, "unique_size(la)"), ("unique_size", METH, "la.unique_size()")],
    "normalize": [("normalize", D, None), ("normalize", DPY, None), ("normalize", FN, "normalize(s)"), ("normalize", METH, "s.normalize()")],
    "glob": [("glob", D, None), ("glob", DPY, None), ("glob", FN, "glob(t, p)"), ("glob", METH, "t.glob(p)")],
    "cidr": [("cidr", "direct-in", None), ("cidr", "direct-contains", None),
             ("cidr", FN, "parse_cidr(n).contains(parse_cidr(x))"), ("cidr", METH, "n.parse_cidr().contains(x.parse_cidr())"),
             ("cidr", "cel-fn-contains", "contains(parse_cidr(n), parse_cidr(x))")],
    "size": [("size_parse_cidr", D, None), ("size_parse_cidr", DPY, None), ("size_parse_cidr", FN, "size_parse_cidr(n)"), ("size_parse_cidr", METH, "n.size_parse_cidr()")],
    "version": [("version_lt", D, None), ("version_lt", DPY, None), ("version_lt", FN, "version(va) < version(vb)"), ("version_lt", METH, "va.version() < vb.version()"),
                ("version_ops", D, None), ("version_ops", FN, _VOPS_FN)],
    "tags": [("key", D, None), ("key", FN, "key(tags, k)"), ("key", METH, "tags.key(k)"),
             ("marked_key", D, None), ("marked_key", FN, "marked_key(tags, k)"), ("marked_key", METH, "tags.marked_key(k)")],
    "arn": [("arn_split", D, None), ("arn_split", DPY, None), ("arn_split", FN, "arn_split(arn, f)"), ("arn_split", METH, "arn.arn_split(f)")],
}
VARNAMES = {"setpair": ("la", "lb"), "setone": ("la",), "normalize": ("s",), "glob": ("t", "p"), "cidr": ("n", "x"), "size": ("n",),
            "version": ("va", "vb"), "tags": ("tags", "k"), "arn": ("arn", "f")}
FAMILIES = ["setpair:str", "setpair:int", "setpair:mix", "setone:str", "setone:int", "setone:mix", "normalize", "glob", "cidr", "size", "version", "tags", "arn"]


def fam(family):
    return family.split(":")[0]


# =================================================================================================
# the library side
# =================================================================================================
class _Filter:
    """Stands for a Custodian CELFilter instance; only its identity matters here."""

    def __init__(self, name):
        self.name = name

    def __repr__(self):
        return f"<filter {self.name}>"


class Lib:
    _inst = None

    @classmethod
    def get(cls):
        if cls._inst is None:
            cls._inst = cls()
        return cls._inst

    def __init__(self):
        repo.load()
        import celpy
        import celpy.c7nlib
        import celpy.celtypes

        self.celpy, self.c7nlib, self.ct = celpy, celpy.c7nlib, celpy.celtypes
        self.env = None
        self.progs = {}
        self.filt = _Filter("helper-enumeration")
        self.ctx_left_set = 0

    def to_cel(self, v):
        ct = self.ct
        if isinstance(v, str):
            return ct.StringType(v)
        if isinstance(v, bool):
            return ct.BoolType(v)
        if isinstance(v, int):
            return ct.IntType(v)
        if isinstance(v, (list, tuple)):
            return ct.ListType([self.to_cel(x) for x in v])
        if isinstance(v, dict):
            return ct.MapType({self.to_cel(k): self.to_cel(x) for k, x in v.items()})
        raise runner.HarnessError(f"cannot convert {v!r}")

    def prog(self, text):
        if text not in self.progs:
            if self.env is None:
                ct = self.ct
                decls = {"la": ct.ListType, "lb": ct.ListType, "tags": ct.ListType}
                decls.update({n: ct.StringType for n in ("s", "t", "p", "n", "x", "va", "vb", "k", "arn", "f")})
                decls.update(self.c7nlib.DECLARATIONS)
                self.env = self.celpy.Environment(annotations=decls, runner_class=self.c7nlib.C7N_Interpreted_Runner)
            ast = self.env.compile(text)
            self.progs[text] = self.env.program(ast, functions=self.c7nlib.FUNCTIONS)
        return self.progs[text]

    def cel(self, text, activation):
        try:
            p = self.prog(text)
        except Exception as ex:  # noqa
            return outcome.of_exception(ex, "program")
        c7nlib, filt = self.c7nlib, self.filt

        def go():
            with c7nlib.C7NContext(filter=filt):
                return p.evaluate(activation, filter=filt)

        o = outcome.run(go)
        if c7nlib.C7N is not None:
            self.ctx_left_set += 1
        return o


def tags_doc(pairs):
    return [{"Key": k, "Value": v} for k, v in pairs]


def observe(family, helper, path, text, args):
    """Run one case through the real code; returns a canonical outcome."""
    L = Lib.get()
    c7n = L.c7nlib
    f = fam(family)
    if f == "tags":
        args = [tags_doc(args[0]), args[1]]
    if path in (FN, METH, "cel-fn-contains"):
        act = {name: L.to_cel(a) for name, a in zip(VARNAMES[f], args)}
        if isinstance(text, list):  # version_ops: six evaluations folded into one list-of-bool outcome
            outs = [L.cel(t, act) for t in text]
            for o in outs:
                if not (o[0] == "V" and o[1] == "bool"):
                    return o
            return ("V", "list", tuple(("bool", o[2]) for o in outs), "list")
        return L.cel(text, act)
    cv = list(args) if path == DPY else [L.to_cel(a) for a in args]
    if helper == "cidr":
        if path == "direct-in":
            return outcome.run(lambda: c7n.parse_cidr(cv[1]) in c7n.parse_cidr(cv[0]))
        return outcome.run(lambda: c7n.parse_cidr(cv[0]).contains(c7n.parse_cidr(cv[1])))
    if helper == "version_lt":
        return outcome.run(lambda: c7n.version(cv[0]) < c7n.version(cv[1]))
    if helper == "version_ops":
        def ops():
            a, b = c7n.version(cv[0]), c7n.version(cv[1])
            return [a < b, a <= b, a == b, a != b, a >= b, a > b]
        return outcome.run(ops)
    fn = getattr(c7n, helper)
    return outcome.run(lambda: fn(*cv))


def expect(family, helper, args):
    """(celtype, plain) the statement requires, or UNSPEC."""
    f = fam(family)
    if helper == "intersect":
        return ("bool", c7nref.intersect(args[0], args[1]))
    if helper == "difference":
        return ("bool", c7nref.difference(args[0], args[1]))
    if helper == "unique_size":
        return ("int", c7nref.unique_size(args[0]))
    if helper == "normalize":
        r = c7nref.normalize(args[0])
        return UNSPEC if r is UNSPEC else ("string", r)
    if helper == "glob":
        r = globref.match(args[0], args[1])
        return UNSPEC if r is UNSPEC else ("bool", r)
    if helper == "cidr":
        r = cidr.contains(args[0], args[1])
        return UNSPEC if r is UNSPEC else ("bool", r)
    if helper == "size_parse_cidr":
        r = cidr.prefixlen(args[0])
        return UNSPEC if r is UNSPEC else ("int", r)
    if helper in ("version_lt", "version_ops"):
        c = c7nref.version_cmp(args[0], args[1])
        if c is UNSPEC:
            return UNSPEC
        if helper == "version_lt":
            return ("bool", c < 0)
        return ("list", tuple(("bool", c7nref.OPS[op](c)) for op in VERSION_OPS))
    if helper == "key":
        r = c7nref.tag_key([tuple(t) for t in args[0]], args[1])
        return ("null_type", None) if r is None else ("string", r)
    if helper == "marked_key":
        r = c7nref.marked(c7nref.tag_key([tuple(t) for t in args[0]], args[1]))
        if r is UNSPEC:
            return UNSPEC
        if r is None:
            return ("null_type", None)
        return ("map", outcome.plain({"message": r[0], "action": r[1], "action_date": c7nref.date_utc(r[2])}))
    if helper == "arn_split":
        r = c7nref.arn_field(args[0], args[1])
        return UNSPEC if r is UNSPEC else ("string", r)
    raise runner.HarnessError(f"no oracle for {family}/{helper}")


def operand_class(family, helper, args, exp):
    """Coarse operand class for the root-cause signature."""
    f = fam(family)
    e = "" if exp is UNSPEC else (f"exp={exp[1]}" if exp[0] in ("bool", "null_type") else "")
    if f == "setpair":
        return e
    if f == "setone":
        return f"{family[7:]}:{'dups' if len(set(args[0])) < len(args[0]) else 'nodups'}"
    if f == "normalize":
        s = args[0]
        return "non-ascii" if not s.isascii() else "upper" if s != s.lower() else "outer-blank" if s != s.strip() else "plain"
    if f == "glob":
        pat = args[1]
        return ("negset" if "[!" in pat else "set" if "[" in pat else "star" if "*" in pat else "one" if "?" in pat else "literal") + ":" + e
    if f == "cidr":
        n, x = cidr.classify(args[0]), cidr.classify(args[1])
        if n[0] == "net" and x[0] == "net":
            return f"x=net-{'longer' if x[2] > n[2] else 'shorter' if x[2] < n[2] else 'same'}-prefix:{e}"
        return f"n={n[0]}:x={x[0]}:{e}"
    if f == "size":
        n = cidr.classify(args[0])
        return n[0] + ("" if n[0] != "net" else ("/0" if n[2] == 0 else "/32" if n[2] == 32 else "/mid"))
    if f == "version":
        la, lb = args[0].count("."), args[1].count(".")
        return ("same-length" if la == lb else "different-length") + ":" + e
    if f == "tags":
        n = sum(1 for t in args[0] if t[0] == args[1])
        dup = "dup-key" if n > 1 else "single" if n else "no-key"
        if helper == "key":
            return dup
        # marked_key = decompose(key(...)): when the lookup itself is wrong for these arguments, say so (one root cause)
        k_exp, k_obs = expect(family, "key", args), observe(family, "key", D, None, args)
        if not (k_obs[0] == "V" and k_obs[1:3] == k_exp):
            return "key-lookup-wrong:" + dup
        v = c7nref.tag_key([tuple(t) for t in args[0]], args[1])
        return f"first-match={TAG_VALUE_KIND.get(v, 'other')}"
    if f == "arn":
        return f"fields={args[0].count(':')}:{args[1]}"
    return "-"


def exp_label(exp):
    if exp[0] in ("bool", "null_type"):
        return f"{exp[0]}={exp[1]}"
    if exp[0] == "int":
        return "int"
    if exp[0] == "string":
        return "string" if exp[1] else "string-empty"
    return exp[0]


def judge(part, family, helper, path, text, args):
    exp = expect(family, helper, args)
    obs = observe(family, helper, path, text, args)
    if exp is UNSPEC:
        part.case(nontrivial=False)
        part.outcome(f"{helper}:unspec:{outcome.label(obs)}")
        return None
    part.case()
    part.outcome(f"{helper}:{exp_label(exp)}")
    if obs[0] == "V" and obs[1] == exp[0] and obs[2] == exp[1]:
        return None
    kind = "wrong-value" if obs[0] == "V" else "error-instead-of-value" if obs[0] == "E" else "other-exception"
    if obs[0] == "X":
        kind += ":" + obs[2]
    # the path *group* (direct call / through CEL) is part of the root cause, the spelling (function or method form) is not
    sig = f"{helper}:{'cel' if path.startswith('cel') else 'direct'}:{kind}:{operand_class(family, helper, args, exp)}"
    detail = f"{helper} via {path}{' [' + str(text) + ']' if text else ''} on {args!r}: expected {exp!r}, observed {outcome.short(obs)}"
    w = {"part": "helper", "family": family, "helper": helper, "path": path, "text": text, "args": args}
    part.violation(kind, sig, w, detail)
    return detail


def helper_shard(task):
    family, lo, hi, tier = task
    part = runner.Part()
    sp = build_space(family, tier)
    variants = VARIANTS[fam(family)]
    for i in range(lo, hi):
        args = sp.case(i)
        for helper, path, text in variants:
            judge(part, family, helper, path, text, args)
    for helper, path, _ in variants:
        part.space(f"{family}:{helper}:{path}", 0, hi - lo)
    if lo == 0:
        part.sample({"family": family, "first": sp.case(0), "median": sp.case(sp.n // 2), "last": sp.case(sp.n - 1),
                     "variants": [f"{h}/{p}" for h, p, _ in variants]})
    L = Lib.get()
    if L.ctx_left_set:
        part.violation("context-not-cleared", "ctx:helper-enumeration:not-cleared-after-evaluate",
                       {"part": "history", "mode": "tests", "history": [["ok", "F1"]]},
                       f"c7nlib.C7N was not None after {L.ctx_left_set} helper evaluations in shard {family}[{lo}:{hi}]")
        L.ctx_left_set = 0
    return part


# =================================================================================================
# context histories
# =================================================================================================
HKINDS = ("ok", "celerr", "hostraise", "nested")
HFILTERS = ("F1", "F2")
# nested: a host function runs a whole other evaluation (its own filter: the decoy) in the middle of this one; the rest of
# this evaluation must still see this evaluation's filter
HSYMBOLS = [(k, f) for k in HKINDS[:3] for f in HFILTERS] + [("nested", "F1")]
HEXPR = {"ok": "probe() == 1", "celerr": "probe() / 0 == 1", "hostraise": "boom() == 1", "nested": "nest() == 1 && probe() == 1"}
# how the filter is installed for an evaluation
#   tests     : with C7NContext(filter=<decoy>): prog.evaluate(act, filter=F)     (tests/test_c7nlib.py::test_C7N_interpreted_runner)
#   runner    : prog.evaluate(act, filter=F)                                      (C7N_Interpreted_Runner alone)
#   with-only : with C7NContext(filter=F): prog.evaluate(act)                     (C7N_Interpreted_Runner, no filter argument)
#   plain     : with C7NContext(filter=F): prog.evaluate(act)                     (celpy.InterpretedRunner; the C7NContext docstring)
MODES = ("tests", "runner", "with-only", "plain")
_SEEN = []


class Hist:
    """Built once per worker, *before* any fork, without entering a context or evaluating."""
    _inst = None

    @classmethod
    def get(cls):
        if cls._inst is None:
            cls._inst = cls()
        return cls._inst

    def __init__(self):
        L = Lib.get()
        self.celpy, self.c7nlib, ct = L.celpy, L.c7nlib, L.ct
        c7nlib = self.c7nlib
        self.filters = {n: _Filter(n) for n in HFILTERS}
        self.decoy = _Filter("decoy")
        self.names = {id(f): n for n, f in self.filters.items()}
        self.names[id(self.decoy)] = "decoy"
        abst = self.abst

        def probe():
            _SEEN.append(abst(c7nlib.C7N))
            return ct.IntType(1)

        def boom():
            _SEEN.append(abst(c7nlib.C7N))
            raise RuntimeError("host function failure")

        def nest():
            inner = self.progs["c7n", "ok"].evaluate({}, filter=self.decoy)     # its probe() records what the inner evaluation sees
            return ct.IntType(1) if inner else ct.IntType(0)

        functions = dict(c7nlib.FUNCTIONS)
        functions.update({"probe": probe, "boom": boom, "nest": nest})
        decls = dict(c7nlib.DECLARATIONS)
        decls.update({"probe": ct.FunctionType, "boom": ct.FunctionType, "nest": ct.FunctionType})
        self.progs = {}
        for rname, rclass in (("c7n", c7nlib.C7N_Interpreted_Runner), ("plain", self.celpy.InterpretedRunner)):
            env = self.celpy.Environment(annotations=decls, runner_class=rclass)
            for kind, text in HEXPR.items():
                self.progs[rname, kind] = env.program(env.compile(text), functions=functions)

    def abst(self, c):
        if c is None:
            return "None"
        if isinstance(c, self.c7nlib.C7NContext):
            f = c.filter
            return f"ctx({'None' if f is None else self.names.get(id(f), '?')})"
        return "other:" + type(c).__name__


def run_history(mode, hist):
    """Runs in a fresh process.  Never assigns c7nlib.C7N."""
    H = Hist.get()
    c7nlib, abst = H.c7nlib, H.abst
    CELEvalError = H.celpy.CELEvalError
    steps = []
    initial = abst(c7nlib.C7N)
    for kind, fname in hist:
        F = H.filters[fname]
        prog = H.progs["plain" if mode == "plain" else "c7n", kind]
        before = abst(c7nlib.C7N)
        del _SEEN[:]
        inner = None
        try:
            if mode == "tests":
                with c7nlib.C7NContext(filter=H.decoy):
                    try:
                        r = prog.evaluate({}, filter=F)
                    finally:
                        inner = abst(c7nlib.C7N)
            elif mode == "runner":
                r = prog.evaluate({}, filter=F)
            else:
                with c7nlib.C7NContext(filter=F):
                    r = prog.evaluate({})
            out = "value" if isinstance(r, int) and bool(r) else f"value?{r!r}"
        except CELEvalError:
            out = "E"
        except Exception as ex:  # noqa
            out = "X:" + type(ex).__name__
        steps.append([before, list(_SEEN), inner, abst(c7nlib.C7N), out])
    return {"initial": initial, "steps": steps}


def _in_fork(fn):
    """Run fn() in a forked child of this (never-evaluating) worker; JSON result back through a pipe."""
    H = Hist.get()
    if H.c7nlib.C7N is not None:
        raise runner.HarnessError("the forking worker itself has c7nlib.C7N set; it must never evaluate")
    rfd, wfd = os.pipe()
    pid = os.fork()
    if pid == 0:
        status = 0
        try:
            os.close(rfd)
            try:
                data = json.dumps({"ok": fn()})
            except BaseException as ex:  # noqa
                data = json.dumps({"crash": f"{type(ex).__name__}: {ex}\n{traceback.format_exc()}"})
            with os.fdopen(wfd, "w") as f:
                f.write(data)
        except BaseException:  # noqa
            status = 9
        finally:
            os._exit(status)
    os.close(wfd)
    with os.fdopen(rfd) as f:
        data = f.read()
    _, st = os.waitpid(pid, 0)
    if st != 0 or not data:
        raise runner.HarnessError(f"history child failed: status {st}, output {data[:200]!r}")
    res = json.loads(data)
    if "crash" in res:
        raise runner.HarnessError(f"history child crashed: {res['crash']}")
    return res["ok"]


def forked_history(mode, hist):
    """One history in its own fresh fork."""
    return _in_fork(lambda: run_history(mode, hist))


def run_chain(items):
    """Histories back to back in one process, *reading* the context state after each and going on only while it
    is the pristine one (nothing is ever reset): the next history then starts from the same observable state as a
    fresh process.  The first history that leaves anything else ends the chain."""
    H = Hist.get()
    out = []
    for mode, hist in items:
        out.append(run_history(mode, hist))
        if H.abst(H.c7nlib.C7N) != "None":
            break
    return out


def forked_chain(items):
    return _in_fork(lambda: run_chain(items))


def rel(state, fname):
    """Name a context state relative to the evaluation's own filter, for signatures."""
    if state in ("None", "ctx(None)", "ctx(decoy)") or not state.startswith("ctx("):
        return state
    return "ctx(own)" if state == f"ctx({fname})" else "ctx(other)"


def check_trace(mode, hist, trace):
    """First divergence from the model as (step index, kind, what) or None; plus the states seen."""
    states = set()
    model = c7nref.context_model([tuple(e) for e in hist])
    if trace["initial"] != "None":
        raise runner.HarnessError(f"history started with c7nlib.C7N = {trace['initial']}: not a fresh process state")
    states.add(("initial", trace["initial"]))
    div = None
    for i, ((kind, fname), (m_before, m_during, m_after, m_out), (before, seen, inner, after, out)) in enumerate(zip(hist, model, trace["steps"])):
        states.add(("before", before))
        states.update(("during", s) for s in seen)
        if inner is not None:
            states.add(("after-evaluate-inside-outer-with", inner))
        states.add(("after", after))
        if div is not None:
            continue
        if before != m_before:
            div = (i, kind, f"stale-before:{rel(before, fname)}")
        elif len(seen) != (2 if kind == "nested" else 1):
            div = (i, kind, f"probe-called-{len(seen)}-times")
        elif kind == "nested" and seen[0] != "ctx(decoy)":
            div = (i, kind, f"inner-evaluation-saw:{rel(seen[0], fname)}")
        elif seen[-1] != m_during:
            # (mode with-only is the usage the c7nlib module docstring shows: the filter installed by the caller's
            # ``with`` block is the one "installed for the evaluation")
            div = (i, kind, f"during-saw:{rel(seen[-1], fname)}" + ("-after-a-nested-evaluation" if kind == "nested" else ""))
        elif out != m_out:
            div = (i, kind, f"outcome:{out}-instead-of-{m_out}")
        elif inner == m_during:
            # mode tests: evaluate() has returned or raised, the outer ``with`` is still open.  None (what the tree does)
            # and the restored outer context (what a re-entrant repair would do) both count as cleared; the evaluation's
            # own filter still being installed does not.
            div = (i, kind, f"not-cleared-after-evaluate-inside-outer-with:{rel(inner, fname)}")
        elif after != m_after:
            div = (i, kind, f"not-cleared-after:{rel(after, fname)}")
    return div, states


def mode_bound(mode, tier):
    return P(tier)["hist_len"]


def hist_space(tier):
    return [(m, h) for m in MODES for h in words(HSYMBOLS, mode_bound(m, tier), 1)]


def hist_cardinality(tier):
    return sum(nwords(len(HSYMBOLS), mode_bound(m, tier), 1) for m in MODES)


def _judge_history(part, mode, hist, trace, confirmed, count=True):
    div, states = check_trace(mode, hist, trace)
    if count:
        part.case(nontrivial=True)
        part.extra["transitions"] += len(hist)
        part.extra["histories"] += 1
        for point, st in states:
            part.extra[f"state|{point}|{st}"] += 1
        part.outcome(f"history:{mode}:" + "+".join(sorted({s[4] for s in trace["steps"]})))
    if div is None:
        part.extra["traces_validated_against_impl" if count else "fresh_fork_histories_validated"] += 1
        return
    i, kind, what = div
    sig = f"ctx:{mode}:{kind}:{what}"
    if sig not in confirmed:  # soundness rule 3: the reported witness of a signature is reproduced in a fresh process of its own
        confirmed.add(sig)
        again = forked_history(mode, hist)
        if again != trace:
            raise runner.HarnessError(f"history {mode} {hist} is not reproducible: {trace} vs {again}")
    part.violation("context-" + what.split(":")[0], sig, {"part": "history", "mode": mode, "history": hist},
                   f"mode {mode}, history {hist}: step {i} ({kind}, {hist[i][1]}) diverges from the model: {what}; "
                   f"trace [before, during, inside-outer-with, after, outcome] = {trace['steps']}")


def hist_shard(task):
    lo, hi, tier = task
    part = runner.Part()
    space = [(m, [list(e) for e in h]) for m, h in hist_space(tier)[lo:hi]]
    Hist.get()
    confirmed = set()
    idx = 0
    while idx < len(space):
        traces = forked_chain(space[idx:])
        part.extra["chain_forks"] += 1
        if not traces:
            raise runner.HarnessError("a chain child ran nothing")
        for (mode, hist), trace in zip(space[idx:], traces):
            _judge_history(part, mode, hist, trace, confirmed)
        idx += len(traces)
    part.space("context-histories", 0, hi - lo)
    if lo == 0:
        part.sample({"part": "history", "modes": list(MODES), "first": space[0][1], "last": hist_space(tier)[-1][1], "events": HEXPR})
    return part


def fresh_bound(tier):
    return 3 if tier == "thorough" else 2


def fresh_space(tier):
    return [(m, [list(e) for e in h]) for m in MODES for h in words(HSYMBOLS, fresh_bound(tier), 1)]


def histfresh_shard(task):
    """Guard for the chain shortcut: every short history once more, each in a fresh fork of its own, same oracle."""
    lo, hi, tier = task
    part = runner.Part()
    Hist.get()
    confirmed = set()
    for mode, hist in fresh_space(tier)[lo:hi]:
        _judge_history(part, mode, hist, forked_history(mode, hist), confirmed, count=False)
        part.extra["fresh_fork_histories"] += 1
    return part


_SUB = ("import json,sys; sys.path.insert(0, {verif!r}); from mc import repo; repo.load(); from mc.props import c17; "
        "print(json.dumps(c17.run_history({mode!r}, {hist!r})))")


def subprocess_history(mode, hist):
    env = dict(os.environ, PYTHONHASHSEED="0", PYTHONDONTWRITEBYTECODE="1", VERIF_REPO=repo.REPO)
    code = _SUB.format(verif=runner.VERIF, mode=mode, hist=[list(e) for e in hist])
    r = subprocess.run([sys.executable, "-c", code], capture_output=True, text=True, env=env, timeout=120)
    if r.returncode != 0:
        raise runner.HarnessError(f"fresh python subprocess failed: {r.stderr[-400:]}")
    return json.loads(r.stdout.strip().splitlines()[-1])


# ---- the context as a stack machine ---------------------------------------------------------------------------
# Model: a stack of filters.  Events: enter(F) = C7NContext(filter=F).__enter__(), exit = __exit__ of the innermost
# open context, eval(F) / evalerr(F) = C7N_Interpreted_Runner.evaluate(activation, filter=F) succeeding / failing,
# eval(-) / evalerr(-) = evaluate(activation) without a filter inside an open context.  The SAME filter object may be
# entered again while it is current (a resource loop wrapped in a context that also passes filter= to evaluate()).
# Every event sequence up to the length bound with at most three open contexts is run on the real objects; after every
# event the module global must name the model's top of stack (None when empty), and during an evaluation the probe
# function must see the evaluation's own filter (the innermost open one for eval(-)).
STACK_EVENTS = [("enter", "F1"), ("enter", "F2"), ("exit", None), ("eval", "F1"), ("eval", "F2"), ("eval", None), ("evalerr", "F1"), ("evalerr", None)]
STACK_DEPTH = 3
_STACK_SEQS = {}


def stack_sequences(maxlen):
    if maxlen not in _STACK_SEQS:
        out = []

        def go(seq, depth):
            if seq:
                out.append(tuple(seq))
            if len(seq) == maxlen:
                return
            for ev in STACK_EVENTS:
                k, f = ev
                if k == "exit" and depth == 0:
                    continue
                if k == "enter" and depth == STACK_DEPTH:
                    continue
                if k in ("eval", "evalerr") and f is None and depth == 0:
                    continue                      # no context at all: the property does not rule on it
                go(seq + [ev], depth + (1 if k == "enter" else -1 if k == "exit" else 0))
        go([], 0)
        _STACK_SEQS[maxlen] = out
    return _STACK_SEQS[maxlen]


def stack_bound(tier):
    return 6 if tier == "thorough" else 5


def run_stack_sequence(seq):
    """On the real objects, in a process whose context is None.  -> list of deviations [(event index, what, expected, got)], final state."""
    H = Hist.get()
    c7nlib, abst = H.c7nlib, H.abst
    CELEvalError = H.celpy.CELEvalError
    model, opened, devs = [], [], []
    for i, (k, fname) in enumerate(seq):
        if k == "enter":
            c = c7nlib.C7NContext(filter=H.filters[fname])
            c.__enter__()
            opened.append(c)
            model.append(fname)
        elif k == "exit":
            opened.pop().__exit__(None, None, None)
            model.pop()
        else:
            prog = H.progs["c7n", "ok" if k == "eval" else "celerr"]
            del _SEEN[:]
            try:
                r = prog.evaluate({}, filter=H.filters[fname]) if fname is not None else prog.evaluate({})
                out = "value" if isinstance(r, int) and bool(r) else f"value?{r!r}"[:40]
            except CELEvalError:
                out = "E"
            except Exception as ex:  # noqa
                out = "X:" + type(ex).__name__
            want_seen = f"ctx({fname if fname is not None else model[-1]})"
            if list(_SEEN) != [want_seen]:
                devs.append([i, "seen-during-evaluation", want_seen, list(_SEEN)])
            want_out = "value" if k == "eval" else "E"
            if out != want_out:
                devs.append([i, "outcome", want_out, out])
        want = f"ctx({model[-1]})" if model else "None"
        got = abst(c7nlib.C7N)
        if got != want:
            devs.append([i, "state-after-" + k, want, got])
            break                                  # model and implementation have parted: later events say nothing new
    # unwind whatever is still open (innermost first), then the context must be None again
    while opened:
        opened.pop().__exit__(None, None, None)
    final = abst(c7nlib.C7N)
    return devs, final


def stack_shard(task):
    lo, hi, tier = task
    part = runner.Part()
    seqs = stack_sequences(stack_bound(tier))[lo:hi]

    def body():
        res = []
        for s in seqs:
            devs, final = run_stack_sequence(s)
            res.append([devs, final])
            if final != "None":
                break                              # this child's context is spoilt: stop here, the parent forks another
        return res
    done = 0
    while done < len(seqs):
        chunk = seqs[done:]
        seqs_backup, seqs = seqs, chunk
        res = _in_fork(body)
        seqs = seqs_backup
        for s, (devs, final) in zip(chunk, res):
            part.case()
            part.extra["stack_events"] += len(s)
            part.outcome("stack:" + ("ok" if not devs and final == "None" else "deviation"))
            if final != "None" and not devs:
                devs = [[len(s), "state-after-unwinding", "None", final]]
            if devs:
                i, what, want, got = devs[0]
                # confirm alone in a fresh fork of the never-evaluating worker
                seqs = [s]
                again = _in_fork(body)[0]
                seqs = seqs_backup
                if not again[0] and again[1] == "None":
                    raise runner.HarnessError(f"context stack deviation did not reproduce alone: {s} {devs}")
                rel = lambda x, top: x if x in ("None",) or not isinstance(x, str) else ("own" if x == top else "other")  # noqa: E731
                ev = s[i] if i < len(s) else ("unwind", None)
                same = any(s[j][0] == "enter" and s[j][1] == ev[1] for j in range(i)) if ev[1] else False
                sig = f"ctx-stack:{what}:{ev[0]}({'same-filter-as-an-open-context' if same else ('no-filter' if ev[1] is None else 'filter')}):expected={'None' if want == 'None' else 'context'}:got={'None' if got in ('None', []) else 'context-or-other'}"
                part.violation("context-stack", sig, {"part": "stack", "events": [list(e) for e in s]},
                               f"event {i} {ev} of {list(s)}: {what}: expected {want}, got {got}")
        done += len(res)
    part.space("context-stack-sequences", 0, len(seqs))
    return part


def hist_task(task):
    return {"chain": hist_shard, "fresh": histfresh_shard, "sub": histsub_shard, "stack": stack_shard}[task[0]](task[1:])


def histsub_shard(task):
    """Zygote-fork outcomes cross-checked against real fresh python subprocesses (a few histories)."""
    mode, hist = task
    part = runner.Part()
    hist = [list(e) for e in hist]
    a, b = forked_history(mode, hist), subprocess_history(mode, hist)
    if a != b:
        raise runner.HarnessError(f"fork and fresh subprocess disagree on {mode} {hist}: {a} vs {b}")
    part.extra["fresh_subprocess_crosschecks"] += 1
    return part


# =================================================================================================
def _only():
    """Development aid: VERIF_C17_ONLY=hist,tags,... restricts the run (recorded in caps_hit, so never 'exhaustive')."""
    v = os.environ.get("VERIF_C17_ONLY", "")
    return [x for x in v.split(",") if x] or None


def run(ctx):
    globref.selftest()
    cidr.selftest()
    c7nref.selftest()
    tier = ctx.tier
    pp = P(tier)
    ctx.rule = (
        "helpers: every element of each alphabet space (all pairs of lists of length <= %d over {a,b,c} and over {1,2,3}; all strings <= %d over %r; "
        "all glob patterns <= %d over %r x all texts <= %d over {a,b}; %d IPv4 networks (every prefix length 0..32 of %d base addresses, masked) x "
        "(every such network, first/last address inside, the addresses just outside%s) plus host-bits-set and malformed texts; all pairs of dotted versions "
        "with <= %d components over %r; all tag lists <= %d over keys {k,j} x %d values x lookup keys {k,j,z}; every ARN with 0..%d fields, each field "
        "empty or not, x every field name) x every access path (direct with CEL types, direct with plain Python values, CEL function form, CEL method "
        "form, all under C7N_Interpreted_Runner with FUNCTIONS inside a C7NContext); a case is (helper, path, arguments), distinct by construction; "
        "non-trivial iff the reference is not UNSPEC (malformed glob brackets, host bits set / malformed / non-network CIDR texts, a bad date in a "
        "marked value, ARN shapes outside the documented two, unknown field names are UNSPEC: counted, outcome recorded, not compared). "
        "context histories: every sequence of length 1..%d over {ok, celerr, hostraise} x {F1, F2} plus one nested evaluation (a host function runs another evaluation with its own filter, then this one goes on) under each of four ways of installing the filter "
        "(tests: outer C7NContext + evaluate(filter=F) as tests/test_c7nlib.py does; runner: evaluate(filter=F) alone; with-only: C7NContext(filter=F) around "
        "C7N_Interpreted_Runner.evaluate(activation); plain: C7NContext(filter=F) around InterpretedRunner.evaluate); histories run back to back in forked "
        "chain processes that only go on while the context state *read* after a history is the pristine one (nothing is ever reset; any other state ends the "
        "chain and the next history starts in a new fork), and every history of length <= %d additionally runs in a fresh fork of its own; every history is "
        "non-trivial (state before, cleared-after and outcome are compared at every step; filter visibility are compared at every step, in mode with-only too: it is the usage the c7nlib module docstring shows)"
        % (pp["set_len"], pp["norm_len"], "".join(pp["norm_alpha"]), pp["glob_plen"], "".join(GLOB_PAT_ALPHA), pp["glob_tlen"],
           len(cidr_nets(pp["cidr_bases"])), len(pp["cidr_bases"]), ", last sub-network at every longer prefix, sibling networks" if pp["cidr_extra"] else "",
           pp["ver_len"], list(VER_ALPHA), pp["tag_len"], len(TAG_VALUES), ARN_MAXFIELDS, pp["hist_len"], fresh_bound(tier)))
    ctx.assumptions = [
        "values outside the alphabets are not explored; IPv6, netmask notation, the AWS-calling helpers are out of scope; nested evaluations one level deep only",
        "version comparison: the statement names '<'; the other five comparison operators are checked as the same numeric order (signature names the helper version_ops)",
        "marked_key: null for a missing key / a value without ':' or '@' is taken from the docstring and tests/test_c7nlib.py; a date that is not YYYY-MM-DD is UNSPEC",
        "history children are forked from a worker that has imported celpy and compiled the probe programs but has never entered a C7NContext or evaluated; "
        "the worker's c7nlib.C7N is asserted None before every fork and nothing ever assigns it",
        "chain shortcut: a history that starts after another one in the same process starts from a process whose context state was read as None, which is taken "
        "to be the same state as a fresh process (the context is the module global c7nlib.C7N and nothing else); guarded by the fresh-fork runs of every short "
        "history and by fresh python subprocesses for a sample",
    ]
    # ---- part 2 first: history workers must come from a process that has never evaluated anything
    only = _only()
    if only:
        ctx.caps_hit.append("VERIF_C17_ONLY=" + ",".join(only))
        if "hist" not in only:
            ctx.coverage_extra.update({"states": 0, "transitions": 0, "traces_validated_against_impl": 0})
            return _run_helpers(ctx, tier, 0, only)
    nh = hist_cardinality(tier)
    nf = len(MODES) * nwords(len(HSYMBOLS), fresh_bound(tier), 1)
    subs = []
    for i, m in enumerate(MODES):
        longest = [tuple(HSYMBOLS[(a + j) % len(HSYMBOLS)] for j in range(mode_bound(m, tier))) for a in range(len(HSYMBOLS))]
        firsts = [(s,) for s in HSYMBOLS]
        pick = (i + ctx.seed) % len(HSYMBOLS)
        subs += [(m, h) for h in (firsts + longest if ctx.thorough else [firsts[pick], longest[pick]])]
    # one pool for the three kinds of history task: the probe programs are built once per worker
    tasks = [("sub", m, h) for m, h in subs]
    tasks += [("chain", lo, hi, tier) for lo, hi in runner.shards(nh, 2 * runner.NPROC)]
    tasks += [("fresh", lo, hi, tier) for lo, hi in runner.shards(nf, 2 * runner.NPROC)]
    nstack = len(stack_sequences(stack_bound(tier)))
    tasks += [("stack", lo, hi, tier) for lo, hi in runner.shards(nstack, 2 * runner.NPROC)]
    ctx.run_shards(hist_task, tasks)
    ctx.part.spaces["context-stack-sequences"]["cardinality"] = nstack
    ctx.part.spaces["context-stack-sequences"]["bound"] = f"length<={stack_bound(tier)}, <= {STACK_DEPTH} open contexts"
    ctx.part.spaces["context-histories"]["cardinality"] = nh
    ctx.part.spaces["context-histories"]["bound"] = "length<=" + "/".join(f"{m}:{mode_bound(m, tier)}" for m in MODES)
    ex = ctx.part.extra
    points = {}
    for k in [k for k in ex if k.startswith("state|")]:
        _, point, st = k.split("|")
        points.setdefault(st, []).append(point)
        del ex[k]
    ctx.coverage_extra.update({
        "states": len(points),
        "state_values": {st: sorted(ps) for st, ps in sorted(points.items())},
        "transitions": ex.pop("transitions"),
        "traces_validated_against_impl": ex.pop("traces_validated_against_impl", 0),
        "histories": ex.pop("histories"),
        "fresh_fork_histories": ex.pop("fresh_fork_histories", 0),
        "fresh_fork_histories_validated": ex.pop("fresh_fork_histories_validated", 0),
        "fresh_fork_bound": fresh_bound(tier),
        "chain_forks": ex.pop("chain_forks", 0),
        "context_stack_model": {"events": [f"{k}({f or '-'})" for k, f in STACK_EVENTS], "sequences": nstack, "max_length": stack_bound(tier), "max_open_contexts": STACK_DEPTH,
                                "model_states": sum(len(HFILTERS) ** d for d in range(STACK_DEPTH + 1)), "transitions_checked_against_impl": ex.pop("stack_events", 0)},
        "history_bound": {"events": len(HSYMBOLS), "length_per_install_mode": {m: mode_bound(m, tier) for m in MODES}},
    })
    if ctx.coverage_extra["fresh_fork_histories"] != nf:
        raise runner.HarnessError(f"ran {ctx.coverage_extra['fresh_fork_histories']} fresh-fork histories, expected {nf}")
    if ctx.coverage_extra["histories"] != nh:
        raise runner.HarnessError(f"ran {ctx.coverage_extra['histories']} histories, cardinality is {nh}")
    _run_helpers(ctx, tier, nh + nstack, only)


def _run_helpers(ctx, tier, nh, only):
    families = [f for f in FAMILIES if not only or fam(f) in only]
    tasks = []
    expected_cases = nh
    for family in families:
        n = cardinality(family, tier)
        expected_cases += n * len(VARIANTS[fam(family)])
        per = max(1, min(4 * runner.NPROC, n // 200))
        tasks += [(family, lo, hi, tier) for lo, hi in runner.shards(n, per)]
    tasks.sort(key=lambda t: -(t[2] - t[1]))
    ctx.run_shards(helper_shard, tasks)
    for family in families:
        for helper, path, _ in VARIANTS[fam(family)]:
            ctx.part.spaces[f"{family}:{helper}:{path}"]["cardinality"] = cardinality(family, tier)
    ctx.coverage_extra["expected_cases"] = expected_cases
    if ctx.part.evaluations != expected_cases:
        raise runner.HarnessError(f"enumerated {ctx.part.evaluations} cases, cardinality is {expected_cases}")


# =================================================================================================
def replay(w):
    wit = w["witness"]
    print("replaying", json.dumps(wit))
    if wit["part"] == "stack":
        Hist.get()
        seq = [tuple(e) for e in wit["events"]]
        devs, final = _in_fork(lambda: list(run_stack_sequence(seq)))
        print("deviations:", devs, "context after unwinding:", final)
        bad = bool(devs) or final != "None"
        print("REPRODUCED" if bad else "not reproduced")
        return 1 if bad else 0
    if wit["part"] == "helper":
        part = runner.Part()
        exp = expect(wit["family"], wit["helper"], wit["args"])
        obs = observe(wit["family"], wit["helper"], wit["path"], wit.get("text"), wit["args"])
        print("expected", exp)
        print("observed", obs[:3], "via", wit["path"], wit.get("text") or "")
        detail = judge(part, wit["family"], wit["helper"], wit["path"], wit.get("text"), wit["args"])
        print("REPRODUCED: " + detail if detail else "not reproduced")
        return 1 if detail else 0
    Hist.get()
    trace = forked_history(wit["mode"], wit["history"])
    model = c7nref.context_model([tuple(e) for e in wit["history"]])
    print("model    [before, during, after, outcome]:", model)
    print("observed [before, during, inside-outer-with, after, outcome]:", trace["steps"])
    div, _ = check_trace(wit["mode"], wit["history"], trace)
    print(f"REPRODUCED: step {div[0]} ({div[1]}): {div[2]}" if div else "not reproduced")
    return 1 if div else 0
