"""Outcome tables of generated programs under both runners (shared by C03, C04, C13).

A *program item* is (space, index, text, term-or-None, package, bindings_src-or-None).  ``table``
evaluates every item under one runner kind in forked workers and returns, per item, the list of
outcomes under the activations (generated items: empty / right / wrong; corpus items: the
scenario's own bindings) plus the rendering check of every raised library exception.
"""
import functools

from .. import celrun, corpus, gen, outcome, runner


@functools.lru_cache(maxsize=None)
def items(space, tier):
    if space == "leaves":
        return [(space, i, gen.text(t), t, None, None) for i, t in enumerate(gen.leaves() + gen.typed_results() + [("raw", None, e) for _n, e in gen.ERROR_LEAVES] + [("raw", None, s) for s in gen.SPELLINGS])]
    if space == "level1":
        return [(space, i, gen.text(t), t, None, None) for i, t in enumerate(gen.level1())]
    if space == "level2":
        return [(space, i, gen.text(t), t, None, None) for i, t in enumerate(gen.level2(full=(tier == "thorough")))]
    if space == "limits":
        return [(space, i, gen.text(t), t, None, None) for i, t in enumerate(gen.limits_family())]
    if space == "corpus":
        return [(space, i, s["expr"], None, s["container"], s["bindings_src"]) for i, s in enumerate(corpus.scenarios())]
    raise ValueError(space)


def render_check(ex):
    """str() and repr() of a raised library exception must produce text."""
    bad = []
    for name, fn in (("str", str), ("repr", repr)):
        try:
            r = fn(ex)
            if not isinstance(r, str):
                bad.append(f"{name}:not-a-str")
        except RecursionError:
            bad.append(f"{name}:RecursionError")
        except Exception as e2:  # noqa
            bad.append(f"{name}:{type(e2).__name__}")
    return bad


def eval_shard(task):
    kind, space, lo, hi, tier = task
    import celpy
    from celpy.celparser import CELParseError

    acts = gen.activations()
    its = items(space, tier)[lo:hi]
    out = []
    for (_sp, idx, text, _term, package, bsrc) in its:
        renders = []
        prog = celrun.Prog(kind, text, package=package)
        if bsrc is not None:
            b = corpus.build_bindings(bsrc) or {}
            actlist = [("own", b)]
        else:
            actlist = [(n, acts[n]) for n in gen.ACT_NAMES]
        res = []
        for _n, b in actlist:
            o, raw = prog.eval_raw(dict(b))
            if isinstance(raw, (celpy.CELEvalError, CELParseError)):
                rb = render_check(raw)
                if rb:
                    renders.extend(rb)
            res.append(o)
        out.append((idx, tuple(res), tuple(sorted(set(renders)))))
    return out


def table(ctx, kind, spaces, nshards=48):
    """-> {space: [ (outcomes, renders) by index ]}"""
    tasks = []
    for sp in spaces:
        n = len(items(sp, ctx.tier))
        for lo, hi in runner.shards(n, nshards if n > 2000 else 8):
            tasks.append((kind, sp, lo, hi, ctx.tier))
    res = runner.pmap(eval_shard, tasks)
    tab = {sp: [None] * len(items(sp, ctx.tier)) for sp in spaces}
    for t, r in zip(tasks, res):
        for idx, outs, rend in r:
            tab[t[1]][idx] = (outs, rend)
    for sp in spaces:
        if any(x is None for x in tab[sp]):
            raise runner.HarnessError(f"table for {sp}/{kind} incomplete")
    return tab


def root_of(term, text):
    if term is None:
        return "corpus"
    k = term[0]
    if k in ("bin", "un"):
        return f"{k}:{term[1]}"
    if k == "call":
        return f"call:{term[1]}"
    if k == "meth":
        return f"meth:{term[2]}"
    if k == "macro":
        return f"macro:{term[2]}:{term[4]}"
    if k in ("lit", "var"):
        return f"{k}:{term[1]}"
    if k == "raw":
        return "raw:" + term[2][:40]
    return k


def subterms(term):
    if term is None:
        return []
    k = term[0]
    if k == "bin":
        return [term[2], term[3]]
    if k == "un":
        return [term[2]]
    if k in ("idx",):
        return [term[1], term[2]]
    if k in ("sel", "has"):
        return [term[1]]
    if k == "call":
        return list(term[2:])
    if k == "meth":
        return [term[1]] + list(term[3:])
    if k == "macro":
        return [term[1]]
    if k == "cond":
        return [term[1], term[2], term[3]]
    return []


def kindsig(term):
    """operand kind pattern of a term, for signatures (kind of each direct operand)."""
    def k1(t):
        if t[0] in ("lit", "var"):
            return f"{t[0]}:{t[1]}"
        if t[0] == "raw":
            return "raw:" + t[2][:24]
        return t[0]
    return ",".join(k1(s) for s in subterms(term))
