"""C18 Policy translation preserves the filter's boolean structure (DESIGN.md section 3, C18).

Bounded-exhaustive: every filter-tree shape within the bound (connectives list / and / or / not,
1-3 children, singleton connectives included) is turned into a Custodian filter document whose
leaves are real primitive clauses, translated with the real translator (both entry points:
``C7N_Rewriter.logical_connector`` and ``C7N_Rewriter.c7n_rewrite`` on YAML text), parsed with the
library's parser and evaluated with the library's interpreter under every reachable truth
assignment.  The meaning of a leaf is the value of the text emitted for that leaf ALONE under the
same bindings, so the oracle (mc.ref.c7nbool) never depends on what a clause translates to.

Sub-spaces (bounds per tier in ``bounds()``; shapes are bounded by depth, leaves and connective nodes)
  A  value leaves:   every shape x {all leaves ``resource["ki"]``, value forms cycling by position} x both
                     entry points
  B  one compound:   every smaller shape x every leaf position x every leaf family of the alphabet there
                     (the other leaves are plain ``resource["ki"]``)
  C  all compound:   every shape with <= 2 leaves x every tuple of leaf families that has a common resource
                     type, and (representatives of each top-level operator class) on deeper / 3-leaf shapes

A violating tree is shrunk (children hoisted / dropped, compound leaves replaced by plain ones, while it still
violates the same way) and the residue, with list/and -> all, or -> any, not -> nall and leaves named by the
top-level operator class of their own text, is the root-cause signature.

Compound clauses call Custodian host functions; these are STUBS supplied through ``functions=`` to the
interpreted runner (what the real c7nlib functions compute is C17's business, whether they can be
reached under the compiled runner is C14's).
"""
import collections
import contextlib
import functools
import io
import itertools
import json

from .. import celrun, outcome, repo, runner
from ..ref import c7nbool
from .. import bigframe

LEVEL = "exploration"
NOW = "2020-09-10T07:12:13Z"  # a Thursday, 07h UTC
PAST, FUTURE = "2020-01-01T00:00:00Z", "2021-01-01T00:00:00Z"

# ---------------------------------------------------------------------------------------------------
# World: what the stub host functions see.  Set immediately before every evaluation.
# ---------------------------------------------------------------------------------------------------
WORLD = {}


def _cel(x):
    from celpy.adapter import json_to_cel
    return json_to_cel(x)


def _ts(text):
    import celpy.celtypes as ct
    return ct.TimestampType(text)


def _stub_marked_key(tags, name):
    import celpy.celtypes as ct
    m = WORLD.get("marked", {}).get(str(name))
    if m is None:
        return None
    return ct.MapType({ct.StringType("message"): ct.StringType("m"), ct.StringType("action"): ct.StringType(m[0]),
                       ct.StringType("action_date"): _ts(m[1])})


def _stub_image(resource):
    import celpy.celtypes as ct
    img = WORLD.get("image", {})
    out = ct.MapType()
    for k, v in img.items():
        out[ct.StringType(k)] = _ts(v) if k == "CreationDate" else _cel(v)
    return out


def _stub_get_metrics(resource, request):
    return _cel(WORLD.get("metrics", {}).get(str(request["MetricName"]), []))


def _stub_security_group(sg_id):
    return _cel(WORLD.get("sg", {}))


def _stub_get_related_ids(resource):
    return _cel(["sg-1"])


def _stub_value_from(url, fmt=None):
    return _cel(["good"])


def _stub_subnet(subnet_id):
    return _cel({"SubnetID": str(subnet_id)})


def _stub_flow_logs(resource):
    return _cel(WORLD.get("flow_logs", []))


def _stub_credentials(resource):
    return _cel(WORLD.get("cred", {}))


def _stub_kms_alias(resource):
    return _cel(WORLD.get("kms_alias", {}))


def _stub_kms_key(key_id):
    return _cel(WORLD.get("kms_key", {}))


def _stub_key(tags, name):
    return _cel(str(name))


def _stub_resource_schedule(tag_value):
    return _cel(WORLD.get("sched", {}).get(str(tag_value), {"on": [], "off": []}))


def _stub_get_resource_policy(resource, name=None):
    return _cel(WORLD.get("policy", []))


def _stub_all_images():
    return _cel(WORLD.get("all_images", []))


def _stub_get_access_log(resource):
    return _cel(WORLD.get("access_log", []))


def _stub_get_health_events(resource, statuses):
    wanted = {str(s) for s in statuses}
    return _cel([e for e in WORLD.get("health", []) if e["status"] in wanted])


def _stub_shield_protection(resource):
    import celpy.celtypes as ct
    return ct.BoolType(bool(WORLD.get("shield", False)))


def _stub_web_acls(resource):
    return _cel(WORLD.get("web_acls", []))


STUBS = {
    "marked_key": _stub_marked_key, "image": _stub_image, "get_metrics": _stub_get_metrics,
    "security_group": _stub_security_group, "get_related_ids": _stub_get_related_ids,
    "value_from": _stub_value_from, "subnet": _stub_subnet, "flow_logs": _stub_flow_logs,
    "credentials": _stub_credentials, "kms_alias": _stub_kms_alias, "kms_key": _stub_kms_key,
    "key": _stub_key, "resource_schedule": _stub_resource_schedule,
    "get_resource_policy": _stub_get_resource_policy, "all_images": _stub_all_images,
    "get_access_log": _stub_get_access_log, "get_health_events": _stub_get_health_events,
    "shield_protection": _stub_shield_protection, "shield_subscription": _stub_shield_protection,
    "web_acls": _stub_web_acls,
}


# ---------------------------------------------------------------------------------------------------
# Leaf alphabet.  A family knows, for leaf index i: the clause (a Custodian filter dict), the resource
# types under which the translator accepts it (None = any), the *slot* whose state decides its truth
# (two leaves with the same slot cannot be set independently), and its states: each state is a function
# that writes the leaf's inputs into (resource dict, event dict, WORLD dict).
# ---------------------------------------------------------------------------------------------------
def K(i):
    return f"k{i}"


def _put(key, value):
    def f(i, res, ev, world):
        res[key if not callable(key) else key(i)] = value
    return f


def _res(value):
    return lambda i, res, ev, world: res.__setitem__(K(i), value)


def _world(path, value=None, fn=None):
    """state writer: world[path[0]][path[1] (callable of i allowed)] = value"""
    def f(i, res, ev, world):
        top = world.setdefault(path[0], {})
        k = path[1](i) if callable(path[1]) else path[1]
        top[k] = fn(i) if fn is not None else value
    return f


def _append(name, item_fn):
    def f(i, res, ev, world):
        world.setdefault(name, []).append(item_fn(i))
    return f


def _none(i, res, ev, world):
    pass


def _tag(i, res, ev, world):
    # lower-case "key" is what the schedule rewriter's text reads (x.key), "Key" what everything else reads;
    # the aws: prefix keeps these tags out of tag-count's census
    res["Tags"].append({"key": f"aws:t{i}", "Key": f"aws:t{i}", "Value": f"sched{i}"})


def _tag_sched(match):
    def f(i, res, ev, world):
        _tag(i, res, ev, world)
        entry = {"tz": "UTC", "days": [0, 1, 2, 3, 4, 5, 6], "hour": 7 if match else 3}
        world.setdefault("sched", {})[f"aws:t{i}"] = {"on": [entry], "off": [entry]}
    return f


def _filler_tags(i, res, ev, world):
    res["Tags"].extend([{"key": "f1", "Key": "f1", "Value": "1"}, {"key": "f2", "Key": "f2", "Value": "2"}])


def _netloc(kind):
    def f(i, res, ev, world):
        res["Description"] = f"ign{i}" if kind == "ignored" else "plain"
        res[K(i)] = "same"
        world.setdefault("sg", {})[K(i)] = "same" if kind != "mismatch" else "other"
    return f


class Fam:
    def __init__(self, name, clause, states, slot=None, rtypes=None, rep=False):
        self.name, self.clause, self.states, self.rtypes, self.rep = name, clause, states, rtypes, rep
        self.slot = slot  # None: per-leaf slot


def _v(op, value):
    return lambda i: {"type": "value", "key": K(i), "op": op, "value": value}


FAMILIES = [
    # -- type: value in its boolean / relational / negated-call forms
    Fam("v_true", _v("eq", True), [_res(False), _res(True)], rep=True),
    Fam("v_false", _v("eq", False), [_res(False), _res(True)], rep=True),
    Fam("v_ne_true", _v("ne", True), [_res(False), _res(True)]),
    Fam("v_ne_false", _v("not-equal", "false"), [_res(False), _res(True)]),
    Fam("v_eq_str", _v("eq", "T"), [_res("F"), _res("T")]),
    Fam("v_in", _v("in", ["a", "b"]), [_res("z"), _res("a")]),
    Fam("v_ni", _v("ni", ["a", "b"]), [_res("a"), _res("z")]),
    Fam("v_not_in", _v("not-in", ["a", "b"]), [_res("b"), _res("z")]),
    Fam("v_size", lambda i: {"type": "value", "key": K(i), "op": "gt", "value": 1, "value_type": "size"},
        [_res(["x"]), _res(["x", "y"])]),
    # the presence tests translate to helper calls: their results must combine under && || ! like any other clause
    Fam("v_present", lambda i: {"type": "value", "key": K(i), "value": "present"}, [_res(""), _res("x")], rep=True),
    Fam("v_absent", lambda i: {"type": "value", "key": K(i), "value": "absent"}, [_res("x"), _res("")]),
    # -- compound families
    Fam("marked", lambda i: {"type": "marked-for-op", "tag": f"t{i}", "op": "stop"},
        [_world(("marked", lambda i: f"t{i}"), ("other", PAST)), _world(("marked", lambda i: f"t{i}"), ("stop", PAST)),
         _world(("marked", lambda i: f"t{i}"), ("stop", FUTURE))], rep=True),
    Fam("image_age", lambda i: {"type": "image-age", "days": 1, "op": "ge"},
        [_world(("image", "CreationDate"), NOW), _world(("image", "CreationDate"), PAST)], slot="image_age"),
    Fam("event", lambda i: {"type": "event", "key": K(i), "op": "eq", "value": "T"},
        [lambda i, res, ev, world: ev.__setitem__(K(i), "F"), lambda i, res, ev, world: ev.__setitem__(K(i), "T")]),
    Fam("metrics", lambda i: {"type": "metrics", "name": f"m{i}", "days": 1, "value": 30, "op": "less-than"},
        [_world(("metrics", lambda i: f"m{i}"), [50, 60]), _world(("metrics", lambda i: f"m{i}"), [50, 10])]),
    Fam("age", lambda i: {"type": "age", "days": 21, "op": "gt"},
        [_put("StartTime", "2020-09-09T00:00:00Z"), _put("StartTime", PAST)], slot="age", rtypes=("ebs-snapshot",)),
    Fam("security_group", lambda i: {"type": "security-group", "key": K(i), "op": "eq", "value": "T"},
        [_world(("sg", K), "F"), _world(("sg", K), "T")], rtypes=("elb", "efs")),
    Fam("subnet", lambda i: {"type": "subnet", "key": K(i), "op": "in", "value_from": {"url": "u://x", "format": "txt"}},
        [_res("bad"), _res("good")]),
    Fam("flow_logs", lambda i: {"type": "flow-logs", "enabled": True, "destination-type": f"d{i}"},
        [_none, _append("flow_logs", lambda i: {"LogDestinationType": f"d{i}", "FlowLogStatus": "no"}),
         _append("flow_logs", lambda i: {"LogDestinationType": "elsewhere", "FlowLogStatus": "no"})], rep=True),
    Fam("flow_logs_multi", lambda i: {"type": "flow-logs", "enabled": True, "destination-type": f"d{i}", "status": f"st{i}"},
        [_none, _append("flow_logs", lambda i: {"LogDestinationType": f"d{i}", "FlowLogStatus": "no"}),
         _append("flow_logs", lambda i: {"LogDestinationType": "no", "FlowLogStatus": f"st{i}"}),
         _append("flow_logs", lambda i: {"LogDestinationType": "no", "FlowLogStatus": "no"})]),
    # no ``enabled:`` key: the clause is just the alternatives of its attributes (a top-level ``||``)
    Fam("flow_logs_noenabled", lambda i: {"type": "flow-logs", "destination-type": f"d{i}", "status": f"st{i}"},
        [_append("flow_logs", lambda i: {"LogDestinationType": "no", "FlowLogStatus": "no"}),
         _append("flow_logs", lambda i: {"LogDestinationType": "no", "FlowLogStatus": f"st{i}"}),
         _append("flow_logs", lambda i: {"LogDestinationType": f"d{i}", "FlowLogStatus": "no"})]),
    Fam("flow_logs_off", lambda i: {"type": "flow-logs", "enabled": False},
        [_append("flow_logs", lambda i: {"LogDestinationType": "any", "FlowLogStatus": "no"}), _none], slot="flow_logs_off"),
    Fam("tag_count", lambda i: {"type": "tag-count", "count": 2}, [_none, _filler_tags], slot="tag_count", rep=True),
    Fam("vpc", lambda i: {"type": "vpc", "key": "VpcId", "op": "eq", "value": "T"},
        [_put("VPCId", "F"), _put("VPCId", "T")], slot="vpc", rtypes=("elb",)),
    Fam("vpc_not_in", lambda i: {"type": "vpc", "key": "VpcId", "op": "not-in", "value_from": {"url": "u://x"}},
        [_put("VPCId", "good"), _put("VPCId", "T")], slot="vpc", rtypes=("elb",)),
    Fam("credential", lambda i: {"type": "credential", "key": K(i), "value": True},
        [_world(("cred", K), False), _world(("cred", K), True)]),
    Fam("image", lambda i: {"type": "image", "key": K(i), "op": "eq", "value": "T"},
        [_world(("image", K), "F"), _world(("image", K), "T")]),
    Fam("kms_alias", lambda i: {"type": "kms-alias", "key": K(i), "op": "eq", "value": "T"},
        [_world(("kms_alias", K), "F"), _world(("kms_alias", K), "T")]),
    Fam("kms_key", lambda i: {"type": "kms-key", "key": K(i), "op": "eq", "value": "T"},
        [_world(("kms_key", K), "F"), _world(("kms_key", K), "T")], rtypes=("efs", "sqs")),
    Fam("onhour_optout", lambda i: {"type": "onhour", "default_tz": "UTC", "onhour": 7, "opt-out": True, "tag": f"aws:t{i}"},
        [_tag, _none], rep=True),
    Fam("offhour_optout", lambda i: {"type": "offhour", "default_tz": "UTC", "offhour": 7, "opt-out": True, "tag": f"aws:t{i}"},
        [_tag, _none]),
    Fam("onhour", lambda i: {"type": "onhour", "default_tz": "UTC", "onhour": 8, "tag": f"aws:t{i}"},
        [_none, _tag_sched(True), _tag_sched(False)], rep=True),
    Fam("offhour", lambda i: {"type": "offhour", "default_tz": "UTC", "offhour": 8, "tag": f"aws:t{i}"},
        [_none, _tag_sched(True), _tag_sched(False)]),
    Fam("cross_account", lambda i: {"type": "cross-account"},
        [_none, _append("policy", lambda i: "acct")], slot="cross_account", rtypes=("sqs",)),
    Fam("used", lambda i: {"type": "used"},
        [_none, _append("all_images", lambda i: "ami-1")], slot="used", rtypes=("ami",)),
    # the same clause in its one-word spelling (``filters: [used]``), anywhere in a tree
    Fam("used_word", lambda i: "used",
        [_none, _append("all_images", lambda i: "ami-1")], slot="used", rtypes=("ami",)),
    Fam("is_logging", lambda i: {"type": "is-logging"},
        [_append("access_log", lambda i: {"Enabled": False}), _append("access_log", lambda i: {"Enabled": True})],
        slot="is_logging", rtypes=("elb",)),
    Fam("is_not_logging", lambda i: {"type": "is-not-logging"},
        [_append("access_log", lambda i: {"Enabled": True}), _append("access_log", lambda i: {"Enabled": False})],
        slot="is_logging", rtypes=("elb",)),
    Fam("health_event", lambda i: {"type": "health-event", "statuses": [f"s{i}"]},
        [_none, _append("health", lambda i: {"status": f"s{i}"})]),
    Fam("shield", lambda i: {"type": "shield-enabled"},
        [_none, lambda i, res, ev, world: world.__setitem__("shield", True)], slot="shield"),
    Fam("shield_off", lambda i: {"type": "shield-enabled", "state": False},
        [lambda i, res, ev, world: world.__setitem__("shield", True), _none], slot="shield"),
    Fam("waf", lambda i: {"type": "waf-enabled", "web-acl": f"w{i}"},
        [_none, _append("web_acls", lambda i: f"w{i}")]),
    Fam("waf_off", lambda i: {"type": "waf-enabled", "state": False, "web-acl": f"w{i}"},
        [_append("web_acls", lambda i: f"w{i}"), _none]),
    Fam("netloc", lambda i: {"type": "network-location", "compare": ["resource", "security-group"],
                             "ignore": [{"Description": f"ign{i}"}], "key": K(i), "max-cardinality": 1},
        [_netloc("ignored"), _netloc("ok"), _netloc("mismatch")], rep=True),
]
FAM = {f.name: f for f in FAMILIES}
PLAIN = "v_true"
CYCLE = ["v_false", "v_eq_str", "v_ni", "v_ne_true", "v_in"]          # pattern "cycle" of sub-space A
REPS = [f.name for f in FAMILIES if f.rep]                             # one family per top-level operator class
RTYPE_ORDER = ["elb", "efs", "sqs", "ebs-snapshot", "ami"]
DEFAULT_RTYPE = "ec2"


def pick_rtype(fams):
    """First resource type every restricted leaf family accepts; None if there is none."""
    need = [set(FAM[f].rtypes) for f in fams if FAM[f].rtypes]
    if not need:
        return DEFAULT_RTYPE
    ok = set.intersection(*need)
    for r in RTYPE_ORDER:
        if r in ok:
            return r
    return None


# ---------------------------------------------------------------------------------------------------
# Translation (real translator, both entry points) and evaluation (real parser + interpreter)
# ---------------------------------------------------------------------------------------------------
def translate(entry, rtype, filt):
    """-> ("ok", text) | ("raise", class name)"""
    from xlate.c7n_to_cel import C7N_Rewriter
    buf = io.StringIO()
    try:
        with contextlib.redirect_stdout(buf):   # network_location_rewrite prints its clauses
            if entry == "primitive":
                return "ok", C7N_Rewriter.primitive(rtype, filt)
            if entry == "logical_connector":
                return "ok", C7N_Rewriter.logical_connector(rtype, filt)
            import yaml
            doc = yaml.safe_dump({"name": "p", "resource": rtype, "filters": filt}, default_flow_style=False)
            return "ok", C7N_Rewriter.c7n_rewrite(doc)
    except Exception as ex:  # noqa
        return "raise", type(ex).__name__


_PROGS = {}


def prog(text):
    p = _PROGS.get(text)
    if p is None:
        if len(_PROGS) > 4000:
            _PROGS.clear()
        import celpy.c7nlib as c7nlib
        # present / absent are pure helpers: the library's own implementations are used, everything else is a stub
        p = _PROGS[text] = celrun.Prog("I", text, functions=dict(STUBS, present=c7nlib.present, absent=c7nlib.absent))
    return p


def slots_of(fams):
    """Ordered distinct slots of a leaf-family tuple -> [(slot, [leaf indices], n_states)]."""
    out, seen = [], {}
    for i, f in enumerate(fams):
        fam = FAM[f]
        s = fam.slot or f"leaf{i}"
        if s in seen:
            seen[s][1].append(i)
            seen[s][2] = min(seen[s][2], len(fam.states))
        else:
            seen[s] = [s, [i], len(fam.states)]
            out.append(seen[s])
    return out


def build_world(fams, state):
    """state: one state index per slot (in slots_of order) -> raw world (resource dict, event dict, WORLD dict)"""
    res = {"Tags": [], "SecurityGroups": ["sg-1"], "SecurityGroupId": "sg-1", "KmsKeyId": "key-1",
           "KmsMasterKeyId": "key-1", "ImageId": "ami-1", "Description": "plain"}
    ev, world = {}, {}
    for (slot, idxs, _n), st in zip(slots_of(fams), state):
        for i in idxs:
            FAM[fams[i]].states[st](i, res, ev, world)
    return res, ev, world


def world_key(raw):
    return json.dumps(raw, sort_keys=True)


_EVALS = {}
STATS = collections.Counter()


def run_text(text, raw, key=None):
    """Outcome of the library evaluating ``text`` in the raw world; memoised per (text, world): the same text in
    the same bindings is evaluated once per worker (history-independence of evaluation is C05's subject)."""
    key = key or world_key(raw)
    o = _EVALS.get((text, key))
    if o is None:
        if len(_EVALS) > 150000:
            _EVALS.clear()
        res, ev, world = raw
        WORLD.clear()
        WORLD.update(world)
        STATS["library_evaluations"] += 1
        o = _EVALS[(text, key)] = prog(text).eval({"resource": _cel(res), "now": _ts(NOW), "event": _cel(ev)})
    return o


def as_bool(o):
    if o[0] == "V" and o[1] == "bool":
        return o[2]
    return None


def leaf_text(fam, i, rtype):
    clause = FAM[fam].clause(i)
    # what a clause means alone: a one-word clause is handed to the clause translator itself
    return translate("primitive" if isinstance(clause, str) else "logical_connector", rtype, clause)


def top_op(text):
    """Top-level operator class of a CEL text, by a scanner that knows only brackets, string quotes
    and CEL's precedence order (?: < || < && < relation < unary !)."""
    depth, i, n = 0, 0, len(text)
    found = set()
    while i < n:
        c = text[i]
        if c in "\"'":
            q = c
            i += 1
            while i < n and text[i] != q:
                i += 2 if text[i] == "\\" else 1
        elif c in "([{":
            depth += 1
        elif c in ")]}":
            depth -= 1
        elif depth == 0:
            two = text[i:i + 2]
            if c == "?":
                found.add("cond")
            elif two == "||":
                found.add("or")
                i += 1
            elif two == "&&":
                found.add("and")
                i += 1
            elif two in ("==", "!=", "<=", ">="):
                found.add("rel")
                i += 1
            elif c in "<>" or text[i:i + 4] == " in ":
                found.add("rel")
        i += 1
    for k in ("cond", "or", "and", "rel"):
        if k in found:
            return k
    return "not" if text.lstrip().startswith("!") else "atom"


# ---------------------------------------------------------------------------------------------------
# One case = (tree, leaf families, entry point).  Judge it over every reachable world.
# ---------------------------------------------------------------------------------------------------
class Verdict:
    __slots__ = ("status", "kind", "text", "world", "expected", "observed", "leaf_values", "worlds", "skipped", "true", "false", "detail")


def judge(tree, fams, entry, first_only=False):
    """Returns a Verdict: status in {"ok", "violation", "no-rtype", "leaf-unusable"}."""
    v = Verdict()
    v.kind = v.text = v.world = v.expected = v.observed = v.leaf_values = v.detail = None
    v.worlds = v.skipped = v.true = v.false = 0
    rtype = pick_rtype(fams)
    if rtype is None:
        v.status = "no-rtype"
        return v
    leaf_texts = []
    for i, f in enumerate(fams):
        st, t = leaf_text(f, i, rtype)
        if st != "ok" or prog(t).failed is not None:
            v.status, v.detail = "leaf-unusable", f"leaf {i} ({f}) alone: {st} {t!r} {prog(t).failed if st == 'ok' else ''}"
            return v
        leaf_texts.append(t)
    filt = c7nbool.to_filter(tree, lambda i: FAM[fams[i]].clause(i))
    st, text = translate(entry, rtype, filt)
    v.text = text
    v.status = "ok"
    if st != "ok":
        v.status, v.kind, v.observed, v.expected = "violation", "translator-raised", text, "CEL text"
        return v
    p = prog(text)
    if p.failed is not None:
        v.status, v.kind, v.observed, v.expected = "violation", "tree-text-rejected", outcome.short(p.failed), "text that parses"
        return v
    slots = slots_of(fams)
    for state in itertools.product(*[range(s[2]) for s in slots]):
        raw = build_world(fams, state)
        wkey = world_key(raw)
        vals = [as_bool(run_text(t, raw, wkey)) for t in leaf_texts]
        v.worlds += 1
        if any(x is None for x in vals):
            v.skipped += 1
            continue
        exp = c7nbool.evaluate(tree, vals)
        got = run_text(text, raw, wkey)
        if exp:
            v.true += 1
        else:
            v.false += 1
        if as_bool(got) is exp:
            continue
        if v.status == "ok":
            v.status = "violation"
            v.kind = "wrong-value" if as_bool(got) is not None else ("error-instead-of-value" if got[0] == "E" else "other-outcome")
            v.world, v.expected, v.observed, v.leaf_values = list(state), exp, outcome.short(got), vals
            if first_only:
                return v
    return v


# -- root-cause signature: shrink the violating tree, then abstract it ------------------------------------------
_SHRINK_CACHE = {}


def _violates(tree, fams, entry, kind):
    tree, n = c7nbool.renumber(tree)
    key = (tree, fams, entry, kind)
    r = _SHRINK_CACHE.get(key)
    if r is None:
        if len(_SHRINK_CACHE) > 100000:
            _SHRINK_CACHE.clear()
        vd = judge(tree, fams, entry, first_only=True)
        r = _SHRINK_CACHE[key] = (vd.status == "violation" and vd.kind == kind)
    return r


def _variants(tree):
    """Strictly simpler trees: a child hoisted over its parent, one child dropped, a multi-child ``not``
    replaced by the bare conjunction."""
    if tree[0] == "leaf":
        return
    kind, kids = tree
    for k in kids:
        yield k
    if kind == "not" and len(kids) > 1:
        yield ("list", kids)                  # the same conjunction without the negation around it
    if len(kids) > 1:
        for j in range(len(kids)):
            yield (kind, kids[:j] + kids[j + 1:])
    for j, k in enumerate(kids):
        for k2 in _variants(k):
            yield (kind, kids[:j] + (k2,) + kids[j + 1:])


def shrink(tree, fams, entry, kind):
    """Greedy, deterministic: smallest sub-structure (and plainest leaves) that still violates the same way.
    Leaves keep their family while the tree shrinks; indices are re-assigned left to right."""
    changed = True
    while changed:
        changed = False
        for cand in _variants(tree):
            ids = c7nbool.leaf_ids(cand)
            cf = tuple(fams[i] for i in ids)
            if _violates(cand, cf, entry, kind):
                tree, fams = c7nbool.renumber(cand)[0], cf
                changed = True
                break
        if not changed:
            for j, f in enumerate(fams):
                if f != PLAIN:
                    cf = fams[:j] + (PLAIN,) + fams[j + 1:]
                    if _violates(tree, cf, entry, kind):
                        fams, changed = cf, True
                        break
    return tree, fams


def abstract(tree, classes):
    """list/and -> all, or -> any, not -> nall; singleton all/any vanish; children sorted: the residue names
    a root cause, not a spelling."""
    if tree[0] == "leaf":
        return classes[tree[1]]
    kids = sorted(abstract(t, classes) for t in tree[1])
    name = {"list": "all", "and": "all", "or": "any", "not": "nall"}[tree[0]]
    if len(kids) == 1 and name in ("all", "any"):
        return kids[0]
    return f"{name}({','.join(kids)})"


def signature(tree, fams, entry, kind):
    mt, mf = shrink(tree, fams, entry, kind)
    rtype = pick_rtype(mf)
    classes = [top_op(leaf_text(f, i, rtype)[1]) for i, f in enumerate(mf)]
    return f"{kind}:{abstract(mt, classes)}", mt, mf


def record(part, tree, fams, entry, space):
    vd = judge(tree, fams, entry)
    if vd.status == "no-rtype":
        return "no-rtype"
    nontrivial = vd.status == "violation" or (vd.status == "ok" and (vd.true + vd.false) > 0)
    part.case(nontrivial=nontrivial, evaluations=max(1, vd.worlds))
    part.extra["worlds_compared"] += vd.true + vd.false
    part.extra["worlds_skipped_leaf_not_boolean"] += vd.skipped
    if vd.status == "leaf-unusable":
        part.outcome("leaf-unusable")
        part.extra["leaf_unusable:" + (vd.detail or "")[:60]] += 1
        return vd.status
    part.outcome("T" if vd.true and not vd.false else ("F" if vd.false and not vd.true else ("T+F" if vd.true else "no-boolean-world")))
    for f in fams:
        part.extra[f"fam_seen:{f}"] += 1
    if vd.status == "violation":
        sig, mt, mf = signature(tree, fams, entry, vd.kind)
        wit = {"tree": c7nbool.to_json(tree), "families": list(fams), "entry": entry, "world": vd.world, "space": space,
               "minimal_tree": c7nbool.to_json(mt), "minimal_families": list(mf)}
        part.violation(vd.kind, sig, wit,
                       f"{c7nbool.show(tree, lambda i: fams[i] + str(i))} via {entry} -> {vd.text!r}; world {vd.world} leaves {vd.leaf_values}: "
                       f"expected {vd.expected}, observed {vd.observed}; minimal: {c7nbool.show(mt, lambda i: mf[i] + str(i))}")
    return vd.status


ENTRIES = ("logical_connector", "c7n_rewrite")


def bounds(tier):
    """(max depth, max leaves, max connectives) per sub-space; C is a list of (shape bound, min leaves, family list)."""
    names = [f.name for f in FAMILIES]
    if tier == "thorough":
        return {"A": (4, 5, 4), "B": (3, 4, 3), "B_all": (3, 3, 3),
                "C": [((3, 2, 2), 1, names), ((2, 3, 2), 3, REPS)]}
    return {"A": (3, 5, 3), "B": (3, 3, 2), "B_all": (3, 3, 2),
            "C": [((1, 2, 1), 1, names), ((3, 2, 2), 1, REPS)]}


@functools.lru_cache(maxsize=4)
def _shapes_cached(d, n, m):
    return c7nbool.shapes(d, n, m)


def cycle_max_leaves(tier):
    return 4


def shard_A(task):
    tier, lo, hi = task
    part = runner.Part()
    d, n, m = bounds(tier)["A"]
    ss = _shapes_cached(d, n, m)
    done = 0
    for tree in ss[lo:hi]:
        nl = c7nbool.leaves(tree)
        for pattern in ("plain", "cycle"):
            if pattern == "cycle" and nl > cycle_max_leaves(tier):
                continue
            fams = tuple(PLAIN if pattern == "plain" else CYCLE[i % len(CYCLE)] for i in range(nl))
            for entry in ENTRIES:
                record(part, tree, fams, entry, "A")
                done += 1
    part.space("A:value-leaves", 0, done)
    part.extra["library_evaluations"] += STATS.pop("library_evaluations", 0)
    if lo == 0:
        part.sample({"space": "A", "first": c7nbool.show(ss[0]), "last": c7nbool.show(ss[-1]), "patterns": ["plain", "cycle"], "entries": list(ENTRIES)})
    return part


@functools.lru_cache(maxsize=2)
def placements(tier):
    """Sub-space B: (tree, position, family).  Representatives over the larger shape bound, every family over
    the smaller one (the two sets of shapes are nested, so the union is taken)."""
    b = bounds(tier)
    big = c7nbool.shapes(*b["B"])
    small = set(c7nbool.shapes(*b["B_all"]))
    out = []
    for fam in FAMILIES:                      # family outermost: equal texts meet in the same worker's memo
        if fam.name == PLAIN:
            continue
        for tree in big:
            if fam.rep or tree in small:
                for pos in range(c7nbool.leaves(tree)):
                    out.append((tree, pos, fam.name))
    return out


def count_placements(tier):
    b = bounds(tier)
    nrep = len([f for f in FAMILIES if f.rep and f.name != PLAIN])
    nall = len([f for f in FAMILIES if f.name != PLAIN])
    big = c7nbool.count_leaf_positions(*b["B"])
    small = c7nbool.count_leaf_positions(*b["B_all"])
    return small * nall + (big - small) * nrep


def shard_B(task):
    tier, lo, hi = task
    part = runner.Part()
    pl = placements(tier)
    done = 0
    for tree, pos, f in pl[lo:hi]:
        nl = c7nbool.leaves(tree)
        fams = tuple(f if i == pos else PLAIN for i in range(nl))
        entry = ENTRIES[(pos + nl) % 2] if tier != "thorough" else None
        for e in ([entry] if entry else ENTRIES):
            record(part, tree, fams, e, "B")
            done += 1
    part.space("B:one-compound-leaf", 0, done)
    part.extra["library_evaluations"] += STATS.pop("library_evaluations", 0)
    if lo == 0:
        part.sample({"space": "B", "families": [f.name for f in FAMILIES], "representatives": REPS})
    return part


@functools.lru_cache(maxsize=2)
def tuples_C(tier):
    """Union of the C specifications (a later specification skips what an earlier one already contains)."""
    out, seen = [], set()
    for (bound, min_leaves, names) in bounds(tier)["C"]:
        ss = c7nbool.shapes(*bound, min_leaves=min_leaves)
        for n in range(min_leaves, bound[1] + 1):
            trees = [t for t in ss if c7nbool.leaves(t) == n]
            for fams in itertools.product(names, repeat=n):   # family tuple outermost (memo locality)
                for tree in trees:
                    if (tree, fams) not in seen:
                        seen.add((tree, fams))
                        out.append((tree, fams))
    return out


def count_C(tier):
    """Inclusion-exclusion over the (nested) specifications, from the shape-count recurrence alone."""
    specs = bounds(tier)["C"]
    total = 0
    for (d, n, m), lo, names in specs:
        total += sum(c7nbool.count_shapes(d, k, m, k) * len(names) ** k for k in range(lo, n + 1))
    if len(specs) == 2:
        ((d1, n1, m1), lo1, f1), ((d2, n2, m2), lo2, f2) = specs
        common = len(set(f1) & set(f2))
        d, n, m, lo = min(d1, d2), min(n1, n2), min(m1, m2), max(lo1, lo2)
        total -= sum(c7nbool.count_shapes(d, k, m, k) * common ** k for k in range(lo, n + 1))
    return total


def shard_C(task):
    tier, lo, hi = task
    part = runner.Part()
    tl = tuples_C(tier)
    done = 0
    for tree, fams in tl[lo:hi]:
        r = record(part, tree, fams, "logical_connector", "C")
        if r == "no-rtype":
            part.extra["C_tuples_without_common_resource_type"] += 1
        done += 1
    part.space("C:all-leaves-compound", 0, done)
    part.extra["library_evaluations"] += STATS.pop("library_evaluations", 0)
    return part


def check_alphabet():
    """Every family's clause must translate and parse alone and take both truth values in its own states
    on the tree under test -- otherwise it is reported in the evidence (not a violation: what a clause
    translates to is not this property's subject), and a family that never yields a boolean makes its
    cases UNSPEC."""
    notes = {}
    for f in FAMILIES:
        rtype = pick_rtype((f.name,))
        st, t = leaf_text(f.name, 0, rtype)
        if st != "ok":
            notes[f.name] = f"untranslatable: {t}"
            continue
        seen = set()
        for s in range(len(f.states)):
            seen.add(as_bool(run_text(t, build_world((f.name,), (s,)))))
        if seen != {True, False}:
            notes[f.name] = f"truth values reached alone: {sorted(map(str, seen))} for {t!r}"
    return notes


def _alphabet_task(_):
    part = runner.Part()
    for k, v in check_alphabet().items():
        part.notes.append(f"family {k}: {v}")
    part.sample({"leaf_texts": {f.name: [leaf_text(f.name, 0, pick_rtype((f.name,)))[1], top_op(leaf_text(f.name, 0, pick_rtype((f.name,)))[1])] for f in FAMILIES}}, limit=12)
    return part


# ---- histories: a filter translated after another filter in the same process state ------------------------
def hist_filters():
    """(entry point, resource type, filter list): 15 small trees over five value leaves and two compound leaves x both entry points."""
    l = [FAM[PLAIN].clause(i) for i in range(3)] + [FAM[c].clause(0) for c in CYCLE[:2]] + [FAM["marked"].clause(0), FAM["flow_logs"].clause(1)]
    trees = [[l[0]], [l[0], l[1]], [{"or": [l[0], l[1]]}], [{"and": [l[0], l[1]]}], [{"not": [l[0]]}], [{"not": [{"or": [l[0], l[1]]}]}],
             [{"or": [l[0], l[1]]}, l[2]], [{"or": [l[1], l[0]]}], [{"and": [{"or": [l[0], l[1]]}, l[2]]}], [l[3]], [{"not": [l[3]]}], [{"or": [l[3], l[4]]}],
             [l[4], l[0]], [{"or": [l[5], l[0]]}], [{"not": [l[6]]}, l[1]]]
    return [(e, "ec2", t) for t in trees for e in ENTRIES]


def hist_count():
    n = len(hist_filters())
    return n * n + 2 * n


_H_SNAP = []


def hist_run(history, last):
    from ..explore import procstate
    import copy
    if not _H_SNAP:
        import celpy.c7nlib  # noqa: F401 -- loaded before the snapshot so that the snapshot covers them
        import xlate.c7n_to_cel  # noqa: F401
        _H_SNAP.append(procstate.snapshot())
    procstate.restore(_H_SNAP[0])
    for e, rtype, filt in history:
        translate(e, rtype, copy.deepcopy(filt))
    return translate(last[0], last[1], copy.deepcopy(last[2]))


def shard_H(task):
    lo, hi = task
    part = runner.Part()
    alpha = hist_filters()
    n = len(alpha)
    alone = [hist_run([], b) for b in alpha]
    idx = done = 0

    def judge_h(history, j):
        after = hist_run(history, alpha[j])
        part.case()
        part.outcome("history:" + ("same" if after == alone[j] else "differs"))
        if after != alone[j]:
            a = history[-1]
            part.violation("history-dependent-translation", f"history:{alpha[j][0]}-after-{a[0]}:{'same-filter' if a[2] == alpha[j][2] else 'other-filter'}",
                           {"space": "histories", "history": [list(h) for h in history], "filter": list(alpha[j]), "alone": list(alone[j]), "after": list(after)},
                           f"{alpha[j][2]} via {alpha[j][0]} translates to {alone[j][1]!r} in a pristine state but to {after[1]!r} after {len(history)} earlier translation(s) ending with {a[2]} via {a[0]}")
    for i in range(n):
        for j in range(n):
            if lo <= idx < hi:
                judge_h([alpha[i]], j)
                done += 1
            idx += 1
    for order in (list(range(n)), list(range(n))[::-1]):
        for pos, j in enumerate(order):
            if lo <= idx < hi:
                judge_h([alpha[k] for k in order[:pos]] or [alpha[j]], j)
                done += 1
            idx += 1
    part.space("H:translation-histories", 0, done)
    if lo == 0:
        part.extra["history_filters_translatable"] += sum(1 for a in alone if a[0] == "ok")
    return part


def run(ctx):
    c7nbool.selftest()
    celrun.Prog("I", "true")    # build the (interpreted-kind) parser once in the parent; forked workers inherit it
    assert top_op('a ? b : c') == "cond" and top_op('(a || b) && c') == "and" and top_op('! x.f("a || b")') == "not"
    assert top_op('x["a"] == "?"') == "rel" and top_op('f(a && b)') == "atom" and top_op("a in [1]") == "rel"
    b = bounds(ctx.tier)
    ctx.rule = (
        "filter trees over {list, and, or, not} with 1-3 children; a case is (tree shape, leaf family per position, entry point); "
        f"A: every shape of depth<={b['A'][0]}, <={b['A'][1]} leaves, <={b['A'][2]} connectives x value-leaf patterns {{plain (all leaves resource[ki]), cycle (forms {CYCLE} by position; shapes with <={cycle_max_leaves(ctx.tier)} leaves)}} x both entry points; "
        f"B: every shape of depth<={b['B'][0]}, <={b['B'][1]} leaves, <={b['B'][2]} connectives x every leaf position x one compound leaf there "
        f"(operator-class representatives {REPS}; all {len(FAMILIES)} families on the shapes with <={b['B_all'][1]} leaves and <={b['B_all'][2]} connectives; "
        + ("both entry points" if ctx.thorough else "entry points alternating") + "); "
        "C: " + " plus ".join(f"every shape of depth<={bd[0]}, {lo}..{bd[1]} leaves, <={bd[2]} connectives x every tuple over {len(nm)} families" for bd, lo, nm in b["C"]) + "; "
        f"H: every ordered pair of {len(hist_filters())} (entry point, small filter) items, and the list read forwards and backwards, translated in one process state and compared with the pristine translation; "
        "each case is evaluated under every product of its leaves' states (2-4 per leaf), evaluations counts those worlds; "
        "a case is non-trivial iff under at least one world every leaf alone evaluates to a boolean (the oracle c7nbool is then compared)")
    ctx.assumptions = [
        "host functions are stubs supplied through functions= to the interpreted runner; only the boolean skeleton is under test",
        "the meaning of a leaf is the library's value of the text emitted for that leaf alone under the same bindings",
        "resource type is the first of " + str(RTYPE_ORDER) + " that every leaf accepts (default ec2); family tuples without one are outside the space",
        "not in the alphabet (their own text never evaluates to a boolean on the pinned tree, or needs network access): unused / used value:false "
        "('! x in y' parses as '(!x) in y'), schedule skip-days, cross-account whitelist, value_from without a stub",
    ]
    ctx.run_shards(_alphabet_task, [0], nproc=1)
    import time
    nA = c7nbool.count_shapes(*b["A"])
    t0 = time.time()
    ctx.run_shards(shard_A, [(ctx.tier, lo, hi) for lo, hi in runner.shards(nA, 96)])
    ctx.coverage_extra["wall_A_s"] = round(time.time() - t0, 1)
    nB = count_placements(ctx.tier)
    t0 = time.time()
    ctx.run_shards(shard_B, [(ctx.tier, lo, hi) for lo, hi in runner.shards(nB, 96)])
    ctx.coverage_extra["wall_B_s"] = round(time.time() - t0, 1)
    nC = count_C(ctx.tier)
    t0 = time.time()
    ctx.run_shards(shard_C, [(ctx.tier, lo, hi) for lo, hi in runner.shards(nC, 96)])
    ctx.coverage_extra["wall_C_s"] = round(time.time() - t0, 1)
    ctx.run_shards(shard_H, runner.shards(hist_count(), 8))
    sp = ctx.part.spaces
    sp["H:translation-histories"]["cardinality"] = hist_count()
    if ctx.part.extra.get("history_filters_translatable", 0) < len(hist_filters()):
        raise runner.HarnessError(f"only {ctx.part.extra.get('history_filters_translatable', 0)} of {len(hist_filters())} history filters translate")
    nA_cycle = c7nbool.count_shapes(b["A"][0], min(b["A"][1], cycle_max_leaves(ctx.tier)), b["A"][2])
    sp["A:value-leaves"]["cardinality"] = (nA + nA_cycle) * len(ENTRIES)
    sp["A:value-leaves"]["bound"] = f"depth<={b['A'][0]} leaves<={b['A'][1]} connectives<={b['A'][2]}"
    sp["B:one-compound-leaf"]["cardinality"] = nB * (len(ENTRIES) if ctx.thorough else 1)   # thorough: both entry points
    sp["B:one-compound-leaf"]["bound"] = f"depth<={b['B'][0]} leaves<={b['B'][1]} connectives<={b['B'][2]}"
    sp["C:all-leaves-compound"]["cardinality"] = nC
    sp["C:all-leaves-compound"]["bound"] = str([(bd, lo, len(nm)) for bd, lo, nm in b["C"]])
    seen = {k[len("fam_seen:"):] for k in ctx.part.extra if k.startswith("fam_seen:")}
    missing = [f.name for f in FAMILIES if f.name not in seen]
    if missing:
        raise runner.HarnessError(f"leaf families never exercised: {missing}")
    if ctx.part.extra["worlds_compared"] == 0:
        raise runner.HarnessError("no world was compared")


def replay(w):
    return bigframe.call(_replay, w)


def _replay(w):
    wit = w["witness"]
    c7nbool.selftest()
    if wit.get("space") == "histories":
        b = tuple(wit["filter"])
        alone = hist_run([], b)
        after = hist_run([tuple(h) for h in wit["history"]], b)
        print(f"filter   : {b}\npristine : {alone}\nafter {len(wit['history'])} earlier translation(s): {after}")
        print("REPRODUCED" if alone != after else "not reproduced")
        return 1 if alone != after else 0
    status = 0
    for label, tj, fams in (("witness", wit["tree"], wit["families"]), ("minimal", wit.get("minimal_tree"), wit.get("minimal_families"))):
        if tj is None:
            continue
        tree, fams = c7nbool.from_json(tj), tuple(fams)
        vd = judge(tree, fams, wit["entry"])
        rtype = pick_rtype(fams)
        print(f"[{label}] tree      : {c7nbool.show(tree, lambda i: fams[i] + str(i))}   (resource type {rtype}, entry {wit['entry']})")
        for i, f in enumerate(fams):
            print(f"    leaf {i} alone: {leaf_text(f, i, rtype)[1]}")
        print(f"    emitted   : {vd.text}")
        if vd.status == "violation":
            res, ev, world = build_world(fams, vd.world)
            print(f"    bindings  : resource={res} now={NOW} event={ev}; stub host functions see {world}")
            print(f"    VIOLATES ({vd.kind}) in world {vd.world}: leaves alone = {vd.leaf_values}; combinators give {vd.expected}; emitted text gives {vd.observed}")
            if label == "witness":
                status = 1
        else:
            print(f"    status {vd.status}: {vd.true + vd.false} worlds compared, all agree with the combinators")
    print("REPRODUCED" if status else "not reproduced")
    return status
