"""C12 Names resolve to the longest matching binding; macro variables are scoped
(DESIGN.md section 3, C12).

(1) every assignment of {absent, scalar, map carrying the remaining fields} to the dotted names
    {a, a.b, a.b.c} at the levels {root, p, p.q}, x package {none, p, p.q}, x references
    {a, a.b, a.b.c, a.c, a.b.d, .a.b.c}, as plain bindings and as bindings shadowing declarations;
(2) every nesting up to depth 3 of the comprehension macros with iteration variables from {x, y}
    and bodies referencing {x, y, z}, against a lexically scoped reference evaluator.
"""
import itertools

from .. import celrun, outcome, runner
from ..ref import UNSPEC, names

LEVEL = "exploration"
ERR = names.ERR
REFS = ["a", "a.b", "a.b.c", "a.c", "a.b.d"]   # the leading-dot form ".a.b.c" is not in the statement: not judged
NAMES = ["a", "a.b", "a.b.c"]
LEVELS = ["", "p.", "p.q."]
KINDS = ["absent", "scalar", "map"]


def value_for(name_idx, kind, uid):
    """plain value of a binding: unique ints so the winner is identifiable"""
    if kind == "scalar":
        return uid
    if name_idx == 0:     # a
        return {"b": {"c": uid + 1, "d": uid + 2}, "c": uid + 3}
    if name_idx == 1:     # a.b
        return {"c": uid + 1, "d": uid + 2}
    return {"z": uid + 1}  # a.b.c


def configs(tier):
    """yield tuples of kinds for the 9 (level, name) slots"""
    if tier == "thorough":
        for c in itertools.product(range(3), repeat=9):
            yield c
    else:
        for c in itertools.product(range(3), repeat=6):
            yield c + (0, 0, 0)
        for c in itertools.product(range(3), repeat=9):
            if any(c[6:]) and sum(1 for k in c if k) <= 3:
                yield c


def count_configs(tier):
    if tier == "thorough":
        return 3 ** 9
    n = 3 ** 6
    # configurations with some p.q name bound and at most 3 bound names overall
    import math
    tot = 0
    for nb in range(1, 4):
        for npq in range(1, nb + 1):
            rest = nb - npq
            if npq <= 3 and rest <= 6:
                tot += math.comb(3, npq) * math.comb(6, rest) * (2 ** nb)
    return n + tot


def build(cfg):
    b = {}
    for slot, k in enumerate(cfg):
        if k == 0:
            continue
        lvl, ni = LEVELS[slot // 3], slot % 3
        b[lvl + NAMES[ni]] = value_for(ni, KINDS[k], 100 * (slot + 1))
    return b


def to_cel(v):
    import celpy.celtypes as ct
    if isinstance(v, dict):
        return ct.MapType({ct.StringType(k): to_cel(x) for k, x in v.items()})
    return ct.IntType(v)


def canon(v):
    if isinstance(v, dict):
        items = sorted(((("string", k), canon(x)) for k, x in v.items()), key=repr)
        return ("map", tuple(items))
    return ("int", v)


def classify(bind, package, ref, exp):
    """root-cause class for signatures"""
    r = ref.lstrip(".")
    shadow = any(any(b2 != b and b2.startswith(b + ".") for b2 in bind) for b in bind)
    return f"ref={ref}:pkg={package or '-'}:{'value-and-namespace' if shadow else 'plain'}"


def resolve_shard(task):
    rk, lo, hi, tier, style = task
    import celpy
    import celpy.celtypes as ct
    part = runner.Part()
    cfgs = list(itertools.islice(configs(tier), lo, hi))
    progs = {}
    n = 0
    for cfg in cfgs:
        bind = build(cfg)
        order = list(bind.items())[::-1] if style == "bindings-reversed" else list(bind.items())
        celbind = {k: to_cel(v) for k, v in order}
        for package in (None, "p", "p.q"):
            for ref in REFS:
                key = (package, ref, tuple(sorted(bind)) if style == "shadow" else None)
                if key not in progs:
                    ann = {k: ct.StringType for k in bind} if style == "shadow" else None
                    progs[key] = celrun.Prog(rk, ref, package=package, annotations=ann)
                exp = names.resolve(bind, package, ref)
                o = progs[key].eval(dict(celbind))       # dict() keeps the insertion order of celbind
                n += 1
                if exp is UNSPEC:
                    part.case(nontrivial=False)
                    part.outcome("UNSPEC")
                    continue
                part.case()
                want = ERR if exp == ERR else canon(exp)
                part.outcome("E" if want == ERR else want[0])
                got = ERR if o[0] == "E" else ((o[1], o[2]) if o[0] == "V" else ("X",) + tuple(o[1:]))
                if got != want:
                    kind = "error-instead-of-value" if got == ERR else ("value-instead-of-error" if want == ERR else ("other-exception" if got[0] == "X" else "wrong-binding"))
                    cl = classify(bind, package, ref, exp)
                    sig = f"{rk}:{style}:{kind}:{cl}"
                    if cl.endswith("value-and-namespace") and kind == "error-instead-of-value":
                        # one root cause: a name bound to a value AND extended by a longer dotted binding;
                        # selecting a field that only the value has fails (the namespace shadows the value)
                        sig = "namespace-shadows-value:field-of-the-value:error-instead-of-value"
                    part.violation(kind, sig,
                                   {"runner": rk, "style": style, "bindings": bind, "package": package, "ref": ref, "expected": repr(want)},
                                   f"runner {rk} ({style}): bindings {bind} package {package!r}: {ref} expected {want}, got {outcome.short(o)}")
    part.space(f"resolution:{style}:{rk}", 0, len(cfgs))
    part.extra["resolution_evaluations"] += n
    return part


# ------------------------------------------------------------------------- one program, many evaluations
ALL_DECLARED = [lv + n for lv in LEVELS for n in NAMES]


def reuse_shard(task):
    """Every configuration of the shard is evaluated, one after the other, on ONE long-lived program per (package,
    reference) whose environment declares all nine names, and on a fresh program built for this evaluation alone: what
    a name resolves to may not depend on what the same program was asked before (a binding of an earlier evaluate()
    surviving in a nested namespace of the declarations).  A differential: no reference value is needed, so declared
    but unbound names -- on which the statement is silent -- are covered too."""
    rk, lo, hi, tier = task
    import celpy.celtypes as ct
    part = runner.Part()
    cfgs = list(itertools.islice(configs(tier), lo, hi))
    ann = {k: ct.StringType for k in ALL_DECLARED}
    shared = {}
    hist = []
    n = 0
    for cfg in cfgs:
        bind = build(cfg)
        celbind = {k: to_cel(v) for k, v in bind.items()}
        hist.append(bind)
        for package in (None, "p"):
            for ref in REFS:
                if (package, ref) not in shared:
                    shared[package, ref] = celrun.Prog(rk, ref, package=package, annotations=dict(ann))
                o_shared = shared[package, ref].eval(dict(celbind))
                o_fresh = celrun.Prog(rk, ref, package=package, annotations=dict(ann)).eval(dict(celbind))
                n += 1
                part.case()
                part.outcome("reuse:" + outcome.label(o_fresh))
                if o_shared[:3] != o_fresh[:3]:
                    prev = hist[-2] if len(hist) > 1 else {}
                    lost = sorted(set(prev) - set(bind))
                    part.violation("history-dependent-resolution", f"{rk}:reused-program:{outcome.label(o_fresh)}->{outcome.label(o_shared)}:{'names-bound-before-now-unbound' if lost else 'same-or-more-names'}",
                                   {"runner": rk, "reuse": True, "package": package, "ref": ref, "history": hist[-6:], "bindings": bind},
                                   f"runner {rk}: {ref} (package {package!r}, all nine names declared) with bindings {bind}: a fresh program gives {outcome.short(o_fresh)}, "
                                   f"the program evaluated before with {prev} gives {outcome.short(o_shared)}")
    part.space(f"resolution:reused-program:{rk}", 0, len(cfgs))
    part.extra["resolution_evaluations"] += n
    return part


# ----------------------------------------------------------------------------------------- macros
OUTER = {"x": 1000, "y": 2000, "z": 3000}
LISTS = {1: [1, 2], 2: [10, 20], 3: [100, 200]}


def bodies(depth):
    """yield (text, fn(env)->int) for integer-valued bodies with macro nesting depth <= depth"""
    refs = ["x", "y", "z"]
    for r in refs:
        yield r, (lambda env, r=r: env[r])
    if depth == 0:
        return
    for v in ("x", "y"):
        for txt, fn in inner_lists(depth, v):
            for r in ("x", "y"):
                yield f"{txt}[0] + {r}", (lambda env, fn=fn, r=r: fn(env)[0] + env[r])
                yield f"{r} + {txt}[1]", (lambda env, fn=fn, r=r: env[r] + fn(env)[1])
        for txt, fn in inner_bools(depth, v):
            yield f"({txt} ? 1 : 0) + {v}", (lambda env, fn=fn, v=v: (1 if fn(env) else 0) + env[v])


def inner_lists(depth, v):
    lst = LISTS[4 - depth] if depth <= 3 else LISTS[1]
    for btxt, bfn in bodies(depth - 1):
        yield f"{lst}.map({v}, {btxt})", (lambda env, bfn=bfn, v=v, lst=lst: [bfn({**env, v: e}) for e in lst])
    if depth == 1:
        for r in ("x", "y", "z"):
            yield f"{lst}.filter({v}, {v} + {r} > 0)", (lambda env, v=v, r=r, lst=lst: [e for e in lst if ({**env, v: e})[v] + ({**env, v: e})[r] > 0])


def inner_bools(depth, v):
    lst = LISTS[4 - depth] if depth <= 3 else LISTS[1]
    if depth != 1:
        return
    for m, agg in (("exists", any), ("all", all), ("exists_one", lambda it: sum(1 for t in it if t) == 1)):
        for r in ("x", "y", "z"):
            yield f"{lst}.{m}({v}, {v} == {r} || {r} > 500)", (lambda env, v=v, r=r, agg=agg, lst=lst: agg([(({**env, v: e})[v] == ({**env, v: e})[r]) or ({**env, v: e})[r] > 500 for e in lst]))


def macro_programs(maxdepth):
    out = []
    for d in range(1, maxdepth + 1):
        for v in ("x", "y"):
            for txt, fn in inner_lists(d, v):
                out.append((txt, fn))
                # the iteration variable must not be visible after the macro
                out.append((f"{txt} + [{v}]", (lambda env, fn=fn, v=v: fn(env) + [env[v]])))
    seen, uniq = set(), []
    for t, f in out:
        if t not in seen:
            seen.add(t)
            uniq.append((t, f))
    return uniq


def macro_shard(task):
    rk, lo, hi, tier = task
    part = runner.Part()
    progs = macro_programs(3)[lo:hi]
    import celpy.celtypes as ct
    b = {k: ct.IntType(v) for k, v in OUTER.items()}
    for txt, fn in progs:
        exp = fn(dict(OUTER))
        o = celrun.evaluate(rk, txt, dict(b))
        part.case()
        want = ("list", tuple(("int", e) for e in exp))
        part.outcome("macro-list")
        got = (o[1], o[2]) if o[0] == "V" else (ERR if o[0] == "E" else ("X",) + tuple(o[1:]))
        if got != want:
            depth = txt.count(".map(") + txt.count(".filter(") + txt.count(".exists") + txt.count(".all(")
            collide = "colliding" if (txt.count("(x,") > 1 or txt.count("(y,") > 1) else "distinct"
            after = "use-after-macro" if txt.rstrip().endswith("]") and " + [" in txt else "inside"
            part.violation("wrong-scope", f"{rk}:macro-scope:depth{depth}:{collide}:{after}", {"runner": rk, "expr": txt, "expected": repr(want)},
                           f"runner {rk}: {txt!r} with outer {OUTER}: expected {exp}, got {outcome.short(o)}")
    part.space(f"macro-nestings:{rk}", 0, len(progs))
    return part


# ------------------------------------------------------------------- null-valued names inside macro bodies
NULL = ("null_type", None)


def null_programs():
    """(text, bindings-spec, declared-names, expected canonical value): a name bound to null (an outer binding or an
    iteration variable over a list containing null) referenced at macro depth 0..3, declared or not."""
    out = []
    nest = ["z", "[1].map(x, z)", "[1].map(x, [2].map(y, z))", "[1].map(x, [2].map(y, [3].map(x, z)))"]
    exp = [NULL, ("list", (NULL,)), ("list", (("list", (NULL,)),)), ("list", (("list", (("list", (NULL,)),)),))]
    for txt, e in zip(nest, exp):
        out.append((txt, {"z": None}, e))
        out.append((txt.replace("z)", "z == null)") if txt != "z" else "z == null", {"z": None}, _map_leaf(e, ("bool", True))))
    for m, e in (("exists", ("bool", True)), ("all", ("bool", True)), ("exists_one", ("bool", True))):
        out.append((f"[1].{m}(x, z == null)", {"z": None}, e))
        out.append((f"[1].{m}(x, [2].{m}(y, z == null))", {"z": None}, e))
    out.append(("[1, 2].filter(x, z == null)", {"z": None}, ("list", (("int", 1), ("int", 2)))))
    out.append(("[1].map(x, z == null ? 1 : 2)", {"z": None}, ("list", (("int", 1),))))
    # iteration variable bound to null, referenced one and two macros deeper
    out.append(("[null].map(w, w)", {}, ("list", (NULL,))))
    out.append(("[null].map(w, [1].map(y, w))", {}, ("list", (("list", (NULL,)),))))
    out.append(("[null].map(w, [1].map(y, [2].map(x, w)))", {}, ("list", (("list", (("list", (NULL,)),)),))))
    out.append(("[null, null].map(w, [1].map(y, w == null))", {}, ("list", (("list", (("bool", True),)), ("list", (("bool", True),))))))
    out.append(("[null].map(w, [1].exists(y, w == null) ? 1 : 2)", {}, ("list", (("int", 1),))))
    return out


def _map_leaf(e, leaf):
    return leaf if e == NULL else ("list", tuple(_map_leaf(x, leaf) for x in e[1]))


NULL_DECLS = (None, "MapType", "IntType", "StringType")


def null_shard(task):
    rk, = task
    import celpy.celtypes as ct
    part = runner.Part()
    n = 0
    for txt, bind, want in null_programs():
        for decl in NULL_DECLS:
            ann = None if decl is None else {k: getattr(ct, decl) for k in ("z", "w")}
            o = celrun.Prog(rk, txt, annotations=ann).eval(dict(bind))
            part.case()
            n += 1
            part.outcome("null-scope:" + want[0])
            got = (o[1], o[2]) if o[0] == "V" else (ERR if o[0] == "E" else ("X",) + tuple(o[1:]))
            if got != want:
                depth = txt.count(".map(") + txt.count(".filter(") + txt.count(".exists") + txt.count(".all(")
                part.violation("wrong-binding", f"{rk}:null-valued-name-in-macro-body:{'declared' if decl else 'undeclared'}:{'iteration-variable' if not bind else 'outer-binding'}",
                               {"runner": rk, "null_expr": txt, "bindings": bind, "declared_as": decl, "expected": repr(want)},
                               f"runner {rk}: {txt!r} with bindings {bind} (names declared as {decl}): expected {want}, got {outcome.short(o)} (macro depth {depth})")
    part.space(f"null-in-scope:{rk}", n, n)
    return part


# ------------------------------------------------- a name that is also the head of a longer dotted name
def head_programs():
    """(text, bindings, declarations, expected canonical value, class).  The name x is (a) a macro variable while
    the outer bindings hold the dotted name x.y, (b) bound to a map while only the longer name x.y is *declared*:
    the macro variable / the binding is what the reference denotes."""
    out = []
    I = lambda n: ("int", n)                                                    # noqa: E731
    L = lambda *xs: ("list", tuple(xs))                                         # noqa: E731
    dotted = {"x.y": 5}
    out.append(("[1, 2].map(x, x)", dotted, None, L(I(1), I(2)), "macro-variable-vs-dotted-binding"))
    out.append(("[1, 2].filter(x, x > 1)", dotted, None, L(I(2)), "macro-variable-vs-dotted-binding"))
    out.append(("[1].exists(x, x == 1)", dotted, None, ("bool", True), "macro-variable-vs-dotted-binding"))
    out.append(("[1].all(x, x == 1)", dotted, None, ("bool", True), "macro-variable-vs-dotted-binding"))
    out.append(("[1].exists_one(x, x == 1)", dotted, None, ("bool", True), "macro-variable-vs-dotted-binding"))
    out.append(('[{"y": 2}].map(x, x.y)', dotted, None, L(I(2)), "macro-variable-vs-dotted-binding"))
    out.append(("[[1]].map(x, x.map(x, x + 1))", dotted, None, L(L(I(2))), "macro-variable-vs-dotted-binding"))
    out.append(("[1].map(x, x) + [x.y]", dotted, None, L(I(1), I(5)), "macro-variable-vs-dotted-binding"))
    out.append(("x.y", dotted, None, I(5), "control"))
    decl = {"x.y": "IntType"}
    out.append(("x.y", {"x": {"y": 5}}, decl, I(5), "binding-vs-declaration-of-a-longer-name"))
    out.append(("x.y + 1", {"x": {"y": 5}}, decl, I(6), "binding-vs-declaration-of-a-longer-name"))
    out.append(("x.z", {"x": {"y": 5, "z": 6}}, decl, I(6), "binding-vs-declaration-of-a-longer-name"))
    out.append(("x.y", {"x.y": 7}, decl, I(7), "control"))
    return out


def head_shard(task):
    rk, = task
    import celpy.celtypes as ct
    part = runner.Part()
    n = 0
    for txt, bind, decl, want, cls in head_programs():
        ann = None if decl is None else {k: getattr(ct, v) for k, v in decl.items()}
        o = celrun.Prog(rk, txt, annotations=ann).eval({k: to_cel(v) for k, v in bind.items()})
        part.case()
        n += 1
        part.outcome("head:" + cls)
        got = (o[1], o[2]) if o[0] == "V" else (ERR if o[0] == "E" else ("X",) + tuple(o[1:]))
        if got != want:
            kind = "error-instead-of-value" if got == ERR else ("other-exception" if got[0] == "X" else "wrong-binding")
            part.violation(kind, f"{rk}:{cls}:{kind}", {"runner": rk, "head_expr": txt, "bindings": bind, "declared": decl, "expected": repr(want)},
                           f"runner {rk}: {txt!r} with bindings {bind} declarations {decl}: expected {want}, got {outcome.short(o)}")
    part.space(f"name-is-head-of-a-dotted-name:{rk}", n, n)
    return part


def run(ctx):
    names.selftest()
    ncfg = count_configs(ctx.tier)
    real = sum(1 for _ in configs(ctx.tier))
    if real != ncfg:
        raise runner.HarnessError(f"configuration generator yields {real}, closed form says {ncfg}")
    mp = macro_programs(3)
    for rk in ("I", "C"):
        for style in ("bindings", "bindings-reversed", "shadow"):
            ctx.run_shards(resolve_shard, [(rk, lo, hi, ctx.tier, style) for lo, hi in runner.shards(ncfg, 32)])
            ctx.part.spaces[f"resolution:{style}:{rk}"]["cardinality"] = ncfg
        ctx.run_shards(reuse_shard, [(rk, lo, hi, ctx.tier) for lo, hi in runner.shards(ncfg, 32)])
        ctx.part.spaces[f"resolution:reused-program:{rk}"]["cardinality"] = ncfg
        ctx.run_shards(macro_shard, [(rk, lo, hi, ctx.tier) for lo, hi in runner.shards(len(mp), 16)])
        ctx.part.spaces[f"macro-nestings:{rk}"]["cardinality"] = len(mp)
        ctx.run_shards(null_shard, [(rk,)])
        ctx.run_shards(head_shard, [(rk,)])
    ctx.part.sample({"bindings": build((1, 2, 0, 0, 1, 0, 0, 0, 0)), "package": "p", "references": REFS})
    ctx.part.sample({"macro_programs": [mp[i][0] for i in (0, len(mp) // 2, len(mp) - 1)], "outer_bindings": OUTER})
    ctx.rule = ("(1) every assignment of {absent, scalar, map with the remaining fields} to {a, a.b, a.b.c} x {root, p" + (", p.q} (all 3^9)" if ctx.thorough else "} (3^6) plus every p.q configuration with <= 3 bound names") +
                " x package {none, p, p.q} x 5 references, as plain bindings (mapping listed shortest-name-first and in the reverse order) and as bindings shadowing declarations of another type, and (differential, no reference) on one long-lived program with all nine names declared that is evaluated under every configuration of its shard in turn, against a fresh program per evaluation; (2) every macro nesting of depth <= 3 with variables from {x, y} "
                "(colliding and distinct) and bodies over {x, y, z}, also using the variable name after the macro; (3) a name bound to null (outer binding or iteration variable), declared as one of 3 types or undeclared, referenced at macro depth 0..3; (4) a name that is a macro variable / a bound map while a longer dotted name with the same head is bound / declared; cases the resolution model leaves UNSPEC (reference naming a namespace; level mentioning `a` only through non-prefix names) are counted, not compared")
    ctx.assumptions = ["dotted paths of at most three components over one root name; integer leaves", "declared-but-unbound names are not judged (the statement does not say what they denote)"]


def replay(w):
    wit = w["witness"]
    if wit.get("reuse"):
        import celpy.celtypes as ct
        ann = {k: ct.StringType for k in ALL_DECLARED}
        prog = celrun.Prog(wit["runner"], wit["ref"], package=wit["package"], annotations=dict(ann))
        o = None
        for b in wit["history"]:
            o = prog.eval({k: to_cel(v) for k, v in b.items()})
        fresh = celrun.Prog(wit["runner"], wit["ref"], package=wit["package"], annotations=dict(ann)).eval({k: to_cel(v) for k, v in wit["bindings"].items()})
        print("history", wit["history"], "->", outcome.short(o), "; fresh program:", outcome.short(fresh))
        bad = o[:3] != fresh[:3]
        print("REPRODUCED" if bad else "not reproduced")
        return 1 if bad else 0
    if "ref" in wit:
        import celpy.celtypes as ct
        bind = wit["bindings"]
        ann = {k: ct.StringType for k in bind} if wit["style"] == "shadow" else None
        order = list(bind.items())[::-1] if wit["style"] == "bindings-reversed" else list(bind.items())
        o = celrun.Prog(wit["runner"], wit["ref"], package=wit["package"], annotations=ann).eval({k: to_cel(v) for k, v in order})
        exp = names.resolve(bind, wit["package"], wit["ref"])
        print("bindings", bind, "package", wit["package"], "ref", wit["ref"], "->", outcome.short(o), "expected", exp)
        want = ERR if exp == ERR else canon(exp)
        got = ERR if o[0] == "E" else ((o[1], o[2]) if o[0] == "V" else None)
        bad = exp is not UNSPEC and got != want
    elif "head_expr" in wit:
        import celpy.celtypes as ct
        ann = None if wit["declared"] is None else {k: getattr(ct, v) for k, v in wit["declared"].items()}
        o = celrun.Prog(wit["runner"], wit["head_expr"], annotations=ann).eval({k: to_cel(v) for k, v in wit["bindings"].items()})
        print(wit["head_expr"], "->", outcome.short(o), "expected", wit["expected"])
        got = (o[1], o[2]) if o[0] == "V" else None
        bad = repr(got) != wit["expected"]
    elif "null_expr" in wit:
        import celpy.celtypes as ct
        ann = None if wit["declared_as"] is None else {k: getattr(ct, wit["declared_as"]) for k in ("z", "w")}
        o = celrun.Prog(wit["runner"], wit["null_expr"], annotations=ann).eval(dict(wit["bindings"]))
        print(wit["null_expr"], "->", outcome.short(o), "expected", wit["expected"])
        got = (o[1], o[2]) if o[0] == "V" else None
        bad = repr(got) != wit["expected"]
    else:
        import celpy.celtypes as ct
        o = celrun.evaluate(wit["runner"], wit["expr"], {k: ct.IntType(v) for k, v in OUTER.items()})
        print(wit["expr"], "->", outcome.short(o), "expected", wit["expected"])
        got = (o[1], o[2]) if o[0] == "V" else None
        bad = repr(got) != wit["expected"]
    print("REPRODUCED" if bad else "not reproduced")
    return 1 if bad else 0
