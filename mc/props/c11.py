"""C11 Timestamp and duration arithmetic and calendar accessors are exact (DESIGN.md section 3, C11).

Bounded-exhaustive: an alphabet T11 of instants (calendar boundaries of 13 years, one full week,
the DST edges of 8 IANA zones (one with a seconds-valued offset inside the window)), an alphabet D11 of durations, every fixed offset that is a
multiple of 15 minutes in [-14:00, +14:00] in its written form, 8 IANA zones (one with a seconds-valued offset inside the window), and every duration
text of a bounded grammar.  Every case is evaluated through the public API under one runner and
compared with mc.ref.calendar (pure integer proleptic-Gregorian arithmetic) / mc.ref.durtext
(exact rationals).  IANA offsets are *trusted data* read through stdlib ``zoneinfo`` from two
sources (system tzdata and the ``tzdata`` wheel); a (zone, instant) pair on which they disagree
is dropped (counted, not compared).
"""
import datetime
import functools
import importlib.resources
import os
import re
import zoneinfo

from .. import celrun, outcome, repo, runner
from ..ref import UNSPEC
from ..ref import calendar as cal
from ..ref import durtext

LEVEL = "exploration"

ZONES = ("UTC", "America/New_York", "Europe/Paris", "Asia/Kolkata", "Asia/Kathmandu", "Australia/Lord_Howe", "Pacific/Apia", "Africa/Monrovia")
YEARS = (1, 4, 100, 400, 1900, 1969, 1970, 1999, 2000, 2020, 2021, 2038, 9999)
SWEEP_YEARS = (1, 4, 100, 400, 1900, 1970, 1999, 2000, 2011, 2021, 2024, 9999)     # thorough: every day
EDGE_YEARS_QUICK = (2011, 2021)
IANA_LO = cal.us_from_civil(1971, 1, 1)
IANA_HI = cal.us_from_civil(2025, 12, 31, 23, 59, 59, 999999)
EPOCH_US = cal.us_from_civil(1970, 1, 1)
OFFSETS_MIN = tuple(range(-14 * 60, 14 * 60 + 1, 15))                                  # 113 offsets
OFFSET_FORMS = tuple(cal.format_offset(m) for m in OFFSETS_MIN if m < 0) + ("-00:00", "+00:00") + tuple(
    cal.format_offset(m) for m in OFFSETS_MIN if m > 0)                                # 114 written forms
ACCESSORS = cal.ACCESSORS
CTORS = ("F", "Z", "O", "N")  # binding built from integer fields / RFC 3339 'Z' text / text with +05:30 (or -05:30) / text with -01:00 (or +01:00)
S = cal.US_PER_S
D_MAGS = (1, 1000, S, 59999999, 3600 * S, 86400 * S, 365 * 86400 * S, 146097 * 86400 * S, cal.MAX_DUR_US)
D11 = (0,) + tuple(x for m in D_MAGS for x in (m, -m))                                 # 19 durations
ARITH_PROGS = ("t + d", "d + t", "t - d", "(t + d) - d == t", "(t + d) - t == d")
ARITH_LITERAL = {"t + d": "%(t)s + %(d)s", "d + t": "%(d)s + %(t)s", "t - d": "%(t)s - %(d)s",
                 "(t + d) - d == t": "(%(t)s + %(d)s) - %(d)s == %(t)s", "(t + d) - t == d": "(%(t)s + %(d)s) - %(t)s == %(d)s"}
LIT_ZONES = (None, "+05:45", "-09:30", "-00:30")
DUR_BOUNDARY = (
    "315576000000s", "315576000001s", "315575999999s", "320000000000s", "87660000h", "87660001h", "87659999h59m60s",
    "5259600000m", "5259600001m", "315576000000000ms", "315576000000001ms", "315576000000000000us", "315576000000000001us",
    "315576000000000000000ns", "315576000000000001000ns", "87660000h1us", "315576000000s1us", "315575999999s999999us",
    "315575999999.999999s", "315575999999s1000000us", "315575999999s1000001us", "87659999h59m59s999ms999us",
    "100000000000s.000001s", "8765h59m59.999999s",
)


# ---- IANA offsets: trusted data through stdlib zoneinfo, two sources -----------------------------

@functools.lru_cache(maxsize=None)
def _zi_sources(zone):
    srcs = {}
    for root in zoneinfo.TZPATH:
        p = os.path.join(root, zone)
        if os.path.isfile(p):
            with open(p, "rb") as f:
                srcs["system"] = zoneinfo.ZoneInfo.from_file(f, key=zone)
            break
    try:
        parts = zone.split("/")
        pkg = ".".join(["tzdata", "zoneinfo"] + parts[:-1])
        with importlib.resources.files(pkg).joinpath(parts[-1]).open("rb") as f:
            srcs["wheel"] = zoneinfo.ZoneInfo.from_file(f, key=zone)
    except (ImportError, FileNotFoundError, OSError):
        pass
    if not srcs:
        raise runner.HarnessError(f"no tzdata source for {zone}")
    return srcs


_EPOCH_DT = datetime.datetime(1970, 1, 1, tzinfo=datetime.timezone.utc)


def _offset_in(zi, t_us):
    off = (_EPOCH_DT + datetime.timedelta(microseconds=t_us - EPOCH_US)).astimezone(zi).utcoffset()
    if off.microseconds:
        raise runner.HarnessError("sub-second zone offset")
    return off.days * 86400 + off.seconds


def iana_offset(zone, t_us):
    """Seconds east of UTC of the zone at the instant; None when the instant is outside 1971..2025
    or the two tzdata sources disagree (the pair is then dropped)."""
    if not (IANA_LO <= t_us <= IANA_HI):
        return None
    offs = {_offset_in(zi, t_us) for zi in _zi_sources(zone).values()}
    return offs.pop() if len(offs) == 1 else None


@functools.lru_cache(maxsize=None)
def transitions(zone):
    """UTC instants (us) in 1971..2025 at which the zone's offset changes (first instant of the
    new offset), found by a daily scan + bisection on whole seconds of the first tzdata source."""
    zi = next(iter(_zi_sources(zone).values()))
    out = []
    day = cal.US_PER_DAY
    t = IANA_LO
    prev = _offset_in(zi, t)
    while t + day <= IANA_HI:
        nxt = _offset_in(zi, t + day)
        if nxt != prev:
            lo, hi = t // S, (t + day) // S          # offset(lo) == prev, offset(hi) == nxt
            while hi - lo > 1:
                mid = (lo + hi) // 2
                if _offset_in(zi, mid * S) == prev:
                    lo = mid
                else:
                    hi = mid
            out.append(hi * S)
        prev = nxt
        t += day
    return tuple(out)


# ---- the alphabets ---------------------------------------------------------------------------------

@functools.lru_cache(maxsize=None)
def instants(tier):
    ts = set()
    for y in YEARS:
        ts.add(cal.us_from_civil(y, 1, 1))
        ts.add(cal.us_from_civil(y, 2, 28, 23, 59, 59, 999999))
        ts.add(cal.us_from_civil(y, 2, 29) if cal.is_leap(y) else cal.us_from_civil(y, 3, 1))
        ts.add(cal.us_from_civil(y, 6, 30, 12, 34, 56, 789000))
        ts.add(cal.us_from_civil(y, 12, 31, 23, 59, 59, 999999))
    for d in range(1, 8):                                    # Sunday 2023-01-01 .. Saturday 2023-01-07
        ts.add(cal.us_from_civil(2023, 1, d, 6, 7, 8, 9000))
    ts.add(cal.us_from_civil(2009, 2, 13, 23, 31, 30))      # the instant every repository test uses
    # within hours of the ends of the range: written with an offset, the wall-clock fields of t +- d leave years
    # 0001..9999 although the instant does not
    ts.add(cal.us_from_civil(1, 1, 1, 1, 30, 0))
    ts.add(cal.us_from_civil(9999, 12, 31, 22, 30, 0))
    for z in ZONES:
        tr = transitions(z)
        for i, e in enumerate(tr):
            y = cal.civil_from_us(e)[0]
            if tier == "thorough" or i == 0 or y in EDGE_YEARS_QUICK:
                ts.add(e - 1)
                ts.add(e)
    return tuple(sorted(ts))


@functools.lru_cache(maxsize=None)
def sweep_instants():
    """thorough: every day of SWEEP_YEARS, alternately at 00:00:00 and 23:59:59.999999."""
    base = set(instants("thorough"))
    out = []
    for y in SWEEP_YEARS:
        k = 0
        for m in range(1, 13):
            for d in range(1, cal.days_in_month(y, m) + 1):
                t = cal.us_from_civil(y, m, d) if k % 2 == 0 else cal.us_from_civil(y, m, d, 23, 59, 59, 999999)
                if t not in base:
                    out.append(t)
                k += 1
    return tuple(out)


def zone_arguments(t_us):
    """The zone arguments enumerated for an instant: none, 114 written offsets, the IANA zones."""
    zs = [None] + list(OFFSET_FORMS)
    if IANA_LO <= t_us <= IANA_HI:
        zs += list(ZONES)
    return zs


def offset_for_ctor(t_us, ctor="O"):
    """Offset (minutes) used by the 'O' constructor: +05:30 unless the local date leaves year 9999; by the 'N'
    constructor: -01:00 unless the local date leaves year 0001 (then +01:00)."""
    if ctor == "N":
        return -60 if cal.rfc3339(t_us, -60) is not None else 60
    return 330 if cal.rfc3339(t_us, 330) is not None else -330


def dur_texts(tier):
    """(name, generator) of the duration-text sub-spaces."""
    yield "1-comp", durtext.sequences(1)
    yield "2-comp", durtext.sequences(2)
    yield ("3-comp" if tier == "thorough" else "3-comp-descending"), durtext.sequences(3, descending_only=(tier != "thorough"))


def dur_text_count(tier):
    n = {u: len(durtext.unit_values(u)) for u in durtext.UNITS}
    c = sum(n.values())
    if tier == "thorough":
        three = c ** 3
    else:                         # third elementary symmetric polynomial of the per-unit value counts
        us = list(n.values())
        three = sum(us[i] * us[j] * us[k] for i in range(6) for j in range(i + 1, 6) for k in range(j + 1, 6))
    return (c + c ** 2 + three) * len(durtext.SIGNS)


def dur_literal(d_us):
    """A text of durtext's grammar denoting exactly d_us microseconds."""
    a = abs(d_us)
    txt = "%d.%06ds" % (a // S, a % S) if a % S else "%ds" % (a // S)
    return ("-" if d_us < 0 else "") + txt


# ---- building bindings through the library's constructors ----------------------------------------------

@functools.lru_cache(maxsize=8192)
def make_ts(t_us, ctor):
    """TimestampType or None.  None when the library's constructor fails or does
    not denote the requested instant (not C11's business: counted, not compared)."""
    import celpy.celtypes as ct

    try:
        if ctor == "F":
            y, m, d, hh, mm, ss, us, _ = cal.civil_from_us(t_us)
            v = ct.TimestampType(y, m, d, hh, mm, ss, us)
        elif ctor == "Z":
            v = ct.TimestampType(cal.rfc3339(t_us))
        else:
            v = ct.TimestampType(cal.rfc3339(t_us, offset_for_ctor(t_us, ctor)))
        ok = isinstance(v, ct.TimestampType) and outcome.plain(v) == t_us
    except Exception:  # noqa
        return None
    return v if ok else None


@functools.lru_cache(maxsize=256)
def make_dur(d_us):
    import celpy.celtypes as ct

    try:
        v = ct.DurationType(datetime.timedelta(microseconds=d_us))
        return v if outcome.plain(v) == d_us else None
    except Exception:  # noqa
        return None


# ---- one case: expected (model) and observed (library) -----------------------------------------------

def expected(w):
    """Model outcome of a witness: ('int', n) | ('timestamp', us) | ('duration', us) | ('bool', b) | 'E' | UNSPEC."""
    sp = w["space"]
    if sp == "acc":
        z = w["zone"]
        if z is None:
            off = 0
        else:
            off = cal.parse_offset(z)
            if off is None:
                off = iana_offset(z, w["t_us"]) if z in ZONES else None
                if off is None:
                    return UNSPEC
        f = cal.fields(w["t_us"], off)
        return UNSPEC if f is UNSPEC else ("int", f[w["acc"]])
    if sp == "arith":
        t, d, p = w["t_us"], w["d_us"], w["prog"]
        if not cal.dur_in_range(d) or not cal.in_range(t):
            return UNSPEC
        if p in ("t + d", "d + t"):
            r = cal.ts_add(t, d)
            return "E" if r == cal.ERR else ("timestamp", r)
        if p == "t - d":
            r = cal.ts_sub(t, d)
            return "E" if r == cal.ERR else ("timestamp", r)
        if p == "(t + d) - d == t":
            r = cal.ts_add(t, d)
            if r == cal.ERR:
                return "E"
            r2 = cal.ts_sub(r, d)
            return "E" if r2 == cal.ERR else ("bool", r2 == t)
        if p == "(t + d) - t == d":
            r = cal.ts_add(t, d)
            if r == cal.ERR:
                return "E"
            r2 = cal.ts_diff(r, t)
            return "E" if r2 == cal.ERR else ("bool", r2 == d)
        raise runner.HarnessError(f"unknown program {p}")
    if sp == "diff":
        r = cal.ts_diff(w["t1_us"], w["t2_us"])
        return "E" if r == cal.ERR else ("duration", r)
    if sp == "durtext":
        r = durtext.oracle(w["text"])
        return UNSPEC if r is UNSPEC else "E" if r == durtext.ERR else ("duration", r)
    if sp == "history":
        return hist_model(w["term"])
    raise runner.HarnessError(f"unknown space {sp}")


def program_of(w):
    """(program text, bindings or None when a binding cannot be built)."""
    import celpy.celtypes as ct

    sp, lit = w["space"], w.get("form") == "literal"
    if sp == "acc":
        if lit:
            arg = "" if w["zone"] is None else '"%s"' % w["zone"]
            return 'timestamp("%s").%s(%s)' % (cal.rfc3339(w["t_us"]), w["acc"], arg), {}
        t = make_ts(w["t_us"], w["ctor"])
        if t is None:
            return None, None
        if w["zone"] is None:
            return "t.%s()" % w["acc"], {"t": t}
        return "t.%s(z)" % w["acc"], {"t": t, "z": ct.StringType(w["zone"])}
    if sp == "arith":
        if lit:
            return ARITH_LITERAL[w["prog"]] % {"t": 'timestamp("%s")' % cal.rfc3339(w["t_us"]), "d": 'duration("%s")' % dur_literal(w["d_us"])}, {}
        t, d = make_ts(w["t_us"], w["ctor"]), make_dur(w["d_us"])
        if t is None or d is None:
            return None, None
        return w["prog"], {"t": t, "d": d}
    if sp == "diff":
        if lit:
            return 'timestamp("%s") - timestamp("%s")' % (cal.rfc3339(w["t1_us"]), cal.rfc3339(w["t2_us"])), {}
        t1, t2 = make_ts(w["t1_us"], w["ctor1"]), make_ts(w["t2_us"], w["ctor2"])
        if t1 is None or t2 is None:
            return None, None
        return "t1 - t2", {"t1": t1, "t2": t2}
    if sp == "durtext":
        if lit:
            return 'duration("%s")' % w["text"], {}
        return "duration(s)", {"s": ct.StringType(w["text"])}
    if sp == "history":
        return hist_text(w["term"]), {}
    raise runner.HarnessError(f"unknown space {sp}")


class Progs:
    """One compiled program per text per worker (bound-variable programs are reused)."""

    def __init__(self, rk):
        self.rk = rk
        self.cache = {}

    def get(self, text, keep=True):
        p = self.cache.get(text)
        if p is None:
            p = celrun.Prog(self.rk, text)
            if keep:
                self.cache[text] = p
        return p


def observe(w, progs):
    """(outcome, is-proper-CEL-class) or (None, None) when a binding could not be built."""
    import celpy.celtypes as ct

    text, bindings = program_of(w)
    if text is None:
        return None, None
    for earlier in w.get("history", ()):                 # history space: the steps before the judged one, same process
        progs.get(hist_text(earlier), keep=False).eval_raw({})
    o, raw = progs.get(text, keep=bool(bindings)).eval_raw(bindings)
    proper = True
    if o[0] == "V" and o[1] == "timestamp":
        proper = isinstance(raw, ct.TimestampType)
    elif o[0] == "V" and o[1] == "duration":
        proper = isinstance(raw, ct.DurationType)
    return o, proper


def judge(exp, o, proper):
    """None when observed satisfies expected, else the violation kind."""
    if exp == "E":
        if o[0] == "E":
            return None
        return "value-instead-of-error" if o[0] == "V" else "other-exception:" + o[2]
    if o[0] == "V":
        if o[1] == exp[0] and o[2] == exp[1]:
            return None if proper else "not-a-cel-value"
        return "wrong-value" if o[1] == exp[0] else "wrong-type:" + o[1]
    if o[0] == "E":
        return "error-instead-of-value"
    return "other-exception:" + (o[2] if o[0] == "X" else outcome.short(o))


def zone_class(z):
    if z is None:
        return "nozone"
    off = cal.parse_offset(z)
    if off is None:
        return "iana"
    return "zero-offset" if off == 0 else ("-offset" if z[0] == "-" else "+offset")


def _passes(w, progs):
    e = expected(w)
    if e is UNSPEC:
        return True
    o, pr = observe(w, progs)
    return o is None or judge(e, o, pr) is None


def ctor_cause(w, progs):
    """Differential attribution to the way the binding was built (its tzinfo): the same case
    with another constructor passes => the constructor is part of the root cause."""
    if progs is None or w.get("form") == "literal":
        return "any-ctor"
    if w["space"] == "diff":
        if (w["ctor1"], w["ctor2"]) != ("F", "F") and _passes(dict(w, ctor1="F", ctor2="F"), progs):
            return "ctor-dependent"
        return "any-ctor"
    alt = "Z" if w["ctor"] == "F" else "F"
    return f"ctor={w['ctor']}-only" if _passes(dict(w, ctor=alt), progs) else "any-ctor"


def signature(w, kind, exp, progs=None):
    """core@variant; run() folds the variants (form/runner) of one core into one signature."""
    sp = w["space"]
    variant = f"{w.get('form', 'bound')}/{w['runner']}"
    if sp == "acc":
        # a wrong hour/minute for the same (instant, zone) means the offset itself is wrong: one cause for all ten accessors
        what = w["acc"]
        if progs is not None and not (_passes(dict(w, acc="getHours"), progs) and _passes(dict(w, acc="getMinutes"), progs)):
            what = "local-time"
        core = f"acc:{what}:{zone_class(w['zone'])}:{kind}:{ctor_cause(w, progs)}"
    elif sp == "arith":
        op = w["prog"]
        if op not in ARITH_PROGS[:3] and progs is not None and not _passes(dict(w, prog="t + d"), progs):
            op = "t + d"                                  # the law fails because its first step does
        core = f"arith:{op}:{kind}:{'overflow' if exp == 'E' else 'in-range'}:{ctor_cause(w, progs)}"
    elif sp == "diff":
        d = w["t1_us"] - w["t2_us"]
        core = f"diff:t1 - t2:{kind}:{'0' if d == 0 else '-' if d < 0 else '+'}:{ctor_cause(w, progs)}"
    elif sp == "history":
        core = f"history:{kind}:{w['term'][0]}-after-{'+'.join(t[0] for t in w['history']) or 'nothing'}"
    else:
        core = f"durtext:{kind}:{durtext_cause(w, progs)}"
    return core + "@" + variant


def fold_signatures(violations):
    """One signature per core: 'core [bound/I,bound/C,...]' listing the forms/runners it was seen under."""
    seen = {}
    for v in violations:
        core, _, variant = v["sig"].partition("@")
        seen.setdefault(core, set()).add(variant)
    order = ["bound/I", "bound/C", "literal/I", "literal/C"]
    for v in violations:
        core, _, variant = v["sig"].partition("@")
        vs = sorted(seen[core], key=lambda x: order.index(x) if x in order else 99)
        v["sig"] = f"{core} [{','.join(vs)}]"


_COMP = re.compile(r"([0-9.]+)([a-z]+)")


def durtext_cause(w, progs):
    """Attribute a failing duration text to its smallest failing part: a single component, the
    sign, or only the combination."""
    text = w["text"]
    v = durtext.parse(text)
    if v is not None and abs(v) >= 10 ** 9:
        if abs(v) > durtext.MAX_S:
            return "beyond-limit-by-" + ("fraction" if abs(v) - durtext.MAX_S < 1 else "seconds")
        return "large-magnitude" + ("-with-fraction" if v.denominator != 1 else "")
    if progs is None:
        return "text"
    body = text[1:] if text[:1] in "+-" else text
    comps = _COMP.findall(body)
    bad_units = []
    for num, unit in comps:
        w1 = dict(w, text=num + unit)
        e1 = expected(w1)
        if e1 is UNSPEC:
            continue
        o1, pr1 = observe(w1, progs)
        if judge(e1, o1, pr1) is not None and unit not in bad_units:
            bad_units.append(unit)
    if bad_units:
        return "unit=" + "+".join(sorted(bad_units))
    if body != text:
        w2 = dict(w, text=body)
        e2 = expected(w2)
        o2, pr2 = observe(w2, progs)
        if e2 is not UNSPEC and judge(e2, o2, pr2) is None:
            return "sign=" + text[0]
    return "combination:" + ",".join(u for _, u in comps)


def label_of(exp):
    if exp is UNSPEC:
        return "unspec"
    return "E" if exp == "E" else exp[0]


def run_case(part, w, progs):
    exp = expected(w)
    if exp is UNSPEC:
        part.case(nontrivial=False)
        part.outcome(f"{w['space']}:unspec")
        if w["space"] == "acc" and zone_class(w["zone"]) == "iana":
            part.extra["iana_pairs_dropped_tzdata_disagree"] += 1
        return
    o, proper = observe(w, progs)
    if o is None:
        part.case(nontrivial=False)
        part.outcome(f"{w['space']}:binding-not-built")
        part.extra["bindings_not_built_by_library_constructor"] += 1
        if len(part.notes) < 5:
            part.notes.append(f"library constructor did not denote the requested value: {w}")
        return
    part.case(nontrivial=True)
    part.outcome(f"{w['space']}:{label_of(exp)}")
    kind = judge(exp, o, proper)
    if kind is None:
        return
    part.outcome(f"{w['space']}:observed-{outcome.label(o)}-for-{label_of(exp)}")
    part.violation(kind, signature(w, kind, exp, progs), w, f"{describe(w)}: expected {show(exp)}, observed {outcome.short(o)}"
                   + ("" if proper else " (not an instance of the CEL class)"))


def show(exp):
    if exp is UNSPEC:
        return "UNSPEC"
    if exp == "E":
        return "evaluation error"
    if exp[0] == "timestamp":
        return f"timestamp {cal.rfc3339(exp[1])} (us={exp[1]})"
    return f"{exp[0]} {exp[1]}"


def ctor_text(t_us, ctor):
    if ctor == "F":
        return "TimestampType(%d, %d, %d, %d, %d, %d, %d)" % cal.civil_from_us(t_us)[:7]
    return 'TimestampType("%s")' % cal.rfc3339(t_us, None if ctor == "Z" else offset_for_ctor(t_us, ctor))


def describe(w):
    text, _ = program_of(w)
    sp, lit = w["space"], w.get("form") == "literal"
    if sp == "history":
        return f"[{w['runner']}] {text}  evaluated in one process after {[hist_text(t) for t in w['history']]}"
    if lit:
        return f"[{w['runner']}] {text}"
    if sp == "acc":
        extra = f"t = {ctor_text(w['t_us'], w['ctor'])}" + ("" if w["zone"] is None else f", z = {w['zone']!r}")
    elif sp == "arith":
        extra = f"t = {ctor_text(w['t_us'], w['ctor'])}, d = DurationType(timedelta(microseconds={w['d_us']}))"
    elif sp == "diff":
        extra = f"t1 = {ctor_text(w['t1_us'], w['ctor1'])}, t2 = {ctor_text(w['t2_us'], w['ctor2'])}"
    else:
        extra = f"s = {w['text']!r}"
    return f"[{w['runner']}] {text}  with {extra}"


# ---- shards --------------------------------------------------------------------------------------------

def acc_shard(task):
    rk, name, lo, hi, tier = task
    part = runner.Part()
    progs = Progs(rk)
    sweep = name.startswith("acc-sweep")
    ts = sweep_instants() if sweep else instants(tier)
    n = 0
    for i in range(lo, hi):
        t = ts[i]
        for k, z in enumerate(zone_arguments(t)):
            # the constructor rotates over (instant, zone argument); without a zone argument all three are used
            for ctor in (CTORS if (z is None and not sweep) else (CTORS[(i + k) % 3],)):
                for acc in ACCESSORS:
                    run_case(part, {"space": "acc", "runner": rk, "t_us": t, "ctor": ctor, "acc": acc, "zone": z, "form": "bound"}, progs)
                    n += 1
    part.space(f"{name}:{rk}", 0, n)
    if lo == 0 and not sweep:
        part.sample({"space": "acc", "runner": rk, "first_instant": cal.rfc3339(ts[0]), "last_instant": cal.rfc3339(ts[-1]), "instants": len(ts),
                     "zone_arguments": ["(none)", OFFSET_FORMS[0], "...", OFFSET_FORMS[-1]] + list(ZONES), "accessors": list(ACCESSORS), "constructors": list(CTORS)})
    return part


def arith_shard(task):
    rk, name, lo, hi, tier = task
    part = runner.Part()
    progs = Progs(rk)
    ts = instants(tier)
    n = 0
    for i in range(lo, hi):
        t = ts[i]
        for ctor in CTORS:
            for d in D11:
                for p in ARITH_PROGS:
                    run_case(part, {"space": "arith", "runner": rk, "t_us": t, "ctor": ctor, "d_us": d, "prog": p, "form": "bound"}, progs)
                    n += 1
    part.space(f"{name}:{rk}", 0, n)
    if lo == 0:
        part.sample({"space": "arith", "runner": rk, "programs": list(ARITH_PROGS), "durations_us": list(D11)})
    return part


def diff_shard(task):
    rk, name, lo, hi, tier = task
    part = runner.Part()
    progs = Progs(rk)
    ts = instants(tier)
    n = 0
    tq = instants("quick")                 # second operand: the quick alphabet (a subset of the thorough one)
    inq = set(tq)
    for i in range(lo, hi):
        for j, t2 in enumerate(tq):
            run_case(part, {"space": "diff", "runner": rk, "t1_us": ts[i], "t2_us": t2, "ctor1": CTORS[i % 3], "ctor2": CTORS[j % 3], "form": "bound"}, progs)
            n += 1
            if ts[i] not in inq:           # and the reversed pair, unless the first loop already produces it
                run_case(part, {"space": "diff", "runner": rk, "t1_us": t2, "t2_us": ts[i], "ctor1": CTORS[j % 3], "ctor2": CTORS[i % 3], "form": "bound"}, progs)
                n += 1
    part.space(f"{name}:{rk}", 0, n)
    return part


def durtext_shard(task):
    rk, name, lo, hi, tier = task
    part = runner.Part()
    progs = Progs(rk)
    n = idx = 0
    for _, gen in dur_texts(tier):
        for body in gen:
            if lo <= idx < hi:
                for sign in durtext.SIGNS:
                    run_case(part, {"space": "durtext", "runner": rk, "text": sign + body, "form": "bound"}, progs)
                    n += 1
            idx += 1
    if lo == 0:
        for body in DUR_BOUNDARY:
            for sign in durtext.SIGNS:
                run_case(part, {"space": "durtext", "runner": rk, "text": sign + body, "form": "bound"}, progs)
                part.space(f"durtext-boundary:{rk}", 0, 1)
        part.sample({"space": "durtext", "runner": rk, "first": "0h", "last_boundary": DUR_BOUNDARY[-1], "signs": list(durtext.SIGNS)})
    part.space(f"{name}:{rk}", 0, n)
    return part


# ---- histories: the judged term is evaluated after another term in the same process ----------------------
# (a value memoised, a zone cached or a parser left in a state by the first step must not change the second)

H_DUR_BODIES = ("1h30m", "45m", "1.5s", "0s", "90m")
H_TS_TEXTS = ("2009-02-13T23:31:30Z", "2009-02-13T23:31:30+00:00", "2009-02-14T05:16:30+05:45", "2009-02-13T23:31:30.000000Z",
              "2009-02-13T23:31:30.5Z", "2009-02-13T14:01:30-09:30")
H_ACC_ZONES = ("+05:45", "-05:45", "Asia/Kathmandu", "UTC")


# two instants in the same UTC clock hour on either side of a zone transition that does not fall on a UTC hour (and one
# pair around an hour-aligned transition): a zone offset remembered per (zone, hour) or per zone must not leak from one to the other
H_EDGE = (("2021-10-02T15:15:00Z", "Australia/Lord_Howe"), ("2021-10-02T15:45:00Z", "Australia/Lord_Howe"), ("1985-12-31T18:15:00Z", "Asia/Kathmandu"),
          ("1985-12-31T18:45:00Z", "Asia/Kathmandu"), ("2021-03-14T06:45:00Z", "America/New_York"), ("2021-03-14T07:15:00Z", "America/New_York"))


def hist_terms():
    out = [["dur", sign + b] for b in H_DUR_BODIES for sign in ("", "-", "+")]
    out += [["ts", t] for t in H_TS_TEXTS]
    out += [["acc", t, a, z] for t in H_TS_TEXTS[:2] for a in ("getHours", "getMinutes") for z in H_ACC_ZONES]
    out += [["acc", t, a, z] for t, z in H_EDGE for a in ("getHours", "getMinutes")]
    return out


def hist_text(term):
    if term[0] == "dur":
        return 'duration("%s")' % term[1]
    if term[0] == "ts":
        return 'timestamp("%s")' % term[1]
    return 'timestamp("%s").%s("%s")' % (term[1], term[2], term[3])


def hist_model(term):
    if term[0] == "dur":
        return _model_term("duration", term[1])
    if term[0] == "ts":
        return _model_term("timestamp", term[1])
    r = cal.parse_rfc3339(term[1])
    if r is None or not r[1]:
        return UNSPEC
    off = cal.parse_offset(term[3])
    if off is None:
        off = iana_offset(term[3], r[0]) if term[3] in ZONES else None
        if off is None:
            return UNSPEC
    f = cal.fields(r[0], off)
    return UNSPEC if f is UNSPEC else ("int", f[term[2]])


def history_count():
    n = len(hist_terms())
    return n + n * n


def history_cases(rk):
    terms = hist_terms()
    for b in terms:
        yield {"space": "history", "runner": rk, "history": [], "term": b, "form": "literal"}
    for a in terms:
        for b in terms:
            yield {"space": "history", "runner": rk, "history": [a], "term": b, "form": "literal"}


def history_shard(task):
    rk, name, lo, hi, tier = task
    part = runner.Part()
    progs = Progs(rk)
    n = 0
    for idx, w in enumerate(history_cases(rk)):
        if lo <= idx < hi:
            run_case(part, w, progs)
            n += 1
    if lo == 0:
        part.sample({"space": "history", "runner": rk, "terms": [hist_text(t) for t in hist_terms()][:8], "n_terms": len(hist_terms())})
    part.space(f"{name}:{rk}", 0, n)
    return part


def literal_cases(rk, tier):
    """Literal spellings: timestamp("...") / duration("...") inside the program text."""
    base = [t for t in instants("quick")]
    for t in base:
        for z in LIT_ZONES:
            for acc in ACCESSORS:
                yield {"space": "acc", "runner": rk, "t_us": t, "ctor": "Z", "acc": acc, "zone": z, "form": "literal"}
        for d in D11:
            for p in ARITH_PROGS[:3]:
                yield {"space": "arith", "runner": rk, "t_us": t, "ctor": "Z", "d_us": d, "prog": p, "form": "literal"}
    for i, t1 in enumerate(base):
        for t2 in (base[0], base[(i + 1) % len(base)], base[-1]):
            yield {"space": "diff", "runner": rk, "t1_us": t1, "t2_us": t2, "ctor1": "Z", "ctor2": "Z", "form": "literal"}
    for body in list(durtext.sequences(1)) + list(DUR_BOUNDARY):
        for sign in durtext.SIGNS:
            yield {"space": "durtext", "runner": rk, "text": sign + body, "form": "literal"}


def literal_count():
    nb = len(instants("quick"))
    return nb * (len(LIT_ZONES) * len(ACCESSORS) + len(D11) * 3) + nb * 3 + (len(durtext.components()) + len(DUR_BOUNDARY)) * len(durtext.SIGNS)


def literal_shard(task):
    rk, name, lo, hi, tier = task
    part = runner.Part()
    progs = Progs(rk)
    n = 0
    for idx, w in enumerate(literal_cases(rk, tier)):
        if lo <= idx < hi:
            # the literal path is only meaningful if the library's own text constructor denotes the instant
            ok = all(make_ts(w[k], "Z") is not None for k in ("t_us", "t1_us", "t2_us") if k in w)
            if not ok:
                part.case(nontrivial=False)
                part.outcome("literal:binding-not-built")
                part.extra["bindings_not_built_by_library_constructor"] += 1
            else:
                run_case(part, w, progs)
            n += 1
    part.space(f"{name}:{rk}", 0, n)
    return part


# ---- validation of the reference models against the repository's pinned expectations ---------------------

_TERM = re.compile(r"\s*(timestamp|duration)\('([^']*)'\)")
_ACC = re.compile(r"^timestamp\('([^']*)'\)\.(get\w+)\((?:'([^']*)')?\)$")


def _model_term(kind, text):
    if kind == "timestamp":
        r = cal.parse_rfc3339(text)
        if r is None or not r[1] or not cal.in_range(r[0]):
            return UNSPEC                   # range / sub-microsecond text: conversions are C10's
        return ("timestamp", r[0])
    r = durtext.oracle(text)
    return UNSPEC if r is UNSPEC else "E" if r == durtext.ERR else ("duration", r)


def _model_expr(expr):
    """Model value of the tiny fragment  term { (+|-) term } [ (==|!=) term { (+|-) term } ]."""
    def additive(s):
        m = _TERM.match(s)
        if not m:
            return UNSPEC, s
        v, s = _model_term(m.group(1), m.group(2)), s[m.end():]
        while True:
            m2 = re.match(r"\s*([+-])\s*", s)
            if not m2:
                return v, s
            m3 = _TERM.match(s[m2.end():])
            if not m3:
                return UNSPEC, ""
            r = _model_term(m3.group(1), m3.group(2))
            s = s[m2.end() + m3.end():]
            if v is UNSPEC or r is UNSPEC:
                v = UNSPEC
            elif v == "E" or r == "E":
                v = "E"
            elif m2.group(1) == "+" and {v[0], r[0]} == {"timestamp", "duration"}:
                t = v[1] if v[0] == "timestamp" else r[1]
                d = r[1] if v[0] == "timestamp" else v[1]
                x = cal.ts_add(t, d)
                v = "E" if x == cal.ERR else ("timestamp", x)
            elif m2.group(1) == "-" and v[0] == "timestamp" and r[0] == "duration":
                x = cal.ts_sub(v[1], r[1])
                v = "E" if x == cal.ERR else ("timestamp", x)
            elif m2.group(1) == "-" and v[0] == "timestamp" and r[0] == "timestamp":
                x = cal.ts_diff(v[1], r[1])
                v = "E" if x == cal.ERR else ("duration", x)
            else:
                v = UNSPEC                  # duration +- duration: not in the property
    a, rest = additive(expr)
    m = re.match(r"\s*(==|!=)\s*", rest)
    if not m:
        return a if not rest.strip() else UNSPEC
    b, rest2 = additive(rest[m.end():])
    if rest2.strip() or a is UNSPEC or b is UNSPEC:
        return UNSPEC
    if a == "E" or b == "E":
        return "E"
    if a[0] != b[0]:
        return UNSPEC
    return ("bool", (a[1] == b[1]) == (m.group(1) == "=="))


def validate_pinned():
    """features/timestamps.feature: every non-@wip scenario in the model's fragment must agree
    with the model.  Returns (validated, skipped)."""
    path = os.path.join(repo.REPO, "features", "timestamps.feature")
    if not os.path.exists(path):
        raise runner.HarnessError(f"{path} missing")
    wip = False
    expr = None
    validated = skipped = 0
    for line in open(path, encoding="utf-8"):
        s = line.strip()
        if s.startswith("@"):
            wip = "@wip" in s
        elif s.startswith("Scenario:"):
            expr = None
        elif s.startswith("When CEL expression"):
            m = re.match(r"""When CEL expression (["'])(.*)\1 is evaluated""", s)
            expr = m.group(2) if m else None
        elif s.startswith("Then ") and expr is not None:
            this_wip, wip = wip, False
            if this_wip:
                skipped += 1
                continue
            m = _ACC.match(expr)
            if m:
                w = {"space": "acc", "t_us": None, "acc": m.group(2), "zone": m.group(3)}
                r = cal.parse_rfc3339(m.group(1))
                if r is None or m.group(2) not in ACCESSORS:
                    skipped += 1
                    continue
                w["t_us"] = r[0]                      # accessors of a truncated instant: ms field is exact
                z = m.group(3)
                if z is None or cal.parse_offset(z) is not None:
                    model = expected(w)
                else:
                    try:
                        off = _offset_in(zoneinfo.ZoneInfo(z), r[0])
                    except Exception:  # noqa
                        skipped += 1
                        continue
                    f = cal.fields(r[0], off)
                    model = UNSPEC if f is UNSPEC else ("int", f[m.group(2)])
            else:
                model = _model_expr(expr)
            if model is UNSPEC:
                skipped += 1
                continue
            mv = re.match(r"Then value is celpy\.celtypes\.(\w+)\(source=(.*)\)$", s)
            if mv:
                pinned = {"IntType": ("int", None), "BoolType": ("bool", None)}.get(mv.group(1))
                if pinned is None:
                    skipped += 1
                    continue
                val = int(mv.group(2)) if mv.group(1) == "IntType" else (mv.group(2) == "True")
                if model != (pinned[0], val):
                    raise runner.HarnessError(f"reference model disagrees with pinned scenario: {expr!r}: model {model}, pinned {s!r}")
            elif s.startswith("Then eval_error"):
                if model != "E":
                    raise runner.HarnessError(f"reference model disagrees with pinned scenario: {expr!r}: model {model}, pinned {s!r}")
            else:
                skipped += 1
                continue
            validated += 1
    if validated < 30:
        raise runner.HarnessError(f"only {validated} pinned scenarios validated the reference models")
    return validated, skipped


# ---- driver ----------------------------------------------------------------------------------------------

def run(ctx):
    cal.selftest()
    durtext.selftest()
    validated, skipped = validate_pinned()
    tier = ctx.tier
    ts = instants(tier)
    n_iana = sum(1 for t in ts if IANA_LO <= t <= IANA_HI)
    ntr = {z: len(transitions(z)) for z in ZONES}
    # tzdata agreement, checked at start-up on exactly the pairs that will be enumerated
    sweep = sweep_instants() if ctx.thorough else ()
    pairs = [(z, t) for t in tuple(ts) + tuple(sweep) if IANA_LO <= t <= IANA_HI for z in ZONES]
    dropped_base = sum(1 for t in ts for z in ZONES if IANA_LO <= t <= IANA_HI and iana_offset(z, t) is None)
    dropped_sweep = sum(1 for t in sweep for z in ZONES if IANA_LO <= t <= IANA_HI and iana_offset(z, t) is None)
    dropped = dropped_base + dropped_sweep
    sources = sorted(_zi_sources("UTC"))
    ctx.rule = (
        f"T11 = {len(ts)} instants (us resolution): for each year in {list(YEARS)} Jan 1 00:00:00, Feb 28 23:59:59.999999, Feb 29|Mar 1 00:00:00, "
        "Jun 30 12:34:56.789, Dec 31 23:59:59.999999; Sun..Sat 2023-01-01..07; 2009-02-13T23:31:30Z; for each IANA zone the instant of an offset "
        f"change and the microsecond before it ({'every change 1971-2025' if ctx.thorough else 'first change and those of 2011 and 2021'}). "
        f"D11 = {len(D11)} durations (0, +-1us, +-1ms, +-1s, +-59.999999s, +-1h, +-1d, +-365d, +-146097d, +-315576000000s). "
        "Cases: (accessor x instant x zone argument {none, each of 114 written +HH:MM/-HH:MM offsets (multiples of 15 min in +-14:00, both spellings "
        "of zero), 8 IANA zones (one with a seconds-valued offset inside the window) for instants in 1971..2025}), the binding built by a constructor in {integer fields, RFC3339 Z text, RFC3339 "
        "+05:30 text} rotating over (instant, zone argument) and all three when there is no zone argument; "
        "(program in {t + d, d + t, t - d, (t + d) - d == t, (t + d) - t == d} x T11 x constructor x D11); t1 - t2 for every ordered pair of T11 (thorough: every ordered pair with at least one operand in the quick T11); "
        "duration(s) for every text sign x sequence of <= 3 components (any unit order, repetition allowed"
        + ("" if ctx.thorough else "; 3-component sequences restricted to strictly descending units") +
        ") over units h,m,s,ms,us,ns and values 0,1,59,90,1.5,.5 (us: whole values; ns: whole microseconds) plus a list of range-boundary texts; "
        "histories: every term of a %d-term alphabet (signed/unsigned duration texts, spellings of one instant, zoned accessors) alone and after every other term in the same process; "
        "the same programs with timestamp(\"...\")/duration(\"...\") literals for a sub-space" % len(hist_terms())
        + ("; every day of years " + str(list(SWEEP_YEARS)) + " x zone argument x accessor" if ctx.thorough else "") +
        ". Each case runs under one runner (I and C in separate worker pools). A case is non-trivial iff the reference model gives a definite "
        "answer (value or 'must be an evaluation error'); UNSPEC = local civil date outside years 1..9999, dropped IANA pairs, sub-microsecond "
        "duration texts, bindings the library's constructor did not build faithfully. Cases are distinct by construction."
    )
    ctx.assumptions = [
        "timestamps are built by the library's own constructors from RFC 3339 text or integer fields and carry UTC or a fixed whole-minute offset; host-supplied datetimes carrying other tzinfo objects (ZoneInfo zones at DST folds, offsets with seconds) are not explored",
        "IANA offsets are trusted data read through stdlib zoneinfo from " + " and ".join(sources) + "; pairs on which the sources disagree are dropped",
        "IANA zones only for instants in 1971..2025; no leap seconds",
        "instants, durations and offsets outside the alphabets are not explored",
        "bindings are built by the library's own constructors and checked (by integer fields of the result) to denote the requested value",
    ]
    ctx.coverage_extra.update({
        "pinned_scenarios_validated": validated, "pinned_scenarios_outside_fragment_or_wip": skipped,
        "iana_pairs": len(pairs), "iana_pairs_dropped_at_startup": dropped, "tzdata_sources": sources,
        "zone_transitions_1971_2025": ntr, "instants": len(ts), "instants_in_iana_window": n_iana,
    })
    nq = len(instants("quick"))
    if not set(instants("quick")) <= set(ts):
        raise runner.HarnessError("quick instants are not a subset of the tier's instants")
    n_dt = dur_text_count(tier) // len(durtext.SIGNS)
    n_lit = literal_count()
    for rk in ("I", "C"):
        tasks = [(acc_shard, (rk, "acc", lo, hi, tier)) for lo, hi in runner.shards(len(ts), 48)]
        tasks += [(arith_shard, (rk, "arith", lo, hi, tier)) for lo, hi in runner.shards(len(ts), 16)]
        tasks += [(diff_shard, (rk, "diff", lo, hi, tier)) for lo, hi in runner.shards(len(ts), 8)]
        tasks += [(durtext_shard, (rk, "durtext", lo, hi, tier)) for lo, hi in runner.shards(n_dt, 16)]
        tasks += [(literal_shard, (rk, "literal", lo, hi, tier)) for lo, hi in runner.shards(n_lit, 16)]
        tasks += [(history_shard, (rk, "history", lo, hi, tier)) for lo, hi in runner.shards(history_count(), 8)]
        if ctx.thorough:
            tasks += [(acc_shard, (rk, "acc-sweep", lo, hi, tier)) for lo, hi in runner.shards(len(sweep), 128)]
        # one pool per runner kind: environments of the two kinds never share a process
        ctx.run_shards(_dispatch, tasks)
    fold_signatures(ctx.part.violations)
    for note in confirm(ctx.part.violations)[:5]:
        ctx.part.notes.append(note)
    # cardinalities, computed independently of the loops
    card = {
        "acc": len(ACCESSORS) * ((len(CTORS) + len(OFFSET_FORMS)) * len(ts) + len(ZONES) * n_iana),
        "arith": len(ts) * len(CTORS) * len(D11) * len(ARITH_PROGS),
        "diff": len(ts) * nq + (len(ts) - nq) * nq,
        "durtext": dur_text_count(tier),
        "durtext-boundary": len(DUR_BOUNDARY) * len(durtext.SIGNS),
        "literal": n_lit,
        "history": history_count(),
    }
    if ctx.thorough:
        card["acc-sweep"] = len(ACCESSORS) * ((1 + len(OFFSET_FORMS)) * len(sweep) + len(ZONES) * sum(1 for t in sweep if IANA_LO <= t <= IANA_HI))
    for name, s in ctx.part.spaces.items():
        base = name.rsplit(":", 1)[0]
        s["cardinality"] = card[base]
    total = 2 * sum(card.values())
    ctx.coverage_extra["expected_cases"] = total
    if set(n.rsplit(":", 1)[0] for n in ctx.part.spaces) != set(card):
        raise runner.HarnessError(f"sub-spaces enumerated {sorted(ctx.part.spaces)} != planned {sorted(card)}")
    if ctx.part.evaluations != total:
        raise runner.HarnessError(f"enumerated {ctx.part.evaluations} cases, cardinality is {total}")
    seen = ctx.part.extra.get("iana_pairs_dropped_tzdata_disagree", 0)
    want = 2 * len(ACCESSORS) * (dropped_base + dropped_sweep)
    if seen != want:
        raise runner.HarnessError(f"dropped IANA pairs: workers counted {seen} cases, start-up check implies {want}")


def _confirm(w):
    exp = expected(w)
    o, proper = observe(w, Progs(w["runner"]))
    return None if (exp is UNSPEC or o is None) else judge(exp, o, proper)


def confirm(violations):
    """Soundness rule 3: the first witness of every signature is re-run in a fresh worker process
    (one pool per runner kind); a witness that does not reproduce is a harness error."""
    first = {}
    unconfirmed = []
    for v in violations:
        first.setdefault(v["sig"], v)
    for rk in ("I", "C"):
        vs = [v for v in first.values() if v["witness"]["runner"] == rk]
        if not vs:
            continue
        ws = [v["witness"] for v in vs]
        ws = ws * 2 if len(ws) == 1 else ws            # pmap runs a single task in-process; force a forked worker
        for v, kind in zip(vs, runner.pmap(_confirm, ws, nproc=min(4, len(ws)))):
            if kind != v["kind"]:
                unconfirmed.append((v, kind))
    if unconfirmed:
        # An outcome that depends on what the worker evaluated earlier.  If the history space pins the dependence down
        # with a witness that does reproduce from a fresh process, that one is reported and these are dropped (their
        # replay would not reproduce); with nothing reproducible to report the run is a harness error, never silence.
        gone = {v["sig"] for v, _ in unconfirmed}
        kept = [v for v in violations if v["sig"] not in gone]
        if not any(v["witness"].get("space") == "history" for v in kept):
            v, kind = unconfirmed[0]
            raise runner.HarnessError(f"witness did not reproduce in a fresh process ({v['kind']} -> {kind}): {v['witness']}")
        violations[:] = kept
    return [f"{v['sig']}: seen in a worker, not reproduced alone in a fresh process ({v['kind']} -> {k})" for v, k in unconfirmed]


def _dispatch(task):
    fn, args = task
    return fn(args)


def replay(w):
    cal.selftest()
    durtext.selftest()
    wit = w["witness"]
    progs = Progs(wit["runner"])
    exp = expected(wit)
    print("replaying", wit)
    if exp is UNSPEC:
        print("reference model: UNSPEC (not compared)")
        return 0
    o, proper = observe(wit, progs)
    if o is None:
        print("the library constructor did not build the binding; not compared")
        return 0
    print(describe(wit))
    print("expected:", show(exp))
    print("observed:", outcome.short(o), "" if proper else "(not an instance of the CEL class)")
    kind = judge(exp, o, proper)
    print("REPRODUCED " + kind if kind else "not reproduced")
    return 1 if kind else 0
