"""C10 Type conversions round-trip and range-check (DESIGN.md section 3, C10).

Bounded-exhaustive: every value of the boundary alphabets (int64, uint64), a fixed list of
finite doubles (+ NaN, +-inf for the range check), every string over A_s and every byte string
over A_b up to a length bound, whole-second instants at year boundaries / leap days under five
UTC offsets, boundary durations, and a list of texts (unparsable, out of range, in range, and
spellings the property is silent on).  Each value is bound to the variable ``x`` and driven
through every conversion *chain* the property names, under both runners:

    value      conv(string(x))            must BE x (type and value), not merely compare equal
    equal      conv(string(x)) == x       must be true
    back       string(conv(string(x))) == string(x)     (composition in the other direction)
    range      int(x) / uint(x) ...       value (truncated toward zero) or evaluation error

``string(x)`` itself is never judged.  The oracle is mc.ref.convref / mc.ref.timetext.
"""
import ast
import itertools
import math
import os
import re

from .. import celrun, outcome, repo, runner
from ..ref import UNSPEC, convref, intarith, timetext
from ..ref.convref import ERR

LEVEL = "exploration"
TRUE = ("TRUE",)

A_S = ["a", "0", "7", "x", "u", "n", '"', "'", "\\", "\n", "\r", "\t", "\x00", "é", "￿", "\U0001f600", "\ufeff"]
A_B = [0x00, 0x0A, 0x22, 0x27, 0x41, 0x5C, 0x7F, 0x80, 0xC3, 0xFF]
A_B_THOROUGH = A_B + [0xC2, 0xE0, 0xED, 0xA0, 0x9F, 0xBF, 0xF0, 0xF4, 0x90, 0x8F]
B_EXTRA = ["c280", "dfbf", "e0a080", "e09fbf", "ed9fbf", "eda080", "efbfbf", "f0908080", "f08fbfbf", "f48fbfbf", "f4908080",
           "f5808080", "c080", "c1bf", "e282", "f09f98", "f09f9880", "4180", "c341", "e24180", "f888808080", "c3a9", "e282ac", "efbbbf", "efbbbf41", "41efbbbf"]
KS_QUICK = (7, 8, 15, 16, 31, 32, 53, 62)
OFFSETS = [0, 330, -330, 840, -840]  # minutes: Z, +05:30, -05:30, +14:00, -14:00
YEARS_QUICK = [1, 2, 9, 10, 99, 100, 999, 1000, 1582, 1969, 1970, 2000, 2038, 9999]
LEAP_QUICK = [4, 1600, 2000, 2024]
DUR_QUICK = [0] + [s * v for v in (1, 59, 60, 3599, 3600, 86399, 86400, 315575999999, 315576000000) for s in (1, -1)]
D_TRUNC = [0.0, -0.0, 0.5, -0.5, 1.5, -1.5, 2.0 ** 31, -2.0 ** 31, 2.0 ** 53, -2.0 ** 53, 2.0 ** 63 - 1024, 2.0 ** 63, -2.0 ** 63,
           -2.0 ** 63 - 2048, 2.0 ** 64 - 2048, 2.0 ** 64, 1e300, -1e300, math.inf, -math.inf, math.nan]


# ------------------------------------------------------------------------------ the bounded spaces
def _uniq(seq):
    seen, out = set(), []
    for v in seq:
        k = repr(v)
        if k not in seen:
            seen.add(k)
            out.append(v)
    return out


def doubles(tier):
    pos = [5e-324, 1e-323, 2.2250738585072009e-308, 2.2250738585072014e-308, 0.5, 1.0, 1.5, 3.0, 2.0 ** 53, 2.0 ** 53 + 2, 1e308, 1.7976931348623157e308]
    if tier == "thorough":
        pos += [2.0 ** k for k in range(-1074, 1024)] + [float(f"1e{k}") for k in range(-323, 309)]
    else:
        pos += [2.0 ** k for k in (-1074, -1073, -1023, -1022, -537, -53, -10, -1, 1, 10, 31, 32, 52, 54, 62, 63, 64, 100, 1023)]
        pos += [float(f"1e{k}") for k in (-323, -308, -307, -100, -23, -22, -16, -15, -7, -5, -4, -3, -1, 1, 5, 15, 16, 17, 21, 22, 23, 100, 307)]
    # 17-significant-digit values and assorted awkward decimals
    pos += [0.1, 0.2, 0.1 + 0.2, 1 / 3, 2 / 3, 1.1, 0.1 + 0.7, 123456789012345678.0, 9007199254740993.0, 8.41e21, 5e-324 * 3, 4.35, 2.675,
            123456.789e3, 6.02214e23, 1.38e-23, math.pi, math.e, 0.0045, 123.456, 987.654, 1e23 + 2 ** 24, 9.999999999999999e22]
    pos += [float(k) / 7 * 10.0 ** (9 * k - 150) for k in range(1, 34)]
    vals = [0.0, -0.0]
    for v in _uniq(pos):
        vals += [v, -v]
    vals += [v for v in D_TRUNC if v == v and not math.isinf(v) and v != 0]
    return _uniq(vals) + [math.inf, -math.inf, math.nan]


def strings(tier):
    n = 4 if tier == "thorough" else 3
    return ["".join(t) for k in range(n + 1) for t in itertools.product(A_S, repeat=k)]


def strings_card(tier):
    n = 4 if tier == "thorough" else 3
    return (len(A_S) ** (n + 1) - 1) // (len(A_S) - 1)


def bytestrings(tier):
    alpha, n = (A_B_THOROUGH, 4) if tier == "thorough" else (A_B, 3)
    base = [bytes(t).hex() for k in range(n + 1) for t in itertools.product(alpha, repeat=k)]
    have = set(base)
    return base + [h for h in B_EXTRA if h not in have]


def bytes_card(tier):
    a, n = (len(A_B_THOROUGH), 4) if tier == "thorough" else (len(A_B), 3)
    inside = sum(1 for h in B_EXTRA if len(h) // 2 <= n and all(b in (A_B_THOROUGH if tier == "thorough" else A_B) for b in bytes.fromhex(h)))
    return (a ** (n + 1) - 1) // (a - 1) + len(B_EXTRA) - inside


def timestamps(tier):
    years = list(range(1, 10000)) if tier == "thorough" else YEARS_QUICK
    leaps = [y for y in range(4, 10000, 4) if timetext.is_leap(y)] if tier == "thorough" else LEAP_QUICK
    out = []
    for off in OFFSETS:
        for y in years:
            out += [[y, 1, 1, 0, 0, 0, off], [y, 12, 31, 23, 59, 59, off]]
        for y in leaps:
            out += [[y, 2, 29, 0, 0, 0, off], [y, 2, 29, 23, 59, 59, off]]
    return out


def timestamps_card(tier):
    if tier == "thorough":
        nleap = 9999 // 4 - 9999 // 100 + 9999 // 400
        return (2 * 9999 + 2 * nleap) * len(OFFSETS)
    return (2 * len(YEARS_QUICK) + 2 * len(LEAP_QUICK)) * len(OFFSETS)


def durations(tier):
    vals = list(DUR_QUICK)
    if tier == "thorough":
        for k in range(1, 39):
            vals += [2 ** k, -(2 ** k), 2 ** k - 1, -(2 ** k - 1)]
        for k in range(1, 12):
            vals += [10 ** k, -(10 ** k)]
    return _uniq(vals)


def texts(tier):
    """(target, text, class) triples; the class goes into the signature."""
    ks = range(1, 64) if tier == "thorough" else KS_QUICK
    bi = intarith.boundary("int", ks)
    bu = intarith.boundary("uint", list(ks) + [63])
    nums = sorted(set(bi) | set(bu) | {intarith.I_MAX + 1, intarith.I_MIN - 1, intarith.U_MAX + 1, 10 ** 30, -(10 ** 30)}, key=lambda v: (abs(v), v))
    out = []
    junk_int = ["", "a", "1a", "1.0", "--1", "0x", "1e", "-", "1-", "1 2", "x10", "1e3", "0b1", "1,0", "1u1"]
    silent_num = [" 1", "1 ", "\t1\n", "1_0", "٣", "１", "+1", "007", "-0", "-007", "0x10", "0X1F", "-0x10", "nan", "NaN", "inf", "-inf",
                  "Infinity", "+inf", ".5", "5.", "1_0.0", " 1.0 ", "1u", "300U"]
    # decimal text whose value does not fit the double range: "never a wrapped or clamped value"
    over_double = ["1e400", "-1e400", "1e309", "-1e309", "1.7976931348623159e308", "-1.7976931348623159e308", "2e308", "1" + "0" * 400, "-1" + "0" * 400, "1E+400"]
    for target in ("int", "uint"):
        out += [(target, s, "junk") for s in junk_int]
        out += [(target, s, "silent") for s in silent_num]
        out += [(target, str(v), "decimal") for v in nums]
    out += [("double", s, "junk") for s in ["", "a", "abc", "1e", "--1", "1a", "1.0.0", "e5", ".", "-", "1e+", "1,5", "1.5f"]]
    out += [("double", s, "silent") for s in silent_num]
    out += [("double", s, "range") for s in over_double]
    out += [(target, s, "junk") for target in ("int", "uint") for s in over_double if "e" in s.lower()]
    out += [("double", s, "decimal") for s in ["0", "0.0", "-0.0", "123", "123.456", "-987.654", "6.02214e23", "1.38e-23", "-84.32e7", "-5.43e-21", "1E5",
                                               "5e-324", "1.7976931348623157e308", "0.30000000000000004", "9223372036854775808", "1e-400"]]
    out += [("timestamp", s, "no-date") for s in ["", "abc", "T", "Z", "-"]]
    out += [("timestamp", s, "field-out-of-range") for s in ["2020-13-01T00:00:00Z", "2020-02-30T00:00:00Z", "2021-02-29T00:00:00Z", "1900-02-29T00:00:00Z",
                                                            "2020-01-01T24:00:00Z", "2020-01-01T00:60:00Z", "2020-01-01T00:00:61Z", "2020-00-10T00:00:00Z",
                                                            "2020-01-00T00:00:00Z"]]
    out += [("timestamp", s, "year-out-of-range") for s in ["0000-01-01T00:00:00Z", "10000-01-01T00:00:00Z"]]
    out += [("timestamp", s, "offset-hour-out-of-range") for s in ["2020-01-01T00:00:00+24:00", "2020-01-01T00:00:00-24:00", "2020-01-01T00:00:00+99:00"]]
    # a lenient parser reading "-00:60" as -01:00 is not "unparsable text" in the property's sense: not ruled on
    out += [("timestamp", s, "silent") for s in ["2020-01-01T00:00:00-00:60", "2020-01-01T00:00:00+05:99"]]
    out += [("timestamp", s, "silent") for s in ["1-01-01T00:00:00Z", "999-12-31T23:59:59Z", "2000-02-29", "2000-02-29T00:00:00", "20000229T000000Z",
                                                 "2000-02-29 00:00:00Z", "2000-02-29t00:00:00z", "2000-02-29T00:00:00+0530", " 2000-02-29T00:00:00Z",
                                                 "2016-12-31T23:59:60Z", "2000-02-29T00:00Z"]]
    # the written fields are in range, the instant is not
    out += [("timestamp", s, "instant-out-of-range") for s in ["0001-01-01T00:00:00+05:30", "9999-12-31T23:59:59-00:01", "0001-01-01T00:00:00+00:01", "0001-01-01T13:59:59+14:00",
                                                               "9999-12-31T23:59:59-14:00", "9999-12-31T10:00:00-14:00", "0001-01-01T00:59:59+01:00", "9999-12-31T23:00:00-01:00"]]
    # ... and the mirror cases, where the offset keeps the instant inside: values
    out += [("timestamp", s, "rfc3339") for s in ["0001-01-01T14:00:00+14:00", "9999-12-31T09:59:59-14:00", "0001-01-01T01:00:00+01:00", "9999-12-31T22:59:59-01:00"]]
    for t in timestamps("quick"):
        if timetext.SEC_MIN <= timetext.instant(*t) <= timetext.SEC_MAX:
            out.append(("timestamp", timetext.fmt(*t), "rfc3339"))
    out += [("duration", s, "junk") for s in ["", "1x", "1", "s", "--1s", "abc", "1ss", "1e3s", "1S", "-", "1.5", "1s1", "1 s", "-s", "1sm"]]
    out += [("duration", s, "range") for s in ["315576000001s", "-315576000001s", "320000000000s", "-320000000000s", "87660001h", "1000000000000000s"]]
    out += [("duration", s, "silent") for s in [" 1s", "1s ", "1_0s", "+1s", "1d", "١s", "1µs", ".5s", "5.s", "0", "1h.5m"]]
    out += [("duration", s, "grammar") for s in ["0s", "1s", "-1s", "59s", "3600s", "1000000s", "315576000000s", "-315576000000s", "1h", "1m", "1h1m1s",
                                                  "-1h1m", "1.5s", "1.5h", "300ms", "1000us", "1000000ns", "87660000h"]]
    return [list(t) for t in out]


def values(family, tier):
    ks = range(1, 64) if tier == "thorough" else KS_QUICK
    if family == "int":
        return intarith.boundary("int", ks)
    if family == "uint":
        return intarith.boundary("uint", list(ks) + [63])
    if family == "double":
        return [repr(v) for v in doubles(tier)]
    return {"string": strings, "bytes": bytestrings, "timestamp": timestamps, "duration": durations, "text": texts}[family](tier)


FAMILIES = ["int", "uint", "double", "string", "bytes", "timestamp", "duration", "text"]

# family -> [(chain id, [expression texts], expectation function name)]
CHAINS = {
    "int": [("int(string(x))", ["int(string(x))", "int(string(x)) == x", "string(int(string(x))) == string(x)"], "roundtrip"),
            ("uint(int)", ["uint(x)", "int(uint(x)) == x"], "int_to_uint")],
    "uint": [("uint(string(x))", ["uint(string(x))", "uint(string(x)) == x", "string(uint(string(x))) == string(x)"], "roundtrip"),
             ("int(uint)", ["int(x)", "uint(int(x)) == x"], "uint_to_int")],
    "double": [("double(string(x))", ["double(string(x))", "double(string(x)) == x", "string(double(string(x))) == string(x)"], "roundtrip_double"),
               ("int(double)", ["int(x)"], "trunc_int"), ("uint(double)", ["uint(x)"], "trunc_uint")],
    "string": [("string(bytes(x))", ["string(bytes(x))", "string(bytes(x)) == x", "bytes(string(bytes(x))) == bytes(x)"], "roundtrip")],
    "bytes": [("string(bytes)", ["string(x)", "bytes(string(x)) == x"], "decode")],
    "timestamp": [("timestamp(string(x))", ["timestamp(string(x))", "timestamp(string(x)) == x", "string(timestamp(string(x))) == string(x)"], "roundtrip_ts")],
    "duration": [("duration(string(x))", ["duration(string(x))", "duration(string(x)) == x", "string(duration(string(x))) == string(x)"], "roundtrip")],
    "text": [("T(x)", ["{T}(x)"], "text")],
}
CELTYPE = {"int": "int", "uint": "uint", "double": "double", "string": "string", "bytes": "bytes", "timestamp": "timestamp", "duration": "duration"}


# --------------------------------------------------------------------------- binding, expectation
def bind(family, x):
    """(celpy value bound to x, canonical plain value of x) -- building x needs the library's classes."""
    import datetime

    import celpy.celtypes as ct

    if family == "int":
        return ct.IntType(x), x
    if family == "uint":
        return ct.UintType(x), x
    if family == "double":
        f = float(x)
        return ct.DoubleType(f), ("nan" if f != f else outcome._fbits(f))
    if family == "string":
        return ct.StringType(x), x
    if family == "bytes":
        return ct.BytesType(bytes.fromhex(x)), x
    if family == "timestamp":
        y, mo, d, H, M, S, off = x
        tz = datetime.timezone.utc if off == 0 else datetime.timezone(datetime.timedelta(minutes=off))
        return ct.TimestampType(datetime.datetime(y, mo, d, H, M, S, tzinfo=tz)), timetext.instant(*x) * 1000000
    if family == "duration":
        return ct.DurationType(datetime.timedelta(seconds=x)), x * 1000000
    if family == "text":
        return ct.StringType(x[1]), x[1]
    raise runner.HarnessError(f"unknown family {family}")


def expectations(family, how, x):
    """Expected outcome per expression of the chain: ('V', celtype, plain) | ('VCLASS', celtype) | TRUE | ERR | UNSPEC."""
    if how == "roundtrip":
        _, p = bind(family, x)
        return [("V", CELTYPE[family], p), TRUE, TRUE]
    if how == "roundtrip_double":
        f = float(x)
        if f != f or math.isinf(f):
            return [UNSPEC, UNSPEC, UNSPEC]  # the statement quantifies over finite doubles
        return [("V==", "double", f), TRUE, TRUE]  # == semantics: either zero for a zero
    if how == "roundtrip_ts":
        sec = timetext.instant(*x)
        if not timetext.SEC_MIN <= sec <= timetext.SEC_MAX:
            return [UNSPEC, UNSPEC, UNSPEC]  # the UTC instant is outside years 0001..9999
        return [("V", "timestamp", sec * 1000000), TRUE, TRUE]
    if how == "int_to_uint":
        r = convref.int_to_uint(x)
        return [ERR, UNSPEC] if r == ERR else [("V", "uint", r), TRUE]
    if how == "uint_to_int":
        r = convref.uint_to_int(x)
        return [ERR, UNSPEC] if r == ERR else [("V", "int", r), TRUE]
    if how in ("trunc_int", "trunc_uint"):
        kind = how[6:]
        r = convref.trunc(kind, float(x))
        return [r if r in (ERR, UNSPEC) else ("V", kind, r)]
    if how == "decode":
        r = convref.utf8_decode(bytes.fromhex(x))
        return [ERR, UNSPEC] if r == ERR else [("VCLASS", "string"), TRUE]
    if how == "text":
        target, s, _ = x
        if target in ("int", "uint"):
            r = convref.int_text(target, s)
        elif target == "double":
            r = convref.double_text(s)
        elif target == "timestamp":
            r = timetext.parse_timestamp(s)
        else:
            r = timetext.parse_duration(s)
        return [r if r in (ERR, UNSPEC) else ("VCLASS", target)]
    raise runner.HarnessError(f"unknown expectation {how}")


def usual_reading(x):
    """What a text of the 'text' family denotes under the usual reading (used for a counter only)."""
    target, s, _ = x
    if target in ("int", "uint"):
        return convref.int_text(target, s)
    if target == "double":
        r = convref.double_text(s)
        return r if r in (ERR, UNSPEC) else outcome._fbits(r)
    if target == "timestamp":
        return timetext.parse_timestamp(s)
    r = timetext.parse_duration(s)
    return r if r in (ERR, UNSPEC) else (int(r * 1000000) if (r * 1000000).denominator == 1 else UNSPEC)


def xclass(family, x):
    if family in ("int", "uint"):
        lo, hi = (intarith.I_MIN, intarith.I_MAX) if family == "int" else (0, intarith.U_MAX)
        if x == lo and family == "int":
            return "MIN"
        if x == hi:
            return "MAX"
        if family == "uint" and x > intarith.I_MAX:
            return ">int64"
        return "neg" if x < 0 else ("zero" if x == 0 else "pos")
    if family == "double":
        f = float(x)
        if f != f:
            return "nan"
        s = "-" if math.copysign(1, f) < 0 else "+"
        a = abs(f)
        m = ("inf" if math.isinf(a) else "0" if a == 0 else "subnormal" if a < 2.2250738585072014e-308 else "<1" if a < 1 else
             "<2^63" if a < 2.0 ** 63 else "<2^64" if a < 2.0 ** 64 else ">=2^64")
        return s + m
    if family == "string":
        if x == "":
            return "empty"
        if "\x00" in x:
            return "nul"
        m = max(ord(c) for c in x)
        return "ascii" if m < 0x80 else "2-byte" if m < 0x800 else "3-byte" if m < 0x10000 else "4-byte"
    if family == "bytes":
        return bytes_class(bytes.fromhex(x))
    if family == "timestamp":
        return "year<1000" if x[0] < 1000 else "year>=1000"
    if family == "duration":
        a = abs(x)
        return ("-" if x < 0 else "+") + ("0" if a == 0 else "<60s" if a < 60 else "<1h" if a < 3600 else "<1d" if a < 86400 else "max" if a == timetext.DUR_MAX else "large")
    if family == "text":
        return f"{x[0]}:{x[2]}"
    return "?"


def bytes_class(b):
    """Coarse class of a byte string: which UTF-8 rule its first fault breaks."""
    i = 0
    high = False
    while i < len(b):
        c = b[i]
        if c < 0x80:
            i += 1
            continue
        high = True
        if c <= 0xBF or c in (0xC0, 0xC1) or c >= 0xF5:
            return "invalid:bad-lead-byte"
        need = 1 if c < 0xE0 else 2 if c < 0xF0 else 3
        tail = b[i + 1:i + 1 + need]
        if any(not 0x80 <= cc <= 0xBF for cc in tail) or len(tail) < need:
            return "invalid:bad-or-missing-continuation"
        if convref.utf8_decode(b[i:i + 1 + need]) == ERR:
            return "invalid:overlong-surrogate-or-beyond-10FFFF"
        i += 1 + need
    return "valid-utf8" if high else "ascii"


def verdict(exp, o):
    """None when o satisfies exp, else the violation kind."""
    if exp == UNSPEC:
        return None
    if exp == ERR:
        if o[0] == "E":
            return None
        return "value-instead-of-error" if o[0] == "V" else "wrong-exception-class" if o[0] == "X" else "parse-error"
    if o[0] == "E":
        return "error-instead-of-value"
    if o[0] == "X":
        return "exception-instead-of-value"
    if o[0] != "V":
        return "parse-error"
    if exp == TRUE:
        if o[1] != "bool":
            return "wrong-type"
        return None if o[2] is True else "roundtrip-false"
    if o[1] != exp[1]:
        return "wrong-type"
    if exp[0] == "VCLASS":
        return None
    if exp[0] == "V==":  # numeric equality of doubles
        got = outcome.unfloat(o[2])
        return None if got == exp[2] else "wrong-value"
    return None if o[2] == exp[2] else "wrong-value"


def show(exp):
    if exp == UNSPEC:
        return "UNSPEC"
    if exp == ERR:
        return "evaluation error"
    if exp == TRUE:
        return "true"
    if exp[0] == "VCLASS":
        return f"a {exp[1]} value"
    return f"{exp[1]} {exp[2]!r}"


def exprs_of(family, chain_exprs, x):
    if family == "text":
        return [e.replace("{T}", x[0]) for e in chain_exprs]
    return chain_exprs


def evaluate(prog, bindings):
    """celrun.Prog.eval, except that a returned value which mc.outcome cannot canonicalise (a timestamp
    whose utcoffset() raises) is still an outcome -- a value -- and never a worker crash."""
    if prog.failed is not None:
        return prog.failed
    try:
        v = prog.runner.evaluate(bindings)
    except RecursionError as ex:
        return ("X", "evaluate", type(ex).__name__)
    except Exception as ex:  # noqa
        return outcome.of_exception(ex, "evaluate")
    if isinstance(v, celrun.celpy.CELEvalError):
        return outcome.E
    try:
        return outcome.V(v)
    except Exception as ex:  # noqa
        return ("V", outcome.celtype_of(v), f"<uncanonical {type(v).__name__}: {type(ex).__name__}: {ex}>"[:120], type(v).__name__)


def run_case(part, rk, family, chain, x, progs):
    """Evaluate one (value, chain) case under runner rk, judge it, record it.  Returns 1 if it violates."""
    cid, texts_, how = chain
    exps = expectations(family, how, x)
    val, plainx = bind(family, x)
    got_plain = outcome.plain(val)
    if got_plain != plainx:
        raise runner.HarnessError(f"binding of {family} {x!r} is {got_plain!r}, the reference says {plainx!r}")
    nontrivial = any(e != UNSPEC for e in exps)
    outs = []
    for text in exprs_of(family, texts_, x):
        if text not in progs:
            progs[text] = celrun.Prog(rk, text)
        outs.append(evaluate(progs[text], {"x": val}))
    part.case(nontrivial=nontrivial, evaluations=len(outs))
    first = exps[0]
    part.outcome(f"{family}:{cid if family != 'text' else x[0] + '(text)'}:" + ("unspec" if first == UNSPEC else "error" if first == ERR else "value"))
    if family == "text" and outs[0][0] == "V" and exps[0] not in (ERR, UNSPEC):
        u = usual_reading(x)
        if u not in (ERR, UNSPEC) and outs[0][2] != u:
            part.extra["direct_text_value_differs_from_usual_reading"] += 1
    for i, (exp, o) in enumerate(zip(exps, outs)):
        k = verdict(exp, o)
        if k is None:
            continue
        cname = cid if family != "text" else f"{x[0]}(text)"
        stage = ("value", "equal", "back")[i] if len(exps) == 3 else ("value", "back")[i] if len(exps) == 2 else "value"
        obs = outcome.short(o)
        # an escaping exception is one root cause per (conversion, exception class), whatever the operand
        sig = f"{rk}:{cname}:{stage}:{k}:" + (o[2] if o[0] == "X" else xclass(family, x))
        allobs = "; ".join(f"{t} -> {outcome.short(oo)} (expected {show(e)})" for t, oo, e in zip(exprs_of(family, texts_, x), outs, exps))
        part.violation(k, sig, {"runner": rk, "family": family, "chain": cid, "x": x},
                       f"runner {rk}, x = {family} {x!r}: {exprs_of(family, texts_, x)[i]} gave {obs}, expected {show(exp)}.  All: {allobs}")
        return 1
    return 0


def shard(task):
    rk, family, lo, hi, tier = task
    part = runner.Part()
    vals = values(family, tier)
    progs = {}
    for idx in range(lo, hi):
        x = vals[idx]
        for chain in CHAINS[family]:
            run_case(part, rk, family, chain, x, progs)
    part.space(f"{family}:{rk}", 0, hi - lo)
    if lo == 0:
        part.sample({"runner": rk, "family": family, "first": vals[0], "last": vals[-1], "values": len(vals),
                     "chains": [c[0] for c in CHAINS[family]]}, limit=1)
    return part


# ------------------------------------------------ soundness rule 2: the repository's own expectations
_WHEN = re.compile(r"""^\s*When CEL expression (["'])(.*)\1 is evaluated\s*$""")
_CALL = re.compile(r"^(int|uint|double|string|bytes|timestamp|duration)\((.*)\)$")


def _unescape_feature(s, quote):
    return s.replace("\\\\", "\\") if quote == '"' else s


def _cel_bytes(body):
    out, i = bytearray(), 0
    while i < len(body):
        if body[i] == "\\" and body[i + 1] in "01234567":
            out.append(int(body[i + 1:i + 4], 8))
            i += 4
        elif body[i] == "\\" and body[i + 1] == "x":
            out.append(int(body[i + 2:i + 4], 16))
            i += 4
        elif body[i] == "\\":
            return None
        else:
            out += body[i].encode("utf-8")
            i += 1
    return bytes(out)


def model_says(fn, arg):
    """Reference expectation for the simple call fn(arg-literal), or None when outside the fragment."""
    m = re.match(r"^'([^'\\]*)'$", arg)
    if m:
        s = m.group(1)
        if fn in ("int", "uint"):
            return convref.int_text(fn, s)
        if fn == "double":
            return convref.double_text(s)
        if fn == "bytes":
            return convref.utf8_encode(s)
        if fn == "timestamp":
            r = timetext.parse_timestamp(s)
            return r if r in (ERR, UNSPEC) else None  # values of timestamps are not spelled in a Then line
        if fn == "duration":
            r = timetext.parse_duration(s)
            return r if r in (ERR, UNSPEC) else None
        return None
    m = re.match(r"^b'(.*)'$", arg)
    if m and fn == "string":
        b = _cel_bytes(m.group(1))
        return None if b is None else convref.utf8_decode(b)
    if re.match(r"^-?[0-9]+u$", arg) and fn == "int":
        return convref.uint_to_int(int(arg[:-1]))
    if re.match(r"^-?[0-9]+$", arg) and fn == "uint":
        return convref.int_to_uint(int(arg))
    if re.match(r"^-?[0-9]+(\.[0-9]+)?([eE][+-]?[0-9]+)?$", arg) and re.search(r"[.eE]", arg) and fn in ("int", "uint"):
        d = convref.double_text(arg)
        return None if d in (ERR, UNSPEC) else convref.trunc(fn, d)
    return None


def validate_models():
    """Compare the reference models with every non-@wip scenario of the conformance features that is
    a single conversion call on a literal.  A disagreement is a harness error."""
    checked = 0
    for name in ("conversions.feature", "timestamps.feature"):
        path = os.path.join(repo.REPO, "features", name)
        if not os.path.exists(path):
            raise runner.HarnessError(f"{path} missing")
        next_wip, scen_wip, pending = False, False, None
        for line in open(path, encoding="utf-8"):
            s = line.strip()
            if s.startswith("@"):
                next_wip = "@wip" in s
                continue
            if s.startswith("Scenario"):
                scen_wip, next_wip, pending = next_wip, False, None
                continue
            m = _WHEN.match(line)
            if m:
                pending = None if scen_wip else _unescape_feature(m.group(2), m.group(1))
                continue
            if not s.startswith("Then") or pending is None:
                continue
            expr, pending = pending, None
            call = _CALL.match(expr)
            if not call:
                continue
            says = model_says(call.group(1), call.group(2))
            if says is None or says == UNSPEC:
                continue
            if s.startswith("Then eval_error"):
                pinned = ERR
            else:
                mv = re.match(r"^Then value is celpy\.celtypes\.(\w+)\(source=(.*)\)$", s)
                if not mv:
                    continue
                pinned = ast.literal_eval(mv.group(2))
            same = (says == pinned) and type(says) is type(pinned) and (not isinstance(pinned, float) or repr(says) == repr(pinned))
            if not same:
                raise runner.HarnessError(f"reference model disagrees with {name}: {expr} is pinned to {pinned!r}, the model says {says!r}")
            checked += 1
    if checked < 30:
        raise runner.HarnessError(f"only {checked} pinned conversion scenarios were recognised; the validation corpus is too small")
    return checked


# ------------------------------------------------------------------------------------------- driver
def run(ctx):
    intarith.selftest()
    convref.selftest()
    timetext.selftest()
    pinned = validate_models()
    tier = ctx.tier
    card = {"string": strings_card(tier), "bytes": bytes_card(tier), "timestamp": timestamps_card(tier)}
    sizes = {}
    for fam in FAMILIES:
        vals = values(fam, tier)
        sizes[fam] = len(vals)
        if len(_uniq(vals)) != len(vals):
            raise runner.HarnessError(f"{fam}: the enumeration repeats a value")
        if fam in card and card[fam] != len(vals):
            raise runner.HarnessError(f"{fam}: generated {len(vals)} values, closed form says {card[fam]}")
    ctx.rule = (
        "a case is (runner, value x, conversion chain): x is bound to a variable and the chain's expressions are evaluated -- conv(string(x)) inspected "
        "as a value (type and value must be x), conv(string(x)) == x, the composition string(conv(string(x))) == string(x), and the range-checked "
        "conversions int(x)/uint(x) on doubles, int(x) on uints, uint(x) on ints, string(x) on bytes, T(text) on texts.  Values: int64 alphabet "
        f"({sizes['int']}), uint64 alphabet ({sizes['uint']}), doubles ({sizes['double']} incl. NaN, +-inf for the range check only), every string over the "
        f"16-character alphabet A_s up to length {4 if ctx.thorough else 3} ({sizes['string']}), every byte string over "
        f"{'the 20-byte alphabet' if ctx.thorough else 'A_b'} up to length {4 if ctx.thorough else 3} plus boundary sequences ({sizes['bytes']}), "
        f"first/last second of {'every year 1..9999' if ctx.thorough else 'the listed years'} and both ends of 29 Feb of "
        f"{'every leap year' if ctx.thorough else 'four leap years'} under offsets Z, +-05:30, +-14:00 ({sizes['timestamp']}), durations ({sizes['duration']}), "
        f"texts ({sizes['text']}).  A case is non-trivial when the reference rules on at least one expression of the chain (not UNSPEC: uint(-0.5), "
        "int(-2^63 as double), non-finite round trips, instants outside 0001..9999, spaces/underscores/non-ASCII digits/'+'/leading zeros/hex/nan/inf spellings "
        "are counted but not compared); cases are distinct by construction")
    ctx.assumptions = [
        "timestamps are built by the library's own constructors from RFC 3339 text or integer fields and carry UTC or a fixed whole-minute offset; host-supplied datetimes carrying other tzinfo objects (ZoneInfo zones at DST folds, offsets with seconds) are not explored",
        "values outside the alphabets are not explored; timestamps and durations are whole seconds",
        "string(x) is judged only through the round trip; for direct texts only value-vs-error (and the result type) is judged, the value is merely "
        "counted in direct_text_value_differs_from_usual_reading",
        "bytes(string) is the UTF-8 encoding (pinned by conversions.feature bytes/string_unicode), so bytes(string(b)) == b is demanded for valid UTF-8 b",
        "int(NaN) / int(+-inf) must be evaluation errors (no integer is their truncation)",
        "int(-9223372036854775808.0) is not compared: it fits mathematically, the cel-spec conformance scenario (tagged @wip here) demands a range error",
        "an exception other than CELEvalError where an evaluation error is demanded is reported as wrong-exception-class",
        f"reference models agree with {pinned} pinned scenarios of features/conversions.feature and features/timestamps.feature",
    ]
    ctx.coverage_extra["pinned_scenarios_validated"] = pinned
    big = {"string", "bytes", "timestamp"}
    for rk in ("I", "C"):  # environments of the two runner classes never share a worker process
        tasks = []
        for fam in FAMILIES:
            k = 16 if (fam in big and sizes[fam] > 2000) else (4 if sizes[fam] > 300 else 1)
            tasks += [(rk, fam, lo, hi, tier) for lo, hi in runner.shards(sizes[fam], k)]
        ctx.run_shards(shard, tasks)
    expected_cases = 0
    for fam in FAMILIES:
        for rk in ("I", "C"):
            ctx.part.spaces[f"{fam}:{rk}"]["cardinality"] = sizes[fam]
            ctx.part.spaces[f"{fam}:{rk}"]["bound"] = tier
        expected_cases += 2 * sizes[fam] * len(CHAINS[fam])
    ctx.run_shards(nested_shard, ["I", "C"])
    expected_cases += 2 * len(FAILING) * len(WRAPPERS)
    from .. import pairhist
    expected_cases += pairhist.run(ctx, __name__)
    ctx.rule += (f"; {len(FAILING)} failing conversions as the direct argument of {len(WRAPPERS)} strict positions (every conversion, string(), list / map literals): the error must come out; "
                 f"pair histories: each of {len(ph_terms())} conversion terms (failing and passing, both runners) alone and after every term including itself in one process, started from the pristine process state")
    ncases = ctx.part.nontrivial + ctx.part.unspec
    ctx.coverage_extra["cases"] = ncases
    if ncases != expected_cases:
        raise runner.HarnessError(f"enumerated {ncases} cases, cardinality is {expected_cases}")


# ---- failing conversions as arguments, and pair histories -----------------------------------------------------
FAILING = ['duration("315576000001s")', 'duration("-315576000001s")', 'duration("87660001h")', 'duration("1x")', 'int("abc")', 'int("9223372036854775808")', 'int("1.0")', 'uint("-1")',
           'uint("18446744073709551616")', 'double("abc")', 'double("1e400")', 'timestamp("2020-13-01T00:00:00Z")', 'timestamp("10000-01-01T00:00:00Z")', 'string(b"\\xff")', 'int(1e300)', 'uint(-1)',
           'int(18446744073709551615u)', 'uint(1e300)', 'int(0.0 / 0.0)']
PASSING = ['duration("315576000000s")', 'duration("-315576000000s")', 'duration("87660000h")', 'duration("1h")', 'int("12")', 'int("9223372036854775807")', 'uint("12")', 'uint("18446744073709551615")',
           'double("1.5")', 'double("1e308")', 'timestamp("2020-12-01T00:00:00Z")', 'timestamp("9999-12-31T23:59:59Z")', 'string(b"a")', 'int(1e18)', 'uint(1)', 'int(1u)']
WRAPPERS = ["string({})", "int({})", "uint({})", "double({})", "bytes({})", "bool({})", "timestamp({})", "duration({})", "dyn({})", "type({})", "string({}) == \"\"", "size(string({}))",
            "string(string({}))", "[{}]", "{{\"k\": {}}}", "string([{}][0])"]


def nested_shard(task):
    """A failing conversion as the direct argument of every conversion (and a few other strict positions): the error must
    come out, never a value made from it."""
    rk = task
    part = runner.Part()
    n = 0
    for f in FAILING:
        for wr in WRAPPERS:
            text = wr.format(f)
            o = celrun.Prog(rk, text).eval({})
            part.case()
            part.outcome(outcome.label(o))
            n += 1
            if o[0] != "E":
                kind = "value-instead-of-error" if o[0] == "V" else "wrong-exception-class"
                part.violation(kind, f"nested-failing:{rk}:{wr.format('F')}:{f.split('(')[0]}:{outcome.label(o)}", {"space": "nested", "runner": rk, "text": text},
                               f"[{rk}] {text}: the argument {f} is an evaluation error, the whole expression gave {outcome.short(o)}")
    part.space(f"failing conversion as argument:{rk}", n, n)
    return part


def ph_terms():
    return [[rk, t] for rk in ("I", "C") for t in FAILING[:14] + PASSING[:12]]


def ph_step(term):
    from .. import pairhist
    return pairhist.cel_step(term[0], term[1])


def ph_expected(term):
    return ("E",) if term[1] in FAILING else None


def ph_label(term):
    return f"[{term[0]}] {term[1]}"


def ph_outcome_label(o):
    return outcome.label(o) if o and o[0] in "VEPX" else str(o)


def replay(w):
    wit = w["witness"]
    if wit.get("space") == "pairhist":
        from .. import pairhist
        return pairhist.replay(w)
    if wit.get("space") == "nested":
        o = celrun.Prog(wit["runner"], wit["text"]).eval({})
        print(wit["text"], "->", outcome.short(o), "(expected an evaluation error)")
        return 0 if o[0] == "E" else 1
    rk, family, cid, x = wit["runner"], wit["family"], wit["chain"], wit["x"]
    chain = [c for c in CHAINS[family] if c[0] == cid][0]
    print("replaying", wit)
    part = runner.Part()
    bad = run_case(part, rk, family, chain, x, {})
    exps = expectations(family, chain[2], x)
    val, _ = bind(family, x)
    for text, exp in zip(exprs_of(family, chain[1], x), exps):
        print(f"  {text}: expected {show(exp)}, runner {rk} gives {outcome.short(evaluate(celrun.Prog(rk, text), {'x': val}))}")
    if family != "text":
        print(f"  string(x) -> {outcome.short(evaluate(celrun.Prog(rk, 'string(x)'), {'x': val}))}   (not judged; shown to locate the fault)")
    for v in part.violations:
        print("  " + v["kind"], v["sig"])
    print("REPRODUCED" if bad else "not reproduced")
    return 1 if bad else 0
