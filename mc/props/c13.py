"""C13 Results carry their CEL type (DESIGN.md section 3, C13).

Type-directed slice of the generator: every operator, function, macro and conversion at the root
over every well-typed operand tuple of the leaf alphabet, then each of those nested one level
(left / right operand of every operator accepting its kind, list element, map value, ?: branch,
macro body).  Oracle: a small reference type checker gives the CEL type; the returned object must
be an instance of the library's class for it (recursively for container elements), and
`type(e) == T` must be true exactly for the matching name among the twelve type names.
"""
from .. import celrun, gen, outcome, runner

LEVEL = "exploration"

CLASS_OF = {"int": "IntType", "uint": "UintType", "double": "DoubleType", "bool": "BoolType", "string": "StringType", "bytes": "BytesType",
            "list": "ListType", "map": "MapType", "null_type": "NoneType", "timestamp": "TimestampType", "duration": "DurationType"}
TYPE_NAMES = ["int", "uint", "double", "bool", "string", "bytes", "list", "map", "null_type", "timestamp", "duration", "type"]
ALLOWED = set(CLASS_OF.values()) | {"MessageType"}


def typeof(t):
    """gen.typeof extended with the macros, `in`, has and string predicates of this slice."""
    k = t[0]
    if k == "macro":
        recv = typeof(t[1])
        if recv != "list":
            return None
        name, body = t[2], t[4]
        if t[1] != gen.lit("list", 0) and t[1] != gen.var("list"):
            return None
        # elements are ints (literal [1, 2] / bound [1, 2, 3])
        body_type = {"v": "int", "v > 1": "bool", "true": "bool", "1": "int", "1 / v > 0": "bool"}.get(body)
        if body_type is None:
            return None
        if name in ("all", "exists", "exists_one"):
            return "bool" if body_type == "bool" else None
        if name == "map":
            return "list"
        if name == "filter":
            return "list" if body_type == "bool" else None
    if k == "bin" and t[1] == "in":
        a, b = typeof(t[2]), typeof(t[3])
        if a == "int" and t[3] in (gen.lit("list", 0), gen.var("list"), gen.lit("list", 1)):
            return "bool"
        if a == "string" and t[3] in (gen.lit("map", 0), gen.var("map"), gen.lit("map", 1)):
            return "bool"
        return None
    if k in ("bin", "un", "cond"):
        # recurse with this typeof so nested macros are typed
        sub = [typeof(x) for x in t[1:] if isinstance(x, tuple)]
        if any(s is None for s in sub):
            return None
        rebuilt = tuple(("raw", typeof(x), gen.text(x)) if isinstance(x, tuple) else x for x in t)
        return gen.typeof(rebuilt)
    if k == "idx":
        a, b = typeof(t[1]), typeof(t[2])
        if t[1] in (gen.lit("list", 0),) and t[2] in (gen.lit("int", 0), ("lit", "int", "0")):
            return "int"
        if t[1] in (gen.lit("map", 0), gen.var("map")) and t[2] == gen.lit("string", 0):
            return "int"
        return None
    if k == "sel":
        if t[1] in (gen.lit("map", 0), gen.var("map")) and t[2] == "a":
            return "int"
        return None
    if k in ("call", "meth"):
        args = t[2:] if k == "call" else (t[1],) + tuple(t[3:])
        rebuilt_args = []
        for x in args:
            tx = typeof(x)
            if tx is None:
                return None
            rebuilt_args.append(("raw", tx, gen.text(x)))
        if k == "call":
            return gen.typeof(("call", t[1]) + tuple(rebuilt_args))
        return gen.typeof(("meth", rebuilt_args[0], t[2]) + tuple(rebuilt_args[1:]))
    return gen.typeof(t)


def roots():
    """well-typed level-1 terms (literal and bound-variable leaves only: unbound names are not well-typed)"""
    L = [l for l in gen.leaves() if l != gen.UNBOUND and l[1] is not None]
    out = []
    for t in gen.level1(leafset=L, reduced=[gen.lit("bool", 0), gen.lit("bool", 1), gen.lit("int", 0), gen.var("int"), gen.var("bool"), gen.lit("string", 0), gen.var("string"), gen.lit("double", 0)]):
        ty = typeof(t)
        if ty is not None:
            out.append((t, ty))
    return out


def nestings(t, ty):
    """t placed one level down in every context that accepts its kind."""
    out = []
    same = gen.var(ty) if ty in gen.VARS else None
    if same is not None:
        for op in gen.BINOPS:
            for cand in (("bin", op, t, same), ("bin", op, same, t)):
                if typeof(cand) is not None:
                    out.append(cand)
    if ty == "duration":
        out.append(("bin", "+", gen.var("timestamp"), t))
        out.append(("bin", "-", gen.var("timestamp"), t))
    if ty == "bool":
        out.append(("un", "!", t))
    if ty in ("int", "double"):
        out.append(("un", "-", t))
    out.append(("raw", "list", f"[{gen.text(t)}]"))
    out.append(("raw", "map", f'{{"k": {gen.text(t)}}}'))
    out.append(("cond", gen.var("bool"), t, t))
    out.append(("raw", "list", f"[1, 2].map(v, {gen.text(t)})"))
    out.append(("call", "dyn", t))
    if ty in ("string", "bytes", "list", "map"):
        out.append(("call", "size", t))
    if ty in ("int", "uint", "double", "string", "bool", "timestamp", "duration"):
        out.append(("call", "string", t))
    return [(n, typeof(n)) for n in out if typeof(n) is not None]


def extra_programs():
    """Hand-typed programs over receivers and texts the generated signature does not reach: macros on map
    receivers (keeping all / some / no keys, empty map, map in a variable, nested) and string functions
    on non-ASCII texts and patterns."""
    out = []
    maps = ['{"a": 1, "b": 2}', "{}", "vm", '{1: "x", 2: "y"}', '{"a": {"b": 1}}']
    preds = ["true", "false", 'k == k', 'k != "a"']
    for m in maps:
        for pr in preds:
            if m == '{1: "x", 2: "y"}' and '"a"' in pr:
                continue
            out.append((f"{m}.filter(k, {pr})", "list", "extra:map.filter{}"))
            for mac in ("all", "exists", "exists_one"):
                out.append((f"{m}.{mac}(k, {pr})", "bool", f"extra:map.{mac}{{}}"))
        out.append((f"{m}.map(k, k)", "list", "extra:map.map{}"))
        out.append((f"{m}.map(k, [k])", "list", "extra:map.map{}"))
        out.append((f'[1].map(i, {m}.filter(k, true))', "list", "extra:map.filter{}"))
        out.append((f'{m}.filter(k, true) + {m}.filter(k, false)', "list", "extra:map.filter{}"))
        out.append((f'size({m}.filter(k, true))', "int", "extra:map.filter{}"))
    texts = ['"héllo"', '"cafe"', '"ñandú"', '"日本語"', '"😀"', "vs"]
    pats = ['"l+"', '"caf[eé]"', '"ñ"', '"."', '"^日"', '"😀$"', '"é|e"']
    for t in texts:
        for pt in pats:
            out.append((f"{t}.matches({pt})", "bool", "extra:.matches()"))
            out.append((f"matches({t}, {pt})", "bool", "extra:matches()"))
        for fn in ("contains", "startsWith", "endsWith"):
            for arg in ('"é"', '"l"', '"日"'):
                out.append((f"{t}.{fn}({arg})", "bool", f"extra:.{fn}()"))
        out.append((f"size({t})", "int", "extra:size()"))
        out.append((f'{t} + "é"', "string", "extra:+"))
        out.append((f'{t} < "é"', "bool", "extra:<"))
        out.append((f'{t} in ["é", "héllo"]', "bool", "extra:in"))
        out.append((f'{{"é": 1, "héllo": 2}}.exists(k, k == {t})', "bool", "extra:map.exists{}"))
        out.append((f'[{t}].filter(s, s.matches("é"))', "list", "extra:.filter{}"))
        out.append((f'[{t}].all(s, s.matches("é") || true)', "bool", "extra:.all{}"))
        out.append((f'{t}.matches("é") && true', "bool", "extra:&&"))
        out.append((f'true && {t}.matches("é")', "bool", "extra:&&"))
        out.append((f'{t}.matches("é") ? 1 : 2', "int", "extra:?:"))
        out.append((f'bytes({t})', "bytes", "extra:bytes()"))
        out.append((f'string(bytes({t}))', "string", "extra:string()"))
    # arithmetic whose operands or result sit at the end of a range: fall-back paths taken only there must still
    # hand back the CEL class (the instant stays in range, the wall-clock fields of the written offset do not; the
    # last representable integers, durations and doubles)
    hi, lo = "timestamp('9999-12-31T23:30:00+01:00')", "timestamp('0001-01-01T00:30:00-01:00')"
    edge = [(f"{hi} + duration('1h')", "timestamp"), (f"duration('1h') + {hi}", "timestamp"), (f"{lo} - duration('1h')", "timestamp"), (f"{hi} - duration('-1h')", "timestamp"),
            (f"{lo} + duration('-1h')", "timestamp"), (f"duration('-1h') + {lo}", "timestamp"), (f"{hi} - {lo}", "duration"), (f"{lo} - {hi}", "duration"),
            (f"{hi} + duration('0s')", "timestamp"), (f"{lo} - duration('0s')", "timestamp"), ("timestamp('9999-12-31T23:59:59Z') - duration('1s')", "timestamp"),
            ("timestamp('0001-01-01T00:00:00Z') + duration('1s')", "timestamp"), ("timestamp('9999-12-31T23:59:59.999999+14:00') + duration('13h')", "timestamp"),
            ("timestamp('0001-01-01T00:00:00-14:00') - duration('13h')", "timestamp"),
            ("duration('315576000000s') - duration('1s')", "duration"), ("duration('-315576000000s') + duration('1s')", "duration"), ("duration('315575999999s') + duration('1s')", "duration"),
            ("9223372036854775806 + 1", "int"), ("-9223372036854775807 - 1", "int"), ("9223372036854775807 / 1", "int"), ("9223372036854775807 % 9223372036854775806", "int"), ("-9223372036854775807 * 1", "int"),
            ("18446744073709551614u + 1u", "uint"), ("18446744073709551615u - 1u", "uint"), ("18446744073709551615u / 1u", "uint"), ("18446744073709551615u % 18446744073709551614u", "uint"),
            ("1e308 + 1e308", "double"), ("-1e308 - 1e308", "double"), ("1e308 * 10.0", "double"), ("5e-324 / 2.0", "double"), ("1.0 / 0.0", "double"), ("0.0 / 0.0", "double"), ("-(1.0 / 0.0)", "double")]
    for tx, ty in edge:
        out.append((tx, ty, "extra:range-end arithmetic"))
        out.append((f"[{tx}]", "list", "extra:range-end arithmetic"))
        if ty in ("timestamp",):
            out.append((f"({tx}).getFullYear()", "int", "extra:range-end arithmetic"))
            out.append((f"string({tx})", "string", "extra:range-end arithmetic"))
        out.append((f"true ? {tx} : {tx}", ty, "extra:range-end arithmetic"))
    return out


def programs(tier):
    rs = roots()
    out = [(gen.text(t), ty, "root:" + root_name(t)) for t, ty in rs]
    seen = {o[0] for o in out}
    for tx, ty, where in extra_programs():
        if tx not in seen:
            seen.add(tx)
            out.append((tx, ty, where))
    # nest one representative per (root operator, result type) in quick; every root in thorough
    reps = {}
    for t, ty in rs:
        key = (root_name(t), ty) if tier != "thorough" else (gen.text(t),)
        reps.setdefault(key, (t, ty))
    for t, ty in reps.values():
        for n, nty in nestings(t, ty):
            tx = gen.text(n)
            if tx not in seen:
                seen.add(tx)
                out.append((tx, nty, "nested:" + root_name(n) + "<" + root_name(t)))
    return out


def root_name(t):
    k = t[0]
    if k in ("bin", "un"):
        return t[1]
    if k == "call":
        return t[1] + "()"
    if k == "meth":
        return "." + t[2] + "()"
    if k == "macro":
        return "." + t[2] + "{}"
    if k == "raw":
        return "lit[" if t[2].startswith("[") and ".map" not in t[2] else ("lit{" if t[2].startswith("{") else "map-body")
    return k


def bad_classes(pc, celtype_expected=None):
    """class names in a pyclass tree that are not library classes"""
    return [c for c in outcome.all_classes(pc) if c not in ALLOWED and not c.startswith("type:")]


def sig_for(rk, default, text, classes):
    """One root cause, one signature: a native Python bool produced by has() (compiled runner)."""
    if "has(" in text and "bool" in classes:
        return f"{rk}:native-bool-from-has"
    return default


def shard(task):
    rk, lo, hi, tier = task
    acts = gen.activations()
    part = runner.Part()
    progs = programs(tier)[lo:hi]
    for text, ty, where in progs:
        b = dict(acts["right"])
        o = celrun.evaluate(rk, text, b)
        if o[0] != "V":
            # a well-typed program may still fail at run time (overflow, parse of a text...): no value to judge
            part.case(nontrivial=False)
            part.outcome("no-value:" + o[0])
            if o[0] == "X":
                part.extra["x_outcomes_left_to_C04"] += 1
            continue
        part.case()
        part.outcome("type:" + ty)
        want = CLASS_OF.get(ty)
        top = outcome.top_class(o[3])
        if ty == "type":
            ok = isinstance(top, str) and top.startswith("type:")
        else:
            ok = (top == want)
        if not ok:
            part.violation("wrong-class", sig_for(rk, f"{rk}:class:{where.split('<')[0]}:{ty}:got={top}", text, outcome.all_classes(o[3])), {"expr": text, "runner": rk, "type": ty},
                           f"runner {rk}: {text!r} has CEL type {ty}; returned object is {top}, expected {want}")
        else:
            inner = bad_classes(o[3])
            if inner:
                part.violation("wrong-element-class", sig_for(rk, f"{rk}:element-class:{where.split('<')[0]}:{ty}:got={sorted(set(inner))[0]}", text, inner), {"expr": text, "runner": rk, "type": ty},
                               f"runner {rk}: {text!r}: container holds non-library objects {sorted(set(inner))}")
        # type(e) == T for the twelve names, in one program
        tl = "[" + ", ".join(f"type({text}) == {n}" for n in TYPE_NAMES) + "]"
        o2 = celrun.evaluate(rk, tl, dict(acts["right"]))
        part.case()
        if o2[0] == "V" and o2[1] == "list":
            flags = [x[1] for x in o2[2]]
            exp = [n == ty for n in TYPE_NAMES]
            part.outcome("typeeq:ok" if flags == exp else "typeeq:bad")
            if flags != exp:
                got = [n for n, f in zip(TYPE_NAMES, flags) if f is True]
                part.violation("type()-mismatch", sig_for(rk, f"{rk}:type():{where.split('<')[0]}:{ty}:true-for={','.join(got) or 'none'}", text, outcome.all_classes(o[3])), {"expr": text, "runner": rk, "type": ty, "typelist": tl},
                               f"runner {rk}: type({text}) == T is true for {got or 'no name'}, expected exactly [{ty}]")
        else:
            part.outcome("typeeq:" + o2[0])
            part.violation("type()-failed", f"{rk}:type():{where.split('<')[0]}:{ty}:outcome={outcome.label(o2)}", {"expr": text, "runner": rk, "type": ty, "typelist": tl},
                           f"runner {rk}: [type({text}) == T ...] gave {outcome.short(o2)}")
    part.space(f"programs:{rk}", 0, len(progs))
    return part


def run(ctx):
    progs = programs(ctx.tier)
    for rk in ("I", "C"):
        ctx.run_shards(shard, [(rk, lo, hi, ctx.tier) for lo, hi in runner.shards(len(progs), 32)])
        ctx.part.spaces[f"programs:{rk}"]["cardinality"] = len(progs)
    ctx.part.sample({"programs": [progs[i][:2] for i in (0, len(progs) // 3, len(progs) // 2, len(progs) - 1)]})
    _pairhist.run(ctx, __name__)
    ctx.part.sample({"type_names": TYPE_NAMES})
    ctx.rule = ("every well-typed term (by the reference type checker) with an operator, function, macro or conversion at the root over the leaf alphabet (two literals + one bound variable per CEL kind), "
                "plus hand-typed programs (macros on map receivers keeping all/some/no keys; string functions on non-ASCII texts and patterns); then " + ("every such term" if ctx.thorough else "one representative per (root, result type)") + " nested one level (operand of every operator accepting its kind, list element, map value, ?: branch, macro body, dyn, size, string); "
                "two cases per program: class of the returned value (recursively), and `[type(e) == T for the 12 names]`; programs that raise at run time have no value and are counted as trivial")
    ctx.assumptions = ["the reference type checker covers the signature of mc/gen.py only; terms it cannot type are not enumerated here (C03/C04 still run them)"]


# ---- pair histories (mc/pairhist.py): a term alone and after every other term; the outcome carries the Python class ----
PH_TEXTS = ["1 + 1", "1u + 1u", "1.5 + 2.5", "1.5 * 2.0", "-1.5", '"a" + "b"', 'b"a" + b"b"', "[1] + [2]", 'duration("1s") + duration("1s")', 'duration("2s") - duration("1s")',
            'timestamp("2020-01-01T00:00:00Z") + duration("1s")', 'timestamp("2020-01-01T00:00:01Z") - timestamp("2020-01-01T00:00:00Z")', 'duration("1.5s").getMilliseconds()',
            'timestamp("2020-01-01T00:00:00Z").getFullYear()', "size([1])", 'size("a")', "int(1.5)", "uint(1)", "double(1)", 'string(1)', 'bytes("a")', "1 == 1", "1 < 2", "!true", "true && true",
            "true ? 1 : 2", "[1, 2].map(x, x + 1)", "[1, 2].filter(x, x > 1)", "[1, 2].exists(x, x > 1)", "[1, 2].exists_one(x, x > 1)", '"ab".matches("a")', '"ab".contains("a")',
            "1 in [1]", '{"a": 1}.a', "[1.5][0]", "type(1)", "type(1.5 + 2.5) == double", 'type("a" + "b") == string', "type(1 + 1) == int", 'type(duration("1s").getMilliseconds()) == int',
            "dyn(1)", "7 / 2", "-7 / 2", "7 % 2", "7u / 2u"]
from .. import pairhist as _pairhist  # noqa: E402

_pairhist.install(globals(), PH_TEXTS, with_class=True)


def replay(w):
    wit = w["witness"]
    if wit.get("space") == "pairhist":
        from .. import pairhist
        return pairhist.replay(w)
    acts = gen.activations()
    o = celrun.evaluate(wit["runner"], wit["expr"], dict(acts["right"]))
    print(wit["expr"], "expected type", wit["type"], "->", outcome.short(o), "class", o[3] if o[0] == "V" else None)
    bad = False
    if o[0] == "V":
        top = outcome.top_class(o[3])
        if wit["type"] != "type" and top != CLASS_OF.get(wit["type"]):
            bad = True
        if bad_classes(o[3]):
            bad = True
    if "typelist" in wit:
        o2 = celrun.evaluate(wit["runner"], wit["typelist"], dict(acts["right"]))
        print("type list ->", outcome.short(o2))
        if not (o2[0] == "V" and [x[1] for x in o2[2]] == [n == wit["type"] for n in TYPE_NAMES]):
            bad = True
    print("REPRODUCED" if bad else "not reproduced")
    return 1 if bad else 0
