"""C09 Lists, maps, strings and comprehension macros follow reference semantics
(DESIGN.md section 3, C09).  Bounded-exhaustive over small lists / maps / strings / regexes; the
oracle is computed on plain Python values by this module (never by the library) and by
mc.ref.regexref / mc.ref.kleene.
"""
import itertools

from .. import celrun, outcome, runner
from ..ref import UNSPEC, kleene, regexref
from ..ref.intarith import I_MAX, I_MIN

LEVEL = "exploration"
ERR = "ERR"


# ----------------------------------------------------------------------------------------- helpers
def lit(v):
    """CEL literal text of a plain tagged value"""
    if isinstance(v, bool):
        return "true" if v else "false"
    if isinstance(v, tuple) and v[0] == "u":
        return f"{v[1]}u"
    if isinstance(v, int):
        return str(v)
    if isinstance(v, str):
        return '"' + v + '"'
    if isinstance(v, list):
        return "[" + ", ".join(lit(x) for x in v) + "]"
    raise TypeError(v)


def canon(v):
    """expected value -> outcome-comparable (celtype, plain)"""
    if isinstance(v, bool):
        return ("bool", v)
    if isinstance(v, tuple) and v[0] == "u":
        return ("uint", v[1])
    if isinstance(v, int):
        return ("int", v)
    if isinstance(v, str):
        return ("string", v)
    if isinstance(v, list):
        return ("list", tuple(canon(x) for x in v))
    raise TypeError(v)


def got_of(o):
    if o[0] == "V":
        return (o[1], o[2])
    if o[0] == "E":
        return ERR
    return ("X",) + tuple(o[1:])


def judge(part, rk, family, sigkey, expr, o, exp, bindings=None):
    if exp is UNSPEC:
        part.case(nontrivial=False)
        part.outcome("UNSPEC")
        return
    part.case()
    want = ERR if exp == ERR else canon(exp)
    part.outcome("E" if want == ERR else want[0])
    g = got_of(o)
    if g == want:
        return
    if want == ERR:
        kind = "value-instead-of-error" if o[0] == "V" else "other-exception"
    elif g == ERR:
        kind = "error-instead-of-value"
    elif isinstance(g, tuple) and g and g[0] == "X":
        kind = "other-exception"
    else:
        kind = "wrong-value"
    part.violation(kind, f"{rk}:{family}:{sigkey}:{kind}", {"expr": expr, "runner": rk, "expected": repr(want)},
                   f"runner {rk}: {expr!r}: expected {want}, got {outcome.short(o)}")


def lists_over(alpha, maxlen):
    for k in range(maxlen + 1):
        for t in itertools.product(alpha, repeat=k):
            yield list(t)


# ----------------------------------------------------------------------------------------- macros
def _div(a, b):
    if b == 0:
        return ERR
    q = abs(a) // abs(b)
    return q if (a < 0) == (b < 0) else -q


INT_PREDS = [
    ("v > 0", lambda v: v > 0), ("v == 1", lambda v: v == 1), ("v % 2 == 0", lambda v: v % 2 == 0), ("true", lambda v: True), ("false", lambda v: False),
    ("v in [1]", lambda v: v in [1]), ("1 / v > 0", lambda v: ERR if v == 0 else (_div(1, v) > 0)),
]
INT_BODIES = [("v + 1", lambda v: v + 1), ("[v]", lambda v: [v]), ("string(v)", lambda v: str(v)), ("1 / v", lambda v: _div(1, v))]
STR_PREDS = [('v == "a"', lambda v: v == "a"), ("size(v) > 0", lambda v: len(v) > 0), ("true", lambda v: True)]
BOOL_PREDS = [("v", lambda v: v), ("!v", lambda v: not v)]
UINT_PREDS = [("v > 1u", lambda v: v[1] > 1), ("v == 1u", lambda v: v[1] == 1)]
LIST_PREDS = [("size(v) > 0", lambda v: len(v) > 0), ("v == [1]", lambda v: v == [1]), ("1 in v", lambda v: 1 in v)]


def abstr(x):
    return "E" if x == ERR else ("T" if x is True else ("F" if x is False else ("N", "v")))


def macro_expect(macro, l, f):
    vals = [f(v) for v in l]
    if macro == "all":
        r = kleene.fold_all([abstr(x) for x in vals])
    elif macro == "exists":
        r = kleene.fold_exists([abstr(x) for x in vals])
    else:
        r = None
    if macro in ("all", "exists"):
        return UNSPEC if r is UNSPEC else (ERR if r == "E" else (r == "T"))
    if any(x == ERR for x in vals):
        return UNSPEC  # map / filter / exists_one are defined element-wise on values
    if macro == "exists_one":
        return sum(1 for x in vals if x is True) == 1
    if macro == "filter":
        return [v for v, x in zip(l, vals) if x is True]
    if macro == "map":
        return vals
    raise ValueError(macro)


def macro_shard(task):
    rk, family, tier = task
    part = runner.Part()
    maxlen = 5 if tier == "thorough" else 4
    fams = {
        "int": (list(lists_over([0, 1, 2], maxlen)), INT_PREDS, INT_BODIES),
        "string": (list(lists_over(["a", "b"], maxlen)), STR_PREDS, []),
        "bool": (list(lists_over([True, False], maxlen)), BOOL_PREDS, []),
        "uint": (list(lists_over([("u", 1), ("u", 2)], maxlen - 1)), UINT_PREDS, []),
        "list": ([list(t) for k in range(3) for t in itertools.product([[], [1], [1, 2]], repeat=k)], LIST_PREDS, []),
    }
    lists, preds, bodies = fams[family]
    n = 0
    for l in lists:
        for ptxt, pf in preds:
            for m in ("all", "exists", "exists_one", "filter"):
                e = f"{lit(l)}.{m}(v, {ptxt})"
                judge(part, rk, "macro", f"{m}:{family}:{ptxt}", e, celrun.evaluate(rk, e), macro_expect(m, l, pf))
                n += 1
        for btxt, bf in bodies:
            e = f"{lit(l)}.map(v, {btxt})"
            judge(part, rk, "macro", f"map:{family}:{btxt}", e, celrun.evaluate(rk, e), macro_expect("map", l, bf))
            n += 1
            e2 = f"size({lit(l)}.map(v, {btxt})) == size({lit(l)})"
            judge(part, rk, "law", "size-of-map", e2, celrun.evaluate(rk, e2), UNSPEC if any(bf(v) == ERR for v in l) else True)
            n += 1
        # membership law: x in l <=> l.exists(y, y == x)
        for x in (lists[1] if len(lists) > 1 else []) + ([l[0]] if l else []):
            if isinstance(x, list) and family != "list":
                continue
            e = f"({lit(x)} in {lit(l)}) == {lit(l)}.exists(y, y == {lit(x)})"
            judge(part, rk, "law", f"in-iff-exists:{family}", e, celrun.evaluate(rk, e), True)
            e = f"{lit(x)} in {lit(l)}"
            judge(part, rk, "in", f"list:{family}", e, celrun.evaluate(rk, e), x in l)
            n += 2
    if family == "int":
        # nested macros whose inner body mentions the OUTER variable (each outer element must see its own value)
        outers = [l for l in lists_over([0, 1, 2], 3)]
        inners = [[1], [1, 2], [2, 0]]
        for l in outers:
            for m in inners:
                cases = [
                    (f"{lit(l)}.map(x, {lit(m)}.map(y, x + y))", [[x + y for y in m] for x in l]),
                    (f"{lit(l)}.filter(x, {lit(m)}.exists(y, y == x))", [x for x in l if any(y == x for y in m)]),
                    (f"{lit(l)}.map(x, {lit(m)}.filter(y, y > x))", [[y for y in m if y > x] for x in l]),
                    (f"{lit(l)}.all(x, {lit(m)}.all(y, y >= x))", all(all(y >= x for y in m) for x in l)),
                    (f"{lit(l)}.exists_one(x, {lit(m)}.exists_one(y, y == x))", sum(1 for x in l if sum(1 for y in m if y == x) == 1) == 1),
                    (f"{lit(l)}.map(x, {lit(m)}.map(x, x + 1))", [[y + 1 for y in m] for _x in l]),
                ]
                for e, exp in cases:
                    judge(part, rk, "macro", "nested:" + e.split(".")[1].split("(")[0] + ">" + e.split(".")[2].split("(")[0], e, celrun.evaluate(rk, e), exp)
                    n += 1
    part.space(f"macros:{family}:{rk}", n, n, bound=f"lists of length <= {maxlen}")
    return part


# ----------------------------------------------------------------------------------------- indexing, size, concat
def index_shard(task):
    rk, tier = task
    part = runner.Part()
    maxlen = 4 if tier == "thorough" else 3
    lists = list(lists_over([7, 8], maxlen)) + [["a"], ["a", "b"], [True], [[1], [2, 3]]]
    n = 0
    for l in lists:
        idxs = sorted(set(list(range(-len(l) - 1, len(l) + 2)) + [I_MIN, I_MIN + 1, -2 ** 31, -2 ** 32, 2 ** 31, 2 ** 32, I_MAX - 1, I_MAX]))
        prog = celrun.Prog(rk, "l[i]")
        import celpy.celtypes as ct
        for i in idxs:
            exp = l[i] if 0 <= i < len(l) else ERR
            cls = "in-range" if 0 <= i < len(l) else ("negative" if i < 0 else "beyond-end")
            e = f"{lit(l)}[{i}]"
            judge(part, rk, "index", f"literal:{cls}", e, celrun.evaluate(rk, e), exp)
            o = prog.eval({"l": to_cel(l), "i": ct.IntType(i)})
            judge(part, rk, "index", f"bound:{cls}", f"l[i] with l={l} i={i}", o, exp)
            n += 2
        e = f"size({lit(l)})"
        judge(part, rk, "size", "list", e, celrun.evaluate(rk, e), len(l))
        e = f"{lit(l)}.size()"
        judge(part, rk, "size", "list-method", e, celrun.evaluate(rk, e), len(l))
        n += 2
        for m in lists[:8]:
            if l and m and type(l[0]) is not type(m[0]):
                continue
            e = f"{lit(l)} + {lit(m)}"
            judge(part, rk, "concat", "list", e, celrun.evaluate(rk, e), l + m)
            n += 1
    part.space(f"index-size-concat:{rk}", n, n)
    return part


def to_cel(v):
    import celpy.celtypes as ct
    if isinstance(v, bool):
        return ct.BoolType(v)
    if isinstance(v, tuple) and v[0] == "u":
        return ct.UintType(v[1])
    if isinstance(v, int):
        return ct.IntType(v)
    if isinstance(v, str):
        return ct.StringType(v)
    if isinstance(v, list):
        return ct.ListType([to_cel(x) for x in v])
    raise TypeError(v)


# ----------------------------------------------------------------------------------------- maps
KEY_ALPHABETS = {"int": [1, 2], "uint": [("u", 1), ("u", 2)], "string": ["a", "b"], "bool": [True, False]}


def map_shard(task):
    rk, tier = task
    part = runner.Part()
    n = 0
    values = [10, 20]
    for kt, keys in KEY_ALPHABETS.items():
        absent = {"int": 3, "uint": ("u", 3), "string": "c", "bool": None}[kt]
        entries = []
        for k in range(0, 3):
            for ks in itertools.product(keys, repeat=k):
                for vs in itertools.product(values, repeat=k):
                    entries.append(list(zip(ks, vs)))
        for ent in entries:
            mtxt = "{" + ", ".join(f"{lit(k)}: {lit(v)}" for k, v in ent) + "}"
            dup = len({repr(k) for k, _ in ent}) != len(ent)
            d = {repr(k): v for k, v in ent}
            judge(part, rk, "map", f"construct:{kt}:{'duplicate-key' if dup else 'ok'}", f"size({mtxt})", celrun.evaluate(rk, f"size({mtxt})"), ERR if dup else len(ent))
            n += 1
            probes = list(keys) + ([absent] if absent is not None else [])
            for p in probes:
                present = repr(p) in d
                cls = "duplicate-key" if dup else ("present" if present else "missing")
                e = f"{mtxt}[{lit(p)}]"
                judge(part, rk, "map", f"lookup:{kt}:{cls}", e, celrun.evaluate(rk, e), ERR if (dup or not present) else d[repr(p)])
                e = f"{lit(p)} in {mtxt}"
                judge(part, rk, "map", f"in:{kt}:{cls}", e, celrun.evaluate(rk, e), ERR if dup else present)
                n += 2
                if kt == "string":
                    e = f"{mtxt}.{p}"
                    judge(part, rk, "map", f"select:{cls}", e, celrun.evaluate(rk, e), ERR if (dup or not present) else d[repr(p)])
                    e = f"has({mtxt}.{p})"
                    judge(part, rk, "map", f"has:{cls}", e, celrun.evaluate(rk, e), UNSPEC if dup else present)
                    n += 2
    part.space(f"maps:{rk}", n, n, bound="<= 2 entries per map, four key alphabets")
    return part


# ----------------------------------------------------------------------------------------- strings
def string_shard(task):
    rk, lo, hi, tier = task
    part = runner.Part()
    alpha = ["a", "b", "é", "😀"]
    maxlen = 3
    strs = ["".join(t) for k in range(maxlen + 1) for t in itertools.product(alpha, repeat=k)]
    frags = ["".join(t) for k in range(3 if tier == "thorough" else 2 + 1) for t in itertools.product(alpha, repeat=k)] if tier == "thorough" else ["".join(t) for k in range(3) for t in itertools.product(alpha, repeat=k)]
    import celpy.celtypes as ct
    progs = {name: celrun.Prog(rk, f"s.{name}(t)") for name in ("contains", "startsWith", "endsWith")}
    psize = celrun.Prog(rk, "size(s)")
    pcat = celrun.Prog(rk, "s + t")
    plaw = celrun.Prog(rk, "(s + t).startsWith(s)")
    n = 0
    for s in strs[lo:hi]:
        S = ct.StringType(s)
        judge(part, rk, "string", "size", f"size({s!r})", psize.eval({"s": S}), len(s))
        e = f'size("{s}")'
        judge(part, rk, "string", "size-literal", e, celrun.evaluate(rk, e), len(s))
        n += 2
        for t in frags:
            T = ct.StringType(t)
            b = {"s": S, "t": T}
            judge(part, rk, "string", "contains", f"{s!r}.contains({t!r})", progs["contains"].eval(b), t in s)
            judge(part, rk, "string", "startsWith", f"{s!r}.startsWith({t!r})", progs["startsWith"].eval(b), s.startswith(t))
            judge(part, rk, "string", "endsWith", f"{s!r}.endsWith({t!r})", progs["endsWith"].eval(b), s.endswith(t))
            judge(part, rk, "string", "concat", f"{s!r} + {t!r}", pcat.eval(b), s + t)
            judge(part, rk, "law", "concat-startsWith", f"({s!r} + {t!r}).startsWith({s!r})", plaw.eval(b), True)
            n += 5
    part.space(f"strings:{rk}", n, n, bound="strings of length <= 3 over {a, b, e-acute, emoji}")
    return part


# ----------------------------------------------------------------------------------------- matches
def anchored_regexes():
    """Alternations in which only one branch carries an anchor, and anchors inside groups: the patterns for which
    "starts with ^" does not mean "anchored" (6-8 nodes, beyond the size bound of the complete enumeration)."""
    a, b, dot, cl = ("lit", "a"), ("lit", "b"), ("dot",), ("cls", "ab")
    xs = [a, b, ("cat", a, b), ("cat", b, a), cl, dot]
    bol, eol = ("bol",), ("eol",)
    out = []
    for x in xs:
        for y in xs:
            out += [("alt", ("cat", bol, x), y), ("alt", x, ("cat", bol, y)), ("alt", ("cat", x, eol), y), ("alt", x, ("cat", y, eol)), ("alt", ("cat", bol, x), ("cat", y, eol)),
                    ("alt", ("cat", bol, x, eol), y), ("cat", bol, ("grp", ("alt", x, y))), ("cat", ("grp", ("alt", x, y)), eol), ("cat", ("grp", ("alt", ("cat", bol, x), y)), b),
                    ("alt", ("cat", bol, x), ("alt", y, ("cat", bol, a))), ("cat", ("opt", ("grp", bol)), x, y) if False else ("alt", ("cat", bol, ("star", x)), y)]
    seen, res = set(), []
    for r in out:
        if r not in seen:
            seen.add(r)
            res.append(r)
    return res


def regex_shard(task):
    rk, lo, hi, tier = task
    part = runner.Part()
    if lo == "anchored":
        rs = anchored_regexes()
        name, bound = f"matches-anchored-alternations:{rk}", "alternations with an anchor in one branch / anchors around groups over 6 sub-patterns x texts of length <= 4 over {a, b}"
    else:
        rs = regexref.regexes(5 if tier == "thorough" else 4)[lo:hi]
        name, bound = f"matches:{rk}", "regexes of <= 4 nodes (thorough 5) x texts of length <= 4 over {a, b}"
    ts = list(regexref.texts("ab", 4))
    import celpy.celtypes as ct
    prog = celrun.Prog(rk, "t.matches(p)")
    n = 0
    for r in rs:
        pat = regexref.render(r)
        P = ct.StringType(pat)
        for t in ts:
            exp = regexref.search(r, t)
            judge(part, rk, "matches", f"{r[0]}", f"{t!r}.matches({pat!r})", prog.eval({"t": ct.StringType(t), "p": P}), exp)
            n += 1
    part.space(name, n, n, bound=bound)
    return part


def malformed_shard(task):
    rk = task
    part = runner.Part()
    import celpy.celtypes as ct
    prog = celrun.Prog(rk, "t.matches(p)")
    n = 0
    for k in range(1, 4):
        for tup in itertools.product("()*[a", repeat=k):
            pat = "".join(tup)
            depth = 0
            bad = False
            for ch in pat:
                if ch == "(":
                    depth += 1
                elif ch == ")":
                    depth -= 1
                    if depth < 0:
                        bad = True
            if depth != 0:
                bad = True
            if "[" in pat:
                bad = True  # never closed over this alphabet
            if pat.startswith("*") or "(*" in pat:
                bad = True
            exp = ERR if bad else UNSPEC   # what a well-formed-looking pattern means is regex_shard's job
            judge(part, rk, "matches", "malformed", f'"a".matches({pat!r})', prog.eval({"t": ct.StringType("a"), "p": ct.StringType(pat)}), exp)
            n += 1
    part.space(f"matches-malformed:{rk}", n, n, bound="patterns of length <= 3 over ( ) * [ a")
    return part


ESC_ATOMS = [("\\d", str.isdigit), ("\\D", lambda c: not c.isdigit()), ("\\w", lambda c: c.isalnum() or c == "_"), ("\\s", lambda c: c in " \t\n\r\f\v"),
             ("\\.", lambda c: c == "."), ("\\\\", lambda c: c == "\\"), ("\\x61", lambda c: c == "a"), ("a", lambda c: c == "a"), ("1", lambda c: c == "1")]
ESC_TEXT_ALPHABET = ["a", "1", " ", ".", "\\", "_"]
ESC_MALFORMED = ["\\", "a\\", "\\8", "\\d\\"]      # (an escaped punctuation character such as \\_ is legal RE2)


def escape_shard(task):
    """Patterns whose only special syntax is backslash escapes: every sequence of <= 2 atoms x every ASCII text of
    length <= 2 over a 6-character alphabet; reference = a position where the atoms' character predicates hold in order."""
    rk = task
    part = runner.Part()
    import celpy.celtypes as ct
    prog = celrun.Prog(rk, "t.matches(p)")
    prog2 = celrun.Prog(rk, "matches(t, p)")
    texts = [""] + ["".join(t) for k in (1, 2) for t in itertools.product(ESC_TEXT_ALPHABET, repeat=k)]
    n = 0
    for k in (1, 2):
        for atoms in itertools.product(ESC_ATOMS, repeat=k):
            pat = "".join(a for a, _ in atoms)
            for t in texts:
                exp = any(all(i + j < len(t) and atoms[j][1](t[i + j]) for j in range(k)) for i in range(len(t)))
                b = {"t": ct.StringType(t), "p": ct.StringType(pat)}
                judge(part, rk, "matches", "escapes", f"{t!r}.matches({pat!r})", prog.eval(b), exp)
                n += 1
            judge(part, rk, "matches", "escapes-function-form", f"matches({'a1 .'!r}, {pat!r})", prog2.eval({"t": ct.StringType("a1 ."), "p": ct.StringType(pat)}),
                  any(all(i + j < 4 and atoms[j][1]("a1 ."[i + j]) for j in range(k)) for i in range(4)))
            n += 1
    for pat in ESC_MALFORMED:
        judge(part, rk, "matches", "malformed-escape", f'"a8_".matches({pat!r})', prog.eval({"t": ct.StringType("a8_"), "p": ct.StringType(pat)}), ERR)
        n += 1
    part.space(f"matches-escapes:{rk}", n, n, bound="<= 2 atoms of 9 (escapes \\d \\D \\w \\s \\. \\\\ \\x61 and two literals) x texts of length <= 2 over 6 characters; 4 malformed escapes")
    return part


def run(ctx):
    regexref.selftest()
    kleene.selftest()
    nre = len(regexref.regexes(5 if ctx.thorough else 4))
    for rk in ("I", "C"):
        tasks = [(rk, fam, ctx.tier) for fam in ("int", "string", "bool", "uint", "list")]
        ctx.run_shards(macro_shard, tasks)
        ctx.run_shards(index_shard, [(rk, ctx.tier)])
        ctx.run_shards(map_shard, [(rk, ctx.tier)])
        ctx.run_shards(string_shard, [(rk, lo, hi, ctx.tier) for lo, hi in runner.shards(85, 12)])
        ctx.run_shards(regex_shard, [(rk, lo, hi, ctx.tier) for lo, hi in runner.shards(nre, 32)] + [(rk, "anchored", 0, ctx.tier)])
        ctx.run_shards(malformed_shard, [rk])
        ctx.run_shards(escape_shard, [rk])
    _pairhist.run(ctx, __name__)
    ctx.part.sample({"macro": "[0, 1, 2].exists_one(v, 1 / v > 0)", "index": "[7, 8][-1]", "map": '{"a": 10, "a": 20}["a"]', "string": '"é😀".contains("😀")', "regex": '"abab".matches("(a|b)*$")'})
    ctx.rule = ("every list of length <= 4 over small alphabets (int, string, bool, uint, nested) x every macro x every predicate/body of its type; every index in the int64 boundary set and around the list bounds; "
                "every map of <= 2 entries per key alphabet (duplicates, every order) x lookup / in / select / has with present and absent keys; every string of length <= 3 over {a, b, e-acute, emoji} x every fragment; "
                "every regex of <= 4 nodes x every text of length <= 4; malformed patterns; the stated laws as direct differentials; a case whose reference outcome is UNSPEC (macro over an erroring element other than all/exists, "
                "has() on a duplicate-key map, well-formed-looking odd patterns) is counted, not compared")
    ctx.assumptions = ["heterogeneous lists, cross-type keys and uint/double indexes are outside 'well-typed' and not enumerated", "regex fragment without backreferences, look-around or laziness"]


# ---- pair histories (mc/pairhist.py): a term alone and after every other term in the same process --------------
PH_EXPECTED = {'"ab".matches("^a")': ("V", "bool", True), '"ba".matches("^a")': ("V", "bool", False), '"ba".matches("a")': ("V", "bool", True), '"ba".matches("a$")': ("V", "bool", True),
               '"ab".matches("a$")': ("V", "bool", False), '"ba".matches("^a|a")': ("V", "bool", True), '"ab".matches("(")': ("E",), '"1".matches("\\\\d")': ("V", "bool", True),
               "[1, 2, 3][0]": ("V", "int", 1), "[4, 5, 6][0]": ("V", "int", 4), "[1, 2, 3][-1]": ("E",), "[1, 2, 3][3]": ("E",), '{"a": 1}["a"]': ("V", "int", 1), '{"a": 2}["a"]': ("V", "int", 2),
               '{"a": 1}["b"]': ("E",), '{"a": 1, "b": 2}.b': ("V", "int", 2), '"abc".contains("b")': ("V", "bool", True), '"abc".startsWith("b")': ("V", "bool", False),
               '"abc".endsWith("c")': ("V", "bool", True), 'size("é😀")': ("V", "int", 2), "size([1, 2])": ("V", "int", 2), "1 in [1, 2]": ("V", "bool", True), "3 in [1, 2]": ("V", "bool", False),
               '"a" in {"a": 1}': ("V", "bool", True), '"b" in {"a": 1}': ("V", "bool", False), "[1, 2].exists(x, x > 1)": ("V", "bool", True), "[1, 2].all(x, x > 1)": ("V", "bool", False),
               "[1, 2].exists_one(x, x > 0)": ("V", "bool", False), "[0, 1].exists(x, 1 / x == 1)": ("V", "bool", True), "[1, 0].all(x, 1 / x == 2)": ("V", "bool", False),
               "[1, 2, 3].filter(x, [1, 3].exists(y, y == x)) == [1, 3]": ("V", "bool", True), "[1, 2, 3].map(x, [10, 20].map(y, x + y)) == [[11, 21], [12, 22], [13, 23]]": ("V", "bool", True),
               "[1, 2].map(x, x + 1) == [2, 3]": ("V", "bool", True), "[3, 4].map(x, x + 1) == [4, 5]": ("V", "bool", True), "[1, 2].map(y, y + 1) == [2, 3]": ("V", "bool", True),
               "[[1], [2]].map(x, x.map(x, x + 1)) == [[2], [3]]": ("V", "bool", True), '"ab" + "c" == "abc"': ("V", "bool", True), "[1] + [2] == [1, 2]": ("V", "bool", True)}
from .. import pairhist as _pairhist  # noqa: E402

_pairhist.install(globals(), list(PH_EXPECTED), PH_EXPECTED)


def replay(w):
    wit = w["witness"]
    if wit.get("space") == "pairhist":
        from .. import pairhist
        return pairhist.replay(w)
    o = celrun.evaluate(wit["runner"], wit["expr"]) if " with l=" not in wit["expr"] and ".matches(" not in wit["expr"][:0] else None
    if o is None:
        print("bound-variable witness; re-run ./check C09:", wit)
        return 1
    print(wit["expr"], "->", outcome.short(o), "expected", wit["expected"])
    g = got_of(o)
    bad = repr(g) != wit["expected"] and not (g == ERR and wit["expected"] == repr(ERR))
    print("REPRODUCED" if bad else "not reproduced")
    return 1 if bad else 0
