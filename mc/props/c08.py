"""C08 Equality and ordering are coherent within each CEL type (DESIGN.md section 3, C08).

Bounded-exhaustive: per CEL type a value alphabet; every ordered pair of same-type values is run
through `x OP y` (bound variables; one program per operator per runner), through the literal
spelling `(a) OP (b)` (every value that has one), through `x OP y` with the left / the right operand
bound as the plain Python base-class object (float, str, list ...: what the evaluator itself returns
from `+`; this is what reaches the reflected-operator and mixed-class branches), and -- for == and
!= -- wrapped as `[x] OP [y]` and `{"k": x} OP {"k": y}`, under both runners.  Every cell of the resulting relation matrices is
compared with the reference relation of the plain values (mc/ref/cmpref.py); the coherence laws
(reflexive / symmetric ==, != negation, trichotomy, converse, <= definition, transitivity of ==
and < over every triple) are then checked on the observed matrices themselves.
"""
import ast
import datetime
import itertools
import math
import os
import re

from .. import celrun, outcome, repo, runner
from ..ref import UNSPEC, cmpref, intarith

LEVEL = "exploration"
OPS = list(cmpref.OPS)
EQ_OPS = list(cmpref.EQ_OPS)
TYPES = ["int", "uint", "double", "string", "bytes", "bool", "timestamp", "duration", "null", "list", "map"]
PATHS = ["bound", "literal", "rawleft", "rawright", "wraplist", "wrapmap"]
TEXT = {"bound": "x {op} y", "rawleft": "x {op} y", "rawright": "x {op} y", "wraplist": "[x] {op} [y]", "wrapmap": '{{"k": x}} {op} {{"k": y}}'}
PATHCLASS = {"bound": "expr", "literal": "expr", "rawleft": "raw", "rawright": "raw", "wraplist": "wraplist", "wrapmap": "wrapmap"}
RAW_TYPES = ("int", "double", "string", "bytes", "bool", "timestamp", "duration", "list", "map")
US = 1000000
DUR_MAX = 315576000000 * US


# ------------------------------------------------------------------------------------------------
# value specs: JSON-able [tag, payload]; from a spec come the reference value, the celpy object
# and the literal spelling
# ------------------------------------------------------------------------------------------------
def S(text):
    return ["string", [ord(c) for c in text]]


def I(n):  # noqa: E743
    return ["int", n]


def L(*xs):
    return ["list", list(xs)]


def M(*kv):
    return ["map", [[k, v] for k, v in kv]]


def ts_specs(utc, offsets):
    """One instant (UTC civil fields) written in several zone offsets (minutes east)."""
    out = []
    base = datetime.datetime(*utc)
    for off in offsets:
        loc = base + datetime.timedelta(minutes=off)  # harness-side arithmetic; the model recomputes the instant
        out.append(["timestamp", [loc.year, loc.month, loc.day, loc.hour, loc.minute, loc.second, loc.microsecond, off]])
    return out


def lists_over(elems, maxlen):
    out = []
    for n in range(maxlen + 1):
        for xs in itertools.product(elems, repeat=n):
            out.append(L(*xs))
    return out


def maps_over(keys, vals, orders):
    """Every map with key set a subset of keys and values in vals; each written in the insertion
    orders selected by `orders` (a function from a sorted key tuple to a list of permutations)."""
    out = []
    for n in range(len(keys) + 1):
        for ks in itertools.combinations(keys, n):
            for vs in itertools.product(vals, repeat=n):
                items = list(zip(ks, vs))
                for perm in orders(tuple(range(n))):
                    out.append(M(*[items[p] for p in perm]))
    return out


def _two_orders(idx):
    return [idx] if len(idx) < 2 else [idx, idx[::-1]]


def _rot_orders(idx):
    return [idx] if len(idx) < 2 else ([idx, idx[::-1]] if len(idx) == 2 else [idx, idx[1:] + idx[:1]])


def _dedup(specs):
    seen, out = set(), []
    for s in specs:
        k = repr(s)
        if k not in seen:
            seen.add(k)
            out.append(s)
    return out


def alphabets(tier):
    th = tier == "thorough"
    two53 = 2 ** 53
    a = {}
    if th:
        ks = (7, 8, 15, 16, 31, 32, 53, 62)
        a["int"] = [["int", v] for v in intarith.boundary("int", ks)]
        a["uint"] = [["uint", v] for v in intarith.boundary("uint", list(ks) + [63])]
    else:
        a["int"] = [["int", v] for v in (intarith.I_MIN, intarith.I_MIN + 1, -two53 - 1, -2 ** 31, -1, 0, 1, 2, 2 ** 31,
                                         two53, two53 + 1, intarith.I_MAX - 1, intarith.I_MAX)]
        a["uint"] = [["uint", v] for v in (0, 1, 2, 2 ** 32, two53, two53 + 1, 2 ** 63, intarith.U_MAX - 1, intarith.U_MAX)]
    dv = [-math.inf, -1e308, -1.5, -5e-324, -0.0, 0.0, 5e-324, 1.5, 2.0 ** 53, 2.0 ** 53 + 2, math.inf, math.nan]
    if th:
        dv += [-1.7976931348623157e308, -2.0 ** 53, -1.0, -2.2250738585072014e-308, 2.2250738585072014e-308, 0.1, 0.1 + 0.2, 0.3,
               1.0, 1.0000000000000002, 1e308, 1.7976931348623157e308]
    a["double"] = [["double", repr(v)] for v in dv]
    sv = ["", "a", "aa", "ab", "b", "\u00e9", "e\u0301", "\uffff", "\U0001F600", "a\U0001F600"]
    if th:
        sv += ["A", "B", "aB", "\u0000", "a\u0000", "\u007f", "\u0080", "\ud7ff", "\ue000", "\U00010000", "\U0010FFFF", "\U0001F600a",
               "\uff41", "\u00e8"]
    a["string"] = [S(v) for v in sv]
    bv = [b"", b"a", b"a\x00", b"b", b"\x7f", b"\x80", b"\xff"]
    if th:
        bv += [b"\x00", b"aa", b"ab", b"\x7f\xff", b"\x80\x00", b"\xc3\xa9", b"\xff\xff"]
    a["bytes"] = [["bytes", v.hex()] for v in bv]
    a["bool"] = [["bool", False], ["bool", True]]
    inst = [((1, 1, 1, 0, 0, 0, 0), (0, 840, 330)),
            ((1969, 12, 31, 23, 59, 59, 999999), (0, 840, -840)),
            ((1970, 1, 1, 0, 0, 0, 0), (0, 840, -840)),
            ((1970, 1, 1, 0, 0, 0, 1), (0, 60, -840)),
            ((2024, 2, 29, 0, 0, 0, 0), (0, 840, -840)),
            ((2024, 2, 29, 12, 0, 0, 0), (0, 840, -840)),
            ((2024, 2, 29, 12, 0, 0, 500000), (0, 345, -570)),
            ((9999, 12, 31, 23, 59, 59, 999999), (0, -840, -330)),
            # neighbours one microsecond apart, far from 1970 (where a float of POSIX seconds cannot tell them apart)
            ((9999, 12, 31, 23, 59, 59, 999998), (0, -840)),
            ((1, 1, 1, 0, 0, 0, 1), (0, 840)),
            ((2300, 1, 1, 0, 0, 0, 1), (0,)),
            ((2300, 1, 1, 0, 0, 0, 2), (60,))]
    if th:
        inst += [((1, 1, 1, 0, 0, 0, 1), (0, 840, 1)),
                 ((1900, 3, 1, 0, 0, 0, 0), (0, 840, -840)),
                 ((2000, 2, 29, 23, 59, 59, 0), (0, 1, -1)),
                 ((2009, 2, 13, 23, 31, 30, 0), (0, 840, -840)),
                 ((2009, 2, 13, 23, 31, 30, 1), (0, 840, -840)),
                 ((2024, 3, 1, 1, 59, 59, 999999), (0, 120, -120)),
                 ((2038, 1, 19, 3, 14, 8, 0), (0, 840, -840)),
                 ((9999, 12, 31, 23, 59, 59, 999998), (0, -840, -1))]
    merged = {}
    for utc, offs in inst:                       # the same instant listed twice (quick neighbours + thorough list): one entry, union of zones
        merged.setdefault(utc, [])
        merged[utc] += [o for o in offs if o not in merged[utc]]
    a["timestamp"] = [s for utc, offs in merged.items() for s in ts_specs(utc, tuple(offs))]
    du = [-DUR_MAX, -1500000, -US, -1, 0, 1, US, 1500000, DUR_MAX]
    if th:
        du += [-DUR_MAX + 1, -86400 * US, -3600 * US, -999999, -2, 2, 999999, 60 * US, 86400 * US, DUR_MAX - 1]
    a["duration"] = [["duration", v] for v in du]
    a["null"] = [["null", None]]
    ln = 4 if th else 3
    a["list"] = _dedup(lists_over([I(1), I(2)], ln) + lists_over([L(), L(I(1))], ln) + lists_over([I(1), ["null", None]], 2)
                       # elements of different types in the same position, and a container opposite null
                       + lists_over([["bool", True], I(1)], 1) + lists_over([L(I(1)), ["null", None]], 1))
    mv = [I(1), I(2), L(I(1))]
    if th:
        a["map"] = _dedup(maps_over([S("a"), S("b"), S("c")], mv, _rot_orders) + maps_over([I(1), I(2), I(3)], mv, _rot_orders))
    else:
        a["map"] = _dedup(maps_over([S("a"), S("b")], mv, _two_orders) + maps_over([I(1), I(2)], mv, _two_orders)
                          # three keys, written in two orders: two value pairs without an == overload beside one that differs
                          + [M((S("a"), I(1)), (S("b"), I(1)), (S("c"), I(1))), M((S("b"), L(I(1))), (S("c"), L(I(1))), (S("a"), I(2))),
                             M((S("a"), I(2)), (S("b"), L(I(1))), (S("c"), L(I(1))))])
    return a


def ref_of(s):
    t, v = s
    if t in ("int", "uint", "bool", "duration"):
        return (t, v)
    if t == "double":
        return (t, float(v))
    if t == "string":
        return (t, "".join(chr(c) for c in v))
    if t == "bytes":
        return (t, bytes.fromhex(v))
    if t == "timestamp":
        return (t, cmpref.instant(*v))
    if t == "null":
        return (t, None)
    if t == "list":
        return (t, tuple(ref_of(x) for x in v))
    if t == "map":
        return (t, tuple((ref_of(k), ref_of(x)) for k, x in v))
    raise ValueError(t)


def to_plain(r):
    """(celtype, plain) in outcome.V's format, from a reference value."""
    t, v = r
    if t == "double":
        return (t, "nan" if v != v else outcome._fbits(v))
    if t == "bytes":
        return (t, v.hex())
    if t == "null":
        return ("null_type", None)
    if t == "list":
        return (t, tuple(to_plain(x) for x in v))
    if t == "map":
        items = [(to_plain(k), to_plain(x)) for k, x in v]
        items.sort(key=repr)
        return (t, tuple(items))
    return (t, v)


def from_plain(t, p):
    """Reference value from outcome.V's (celtype, plain); None when outside the fragment."""
    if t in ("int", "uint", "bool", "string", "timestamp", "duration"):
        return (t, p)
    if t == "double":
        return (t, outcome.unfloat(p))
    if t == "bytes":
        return (t, bytes.fromhex(p))
    if t == "null_type":
        return ("null", None)
    if t == "list":
        xs = [from_plain(*x) for x in p]
        return None if any(x is None for x in xs) else (t, tuple(xs))
    if t == "map":
        kv = [(from_plain(*k), from_plain(*x)) for k, x in p]
        return None if any(k is None or x is None for k, x in kv) else (t, tuple(kv))
    return None


def build(s):
    """The celpy object for a spec (a new object on every call)."""
    import celpy.celtypes as ct

    t, v = s
    if t == "int":
        return ct.IntType(v)
    if t == "uint":
        return ct.UintType(v)
    if t == "double":
        return ct.DoubleType(float(v))
    if t == "string":
        return ct.StringType("".join(chr(c) for c in v))
    if t == "bytes":
        return ct.BytesType(bytes.fromhex(v))
    if t == "bool":
        return ct.BoolType(v)
    if t == "timestamp":
        y, mo, d, hh, mm, ss, us, off = v
        tz = datetime.timezone(datetime.timedelta(minutes=off))
        return ct.TimestampType(datetime.datetime(y, mo, d, hh, mm, ss, us, tzinfo=tz))
    if t == "duration":
        return ct.DurationType(datetime.timedelta(microseconds=v))
    if t == "null":
        return None
    if t == "list":
        return ct.ListType([build(x) for x in v])
    if t == "map":
        return ct.MapType([(build(k), build(x)) for k, x in v])
    raise ValueError(t)


def build_raw(s):
    """The value as an object of the plain Python base class (what the evaluator itself returns
    from e.g. double + double, string + string, list + list); containers hold CEL-class members."""
    t, v = s
    if t == "int":
        return int(v)
    if t == "double":
        return float(v)
    if t == "string":
        return "".join(chr(c) for c in v)
    if t == "bytes":
        return bytes.fromhex(v)
    if t == "bool":
        return bool(v)
    if t == "timestamp":
        y, mo, d, hh, mm, ss, us, off = v
        return datetime.datetime(y, mo, d, hh, mm, ss, us, tzinfo=datetime.timezone(datetime.timedelta(minutes=off)))
    if t == "duration":
        return datetime.timedelta(microseconds=v)
    if t == "list":
        return [build(x) for x in v]
    if t == "map":
        return {build(k): build(x) for k, x in v}
    raise ValueError(t)


def spell(s):
    """CEL source text of the value, or None when it has none (infinities, NaN)."""
    t, v = s
    if t == "int":
        return str(v)
    if t == "uint":
        return f"{v}u"
    if t == "double":
        f = float(v)
        return None if (f != f or math.isinf(f)) else repr(f)
    if t == "string":
        out = []
        for c in v:
            if c in (0x22, 0x5C) or c < 0x20 or 0x7F <= c <= 0x9F:
                out.append(f"\\u{c:04x}")
            else:
                out.append(chr(c))
        return '"' + "".join(out) + '"'
    if t == "bytes":
        out = []
        for c in bytes.fromhex(v):
            out.append(chr(c) if (0x20 <= c <= 0x7E and c not in (0x22, 0x5C)) else f"\\x{c:02x}")
        return 'b"' + "".join(out) + '"'
    if t == "bool":
        return "true" if v else "false"
    if t == "null":
        return "null"
    if t == "timestamp":
        y, mo, d, hh, mm, ss, us, off = v
        frac = f".{us:06d}" if us else ""
        zone = "Z" if off == 0 else f"{'+' if off > 0 else '-'}{abs(off) // 60:02d}:{abs(off) % 60:02d}"
        return f'timestamp("{y:04d}-{mo:02d}-{d:02d}T{hh:02d}:{mm:02d}:{ss:02d}{frac}{zone}")'
    if t == "duration":
        sec, us = divmod(abs(v), US)
        return f'duration("{"-" if v < 0 else ""}{sec}s' + (f"{us}us" if us else "") + '")'
    if t == "list":
        parts = [spell(x) for x in v]
        return None if None in parts else "[" + ", ".join(parts) + "]"
    if t == "map":
        parts = [(spell(k), spell(x)) for k, x in v]
        return None if any(a is None or b is None for a, b in parts) else "{" + ", ".join(f"{a}: {b}" for a, b in parts) + "}"
    raise ValueError(t)


def vclass(s):
    """Coarse operand class for signatures."""
    t, v = s
    if t in ("int", "uint"):
        lo, hi = (intarith.I_MIN, intarith.I_MAX) if t == "int" else (0, intarith.U_MAX)
        if v == lo and t == "int":
            return "MIN"
        if v == hi:
            return "MAX"
        return "neg" if v < 0 else ("zero" if v == 0 else "pos")
    if t == "double":
        f = float(v)
        if f != f:
            return "nan"
        sg = "-" if math.copysign(1, f) < 0 else "+"
        return sg + ("inf" if math.isinf(f) else ("0" if f == 0 else "fin"))
    if t == "string":
        return "empty" if not v else ("ascii" if max(v) < 0x80 else ("bmp" if max(v) < 0x10000 else "astral"))
    if t == "bytes":
        b = bytes.fromhex(v)
        return "empty" if not b else ("hi" if max(b) >= 0x80 else "lo")
    if t == "bool":
        return "t" if v else "f"
    if t == "timestamp":
        return "Z" if v[7] == 0 else ("east" if v[7] > 0 else "west")
    if t == "duration":
        return "neg" if v < 0 else ("zero" if v == 0 else "pos")
    if t == "null":
        return "null"
    if t == "list":
        return f"L{len(v)}" + ("n" if any(x[0] == "list" for x in v) else "")
    if t == "map":
        ks = [repr(k[1]) for k, _ in v]
        return f"M{len(v)}{v[0][0][0][0] if v else ''}" + ("r" if ks != sorted(ks) else "")
    raise ValueError(t)


def show(s):
    t, v = s
    if t == "string":
        return "string:" + ascii("".join(chr(c) for c in v))
    sp = spell(s)
    return sp if sp is not None else f"{t}:{v}"


# ------------------------------------------------------------------------------------------------
# one cell
# ------------------------------------------------------------------------------------------------
def ops_for(typ, path):
    return OPS if (typ in cmpref.ORDERED and path in ("bound", "literal", "rawleft", "rawright")) else EQ_OPS


def path_alpha(alpha, typ, path):
    """The values of one type a path applies to."""
    if path == "literal":
        return [s for s in alpha[typ] if spell(s) is not None]
    if path in ("rawleft", "rawright") and typ not in RAW_TYPES:
        return []
    return alpha[typ]


def fold(o):
    """'T' / 'F' for a bool value, else 'e' (anything else: error, other value, exception)."""
    if o[0] == "V" and o[1] == "bool" and isinstance(o[2], bool):
        return "T" if o[2] else "F"
    return "e"


class Cells:
    """Evaluates single cells through one path under one runner; programs are built once."""

    def __init__(self, rk, path):
        self.rk, self.path, self.progs = rk, path, {}

    def premise(self, s):
        """True iff the value reaches the comparison as the intended plain value."""
        want = to_plain(ref_of(s))
        if self.path == "literal" and s[0] == "timestamp":
            # "timestamps compare by instant regardless of the zone they were written in": how the
            # written zone is read is part of what is compared, so a spelled timestamp is never excused
            return True, None
        if self.path == "literal":
            o = celrun.evaluate(self.rk, spell(s))
        else:
            o = outcome.run(lambda: build(s), "build")
            if o[0] == "V" and (o[1], o[2]) == want and self.path in ("rawleft", "rawright"):
                o = outcome.run(lambda: build_raw(s), "build")
        return o[0] == "V" and (o[1], o[2]) == want, o

    def left(self, s):
        return build_raw(s) if self.path == "rawleft" else build(s)

    def right(self, s):
        return build_raw(s) if self.path == "rawright" else build(s)

    def eval(self, op, sa, sb, xa=None, xb=None):
        if self.path == "literal":
            return celrun.evaluate(self.rk, f"({spell(sa)}) {op} ({spell(sb)})")
        if op not in self.progs:
            self.progs[op] = celrun.Prog(self.rk, TEXT[self.path].format(op=op))
        return self.progs[op].eval({"x": self.left(sa) if xa is None else xa, "y": self.right(sb) if xb is None else xb})


def judge(part, typ, path, rk, op, sa, sb, o):
    """Compare one observed cell with the reference; returns the matrix character."""
    ra, rb = ref_of(sa), ref_of(sb)
    exp = cmpref.relation(op, ra, rb)
    ch = fold(o)
    if exp is UNSPEC:
        part.case(nontrivial=False)
        part.outcome("unspec:" + outcome.label(o))
        return ch
    part.case()
    part.outcome(f"expect:{'true' if exp else 'false'}")
    if ch == ("T" if exp else "F"):
        return ch
    rel = cmpref.rel_class(ra, rb)
    if ch == "e":
        kind = "not-a-bool:" + outcome.label(o)
    else:
        kind = "wrong-value"
    sig = f"{typ}:{op}:{PATHCLASS[path]}{rk}:{kind}" + ("" if ch == "e" else f":{rel}")
    part.violation(kind, sig, {"kind": "cell", "type": typ, "path": path, "runner": rk, "op": op, "a": sa, "b": sb},
                   f"{typ} {show(sa)} {op} {show(sb)} via {path}{rk}: expected {exp} (reference relation '{rel}', operand classes {vclass(sa)},{vclass(sb)}), got {outcome.short(o)}")
    return ch


def pair_shard(task):
    rk, path, typ, lo, hi, tier = task
    alpha = path_alpha(alphabets(tier), typ, path)
    n = len(alpha)
    part = runner.Part()
    part.rows = {}
    cells = Cells(rk, path)
    ok = []
    for s in alpha:
        good, o = cells.premise(s)
        ok.append(good)
        if not good and lo == 0:
            part.notes.append(f"premise failed, cases with this operand not judged: {typ} {show(s)} via {path}{rk} arrives as {outcome.short(o)}")
            part.extra["premise_failed_values"] += 1
    xs = [cells.left(s) if (path != "literal" and ok[i]) else None for i, s in enumerate(alpha)]
    ys = [cells.right(s) if (path != "literal" and ok[i]) else None for i, s in enumerate(alpha)]  # distinct objects from xs
    ops = ops_for(typ, path)
    for i in range(lo, hi):
        for op in ops:
            row = []
            for j in range(n):
                if not (ok[i] and ok[j]):
                    part.case(nontrivial=False, evaluations=0)
                    part.outcome("premise-failed")
                    part.extra["premise_skipped_cases"] += 1
                    row.append("u")
                    continue
                o = cells.eval(op, alpha[i], alpha[j], xs[i], ys[j])
                row.append(judge(part, typ, path, rk, op, alpha[i], alpha[j], o))
            part.rows[(typ, path, rk, op, i)] = "".join(row)
    part.space(f"{typ}-pairs:{path}{rk}", 0, (hi - lo) * n)
    if lo == 0 and path == "bound":
        part.sample({"type": typ, "path": path, "runner": rk, "ops": ops, "n_values": n,
                     "first": show(alpha[0]), "last": show(alpha[-1])}, limit=1)
    return part


# ------------------------------------------------------------------------------------------------
# reference validation against the repository's pinned expectations (soundness rule 2)
# ------------------------------------------------------------------------------------------------
_WHEN = re.compile(r"^\s*When CEL expression (.*) is evaluated\s*$")
_THEN = re.compile(r"^\s*Then value is celpy\.celtypes\.BoolType\(source=(True|False)\)\s*$")


def split_relation(text):
    """(lhs, op, rhs) for a single top-level relation, else None."""
    depth, quote, i, hits = 0, None, 0, []
    while i < len(text):
        c = text[i]
        if quote:
            if c == "\\":
                i += 2
                continue
            if text.startswith(quote, i):
                i += len(quote)
                quote = None
                continue
        elif c in "\"'":
            quote = text[i:i + 3] if text[i:i + 3] in ('"""', "'''") else c
            i += len(quote)
            continue
        elif c in "([{":
            depth += 1
        elif c in ")]}":
            depth -= 1
        elif depth == 0:
            for op in ("==", "!=", "<=", ">=", "<", ">"):
                if text.startswith(op, i):
                    hits.append((i, op))
                    i += len(op) - 1
                    break
            if c in "&|?" or text.startswith(" in ", i):
                return None
        i += 1
    if len(hits) != 1 or quote or depth:
        return None
    pos, op = hits[0]
    return text[:pos].strip(), op, text[pos + len(op):].strip()


def feature_cases():
    """(expression, pinned bool) of every scenario of features/comparisons.feature that is not
    tagged @wip and expects a bool value."""
    path = os.path.join(repo.REPO, "features", "comparisons.feature")
    if not os.path.exists(path):
        return []
    out, pending_wip, wip, expr = [], False, False, None
    for line in open(path, encoding="utf-8"):
        st = line.strip()
        if st.startswith("@"):
            pending_wip = "@wip" in st.split()
            continue
        if st.startswith("Scenario"):
            wip, pending_wip, expr = pending_wip, False, None
            continue
        m = _WHEN.match(line)
        if m:
            try:
                expr = ast.literal_eval(m.group(1))
            except Exception:  # noqa
                expr = None
            continue
        m = _THEN.match(line)
        if m and expr is not None and not wip:
            out.append((expr, m.group(1) == "True"))
        if st.startswith("Then"):
            expr = None
    return out


def validate_shard(task):
    """The reference relation must agree with every pinned `a OP b` expectation in its fragment.
    The library is used only to turn each *operand* text into a plain value."""
    part = runner.Part()
    part.rows = {}
    used = 0
    for expr, want in feature_cases():
        sp = split_relation(expr)
        if sp is None:
            continue
        lhs, op, rhs = sp
        ol, orr = celrun.evaluate("I", lhs), celrun.evaluate("I", rhs)
        if ol[0] != "V" or orr[0] != "V":
            continue
        ra, rb = from_plain(ol[1], ol[2]), from_plain(orr[1], orr[2])
        if ra is None or rb is None:
            continue
        exp = cmpref.relation(op, ra, rb)
        if exp is UNSPEC:
            continue
        used += 1
        if exp != want:
            raise runner.HarnessError(f"reference model disagrees with features/comparisons.feature: {expr!r} pinned {want}, model {exp}")
    part.extra["reference_validated_against_feature_scenarios"] = used
    if used < 100 and os.path.exists(os.path.join(repo.REPO, "features", "comparisons.feature")):
        raise runner.HarnessError(f"only {used} pinned comparison scenarios fell in the reference fragment (expected > 100)")
    return part


# ------------------------------------------------------------------------------------------------
# laws on the observed matrices
# ------------------------------------------------------------------------------------------------
def law_pass(ctx, rows, typ, path, rk, alpha):
    n = len(alpha)
    refs = [ref_of(s) for s in alpha]
    ops = ops_for(typ, path)
    cells = {}
    for op in ops:
        m = []
        for i in range(n):
            r = rows.get((typ, path, rk, op, i))
            if r is None or len(r) != n:
                raise runner.HarnessError(f"matrix row missing: {typ} {path}{rk} {op} row {i}")
            m.append([({"T": True, "F": False}.get(ch) if cmpref.relation(op, refs[i], refs[j]) is not UNSPEC else None)
                      for j, ch in enumerate(r)])
        cells[op] = m
    ordered = len(ops) == 6
    bad, inst = cmpref.check_laws(n, cells, ordered)
    # Cells the reference does not rule on (containers holding values of different types in one position, a container
    # opposite null): what == answers is not stated, but it must answer the same in both operand orders, and != must be
    # its negation (an error where == is an error).  Judged on the raw observed outcomes T / F / e.
    eqrows = [rows[(typ, path, rk, "==", i)] for i in range(n)]
    nerows = [rows[(typ, path, rk, "!=", i)] for i in range(n)] if "!=" in ops else None
    neg = {"T": "F", "F": "T", "e": "e"}
    for i in range(n):
        for j in range(n):
            if cells["=="][i][j] is not None or eqrows[i][j] not in neg:
                continue
            inst["outcome-symmetry(unspecified cells)"] = inst.get("outcome-symmetry(unspecified cells)", 0) + 1
            if i < j and eqrows[j][i] in neg and eqrows[i][j] != eqrows[j][i]:
                bad.append(("outcome of == differs between operand orders", (i, j)))
            if nerows is not None and nerows[i][j] in neg and nerows[i][j] != neg[eqrows[i][j]]:
                bad.append(("outcome of != is not the negation of ==", (i, j)))
    for law, k in inst.items():
        ctx.part.extra["law_instances_checked"] += k
        ctx.part.extra[f"law_instances:{law}"] += k
    ctx.part.space(f"{typ}-triples:{path}{rk}", n ** 3, n * n * len(cells["=="][0]))
    lp = runner.Part()  # a part of its own: the per-part cap on stored violations must not hide law witnesses
    for law, idx in bad:
        vals = [alpha[i] for i in idx]
        obs = {op: "".join(rows[(typ, path, rk, op, i)][j] for i in idx for j in idx) for op in ops}
        lp.violation("law:" + law, f"{typ}:law:{law}:{PATHCLASS[path]}{rk}",
                           {"kind": "law", "law": law, "type": typ, "path": path, "runner": rk, "vals": vals},
                           f"{typ} via {path}{rk}: law '{law}' fails on ({', '.join(show(v) for v in vals)}); observed sub-matrix rows (T/F/e) {obs}")
    ctx.part.merge(lp)


def n_tasks(n, nops, path):
    per = 500 if path == "literal" else 8000
    return max(1, min(n, -(-n * n * nops // per)))


def run(ctx):
    cmpref.selftest()
    alpha = alphabets(ctx.tier)
    for typ, vs in alpha.items():  # specs round-trip: reference value of a spec is what to_plain/from_plain carry
        for s in vs:
            p = to_plain(ref_of(s))
            if to_plain(from_plain(*p)) != p:
                raise runner.HarnessError(f"spec does not round-trip: {s}")
        if len({repr(s) for s in vs}) != len(vs):
            raise runner.HarnessError(f"duplicate value in the {typ} alphabet")
    sizes = {t: len(v) for t, v in alpha.items()}
    for typ, vs in alpha.items():  # the reference relation itself satisfies every law on these alphabets
        refs = [ref_of(s) for s in vs]
        ops = OPS if typ in cmpref.ORDERED else EQ_OPS
        bad, _ = cmpref.check_laws(len(refs), cmpref.matrix(refs, ops), typ in cmpref.ORDERED)
        if bad:
            raise runner.HarnessError(f"reference relation breaks law {bad[0]} on the {typ} alphabet")
    ctx.rule = ("per CEL type a value alphabet (" + ", ".join(f"{t} {sizes[t]}" for t in TYPES) + "; int/uint boundary values incl. 2^53+1, doubles incl. "
                "-0.0/subnormal/inf and one NaN, strings incl. NFC/NFD e-acute, U+FFFF, non-BMP, timestamps = instants each written in three zone "
                "offsets up to +-14:00 with sub-second parts, lists of length <= " + ("4" if ctx.thorough else "3") + " over {1,2} and over {[],[1]}, maps over "
                "string / int key sets with values {1,2,[1]} in several insertion orders); a case is (type, ordered pair (a, b), operator, path, runner) "
                "with operator in == != < <= > >= for ordered types and == != for list/map/null, path in {x OP y with bound variables of the celtypes classes, literal spelling "
                "(a) OP (b), x OP y with the left / the right operand bound as the plain Python base-class object (int, float, str, bytes, bool, datetime, "
                "timedelta, list, dict - what the evaluator itself returns from e.g. double + double), [x] OP [y], {\"k\": x} OP {\"k\": y}} (the wrapped "
                "paths only for == and !=), both runners; distinct by construction. "
                "A case is non-trivial iff the reference relation is defined for it: same-type values, no NaN, no comparison of two "
                "values of different CEL types inside containers (those are UNSPEC, counted, not compared with the reference; their == must still answer alike in both operand orders and != be its negation). Each observed matrix is then "
                "checked against the coherence laws over every pair and every triple (bit-set row inclusion = the triple loop).")
    ctx.assumptions = ["values outside the alphabets are not explored",
                       "timestamps are built by the library's own constructors from RFC 3339 text or integer fields and carry UTC or a fixed whole-minute offset; host-supplied datetimes carrying other tzinfo objects (ZoneInfo zones at DST folds, offsets with seconds) are not explored",
                       "`>=` is judged as the mirror of `<=` (the statement names only < > <= ==)",
                       "operands are constructed from datetime/timedelta objects (bound paths) or spelled with timestamp()/duration() (literal path); a value "
                       "that does not arrive as the intended plain value is excluded (premise_failed_values) - conversion is C11/C12's concern",
                       "an operand of the plain Python base class (float, str, list, ... as returned by the library's own +, and as pinned by tests/test_celtypes.py "
                       "`IntType(\"42\") == 42`) counts as a value of the corresponding CEL type (rawleft / rawright paths; uint and null have no such form)",
                       "infinities and NaN have no literal spelling and are absent from the literal path",
                       "ordering operators on list, map and null values are not enumerated (outside the property)"]
    rows = {}
    combos = []
    for rk in ("I", "C"):
        tasks = []
        if rk == "I":
            tasks.append(("validate",))
        for path in PATHS:
            for typ in TYPES:
                n = len(path_alpha(alpha, typ, path))
                if n == 0:
                    continue
                combos.append((typ, path, rk, n))
                for lo, hi in runner.shards(n, n_tasks(n, len(ops_for(typ, path)), path)):
                    tasks.append((rk, path, typ, lo, hi, ctx.tier))
        # interpreter-kind and compiled-kind environments never share a process (DESIGN 2.6)
        for p in runner.pmap(_dispatch, tasks):
            ctx.part.merge(p)
            rows.update(p.rows)
    expected = 0
    for typ, path, rk, n in combos:
        ctx.part.spaces[f"{typ}-pairs:{path}{rk}"]["cardinality"] = n * n
        expected += n * n * len(ops_for(typ, path))
        law_pass(ctx, rows, typ, path, rk, path_alpha(alpha, typ, path))
    from .. import pairhist
    expected += pairhist.run(ctx, __name__)
    ctx.rule += (" Pair histories: every comparison of a %d-term alphabet (well-typed ones beside comparisons of values of different types, both runners) alone and after "
                 "every other one in the same process, started from the pristine process state; its answer must be the reference answer and the answer it gives alone." % len(ph_terms()))
    skipped = ctx.part.extra.get("premise_skipped_cases", 0)
    ctx.coverage_extra["expected_cases"] = expected
    if ctx.part.evaluations + skipped != expected:
        raise runner.HarnessError(f"enumerated {ctx.part.evaluations} (+{skipped} premise-skipped) cases, cardinality is {expected}")
    if skipped * 10 > expected:
        raise runner.HarnessError(f"{skipped} of {expected} cases lost to failed premises: the alphabets do not reach the comparison")


def _dispatch(task):
    return validate_shard(task) if task[0] == "validate" else pair_shard(task)


# ---- pair histories: a comparison alone and after every other comparison in one process (mc/pairhist.py) ----------
# The alphabet holds well-typed comparisons (whose reference answer is known) next to comparisons of values of
# different types (on which the property is silent): a memo, a dispatch table or a cached decision filled in by
# the one must not change the answer of the other.
PH_TEXTS = [
    ("0.0 == 0.0", True), ("1.5 == 2.5", False), ("0.0 != 0.0", False), ("1.5 < 2.5", True), ("1 == 1", True), ("2 == 3", False), ("1 < 2", True), ("2 != 3", True),
    ("1u == 1u", True), ("1u < 2u", True), ('"a" == "a"', True), ('"a" < "b"', True), ('b"a" == b"a"', True), ("true == true", True), ("false < true", True),
    ("null == null", True), ("[1] == [1]", True), ("[0.0] == [0.0]", True), ('{"a": 1} == {"a": 1}', True), ('{"a": 0.5} != {"a": 0.5}', False),
    ('timestamp("2020-01-01T00:00:00Z") == timestamp("2020-01-01T01:00:00+01:00")', True), ('duration("60s") == duration("1m")', True),
    ("1 == 2.5", None), ("2.5 == 1", None), ("1 != 2.5", None), ("1 < 2.5", None), ("2.5 < 1", None), ("1 == 1u", None), ("1u == 1", None), ('"a" == 1', None), ('1 == "a"', None),
    ('b"a" == "a"', None), ("true == 1", None), ("1 == true", None), ("null == 1", None), ("1 == null", None), ("[1] == [1.0]", None), ('{"a": 1} == {"a": 1.0}', None),
    ("[1] == 1", None), ('timestamp("2020-01-01T00:00:00Z") == duration("1s")', None),
]


def ph_terms():
    return [[rk, text] for rk in ("I", "C") for text, _ in PH_TEXTS]


def ph_step(term):
    from .. import pairhist
    return pairhist.cel_step(term[0], term[1])


def ph_expected(term):
    exp = dict(PH_TEXTS)[term[1]]
    return None if exp is None else ("V", "bool", exp)


def ph_label(term):
    return f"[{term[0]}] {term[1]}"


def ph_outcome_label(o):
    return outcome.label(o) if o and o[0] in "VEPX" else str(o)


# ------------------------------------------------------------------------------------------------
def replay(w):
    wit = w["witness"]
    if wit.get("space") == "pairhist":
        from .. import pairhist
        return pairhist.replay(w)
    typ, path, rk = wit["type"], wit["path"], wit["runner"]
    cells = Cells(rk, path)
    print("replaying", {k: v for k, v in wit.items() if k not in ("a", "b", "vals")})
    if wit["kind"] == "cell":
        sa, sb, op = wit["a"], wit["b"], wit["op"]
        exp = cmpref.relation(op, ref_of(sa), ref_of(sb))
        text = f"({spell(sa)}) {op} ({spell(sb)})" if path == "literal" else TEXT[path].format(op=op) + f"   with x = {show(sa)}, y = {show(sb)}"
        o = cells.eval(op, sa, sb)
        print(f"  {text}\n  expected {exp} (reference relation '{cmpref.rel_class(ref_of(sa), ref_of(sb))}'), runner {rk} gives {outcome.short(o)}")
        bad = exp is not UNSPEC and fold(o) != ("T" if exp else "F")
    else:
        vals = wit["vals"]
        refs = [ref_of(s) for s in vals]
        n = len(vals)
        ops = ops_for(typ, path)
        obs = {}
        for op in ops:
            m = []
            for i in range(n):
                row = []
                for j in range(n):
                    ch = fold(cells.eval(op, vals[i], vals[j]))
                    row.append({"T": True, "F": False}.get(ch) if cmpref.relation(op, refs[i], refs[j]) is not UNSPEC else None)
                m.append(row)
            obs[op] = m
        for i, s in enumerate(vals):
            print(f"  v{i} = {show(s)}")
        for op in ops:
            print(f"  observed {op:2}: {obs[op]}")
        found, _ = cmpref.check_laws(n, obs, len(ops) == 6)
        print("  laws violated on these values:", sorted({v[0] for v in found}) or "none", "- witness law:", wit["law"])
        bad = any(v[0] == wit["law"] for v in found)
    print("REPRODUCED" if bad else "not reproduced")
    return 1 if bad else 0
