"""Shim: the helper lives in mc/bigframe.py (runner.pmap applies it to every shard)."""
from ..bigframe import SLOTS, call, prepare  # noqa: F401
