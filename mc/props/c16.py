"""C16 Concurrent evaluations in separate environments do not interfere (DESIGN.md section 3, C16).

Stateless preemption-bounded exploration (engine E3) of 2-3 real threads, each creating its own
Environment and program and evaluating it repeatedly; every execution runs in a fresh fork of a
pristine (cold) or warmed zygote; oracle: each thread's result vector equals its solo vector.
"""
import collections
import json
import os
import subprocess
import sys

from .. import outcome, repo, runner
from ..explore import sched

LEVEL = "model_checking"

# (expression, [bindings...]) per thread; chosen so that everything collides (same scratch names
# ex_N.., same variable names) and every cross-combination differs from the solo result.
# Threads 0 and 1 run the SAME expression text (so anything keyed by source text, generated code or
# AST collides) with different bindings, patterns and strings (so anything keyed too coarsely, or
# holding "the last" pattern / activation / result, collides observably); thread 2 runs a different
# text.  Every program has short-circuit operators, a conditional, a macro, a regular expression and
# a size(), i.e. it defines the same scratch names ex_N.. with different meanings per thread.
RICH = '([1, 2].exists(v, v == x) || s.matches(p)) ? h(x) * 10 + size(s) : ((x > 1 && y) ? x.h() + 100 : h(x) + 200)'
DEEP_LEVELS = {"I": 40, "C": 60}     # nesting that needs the raised recursion limit under that runner (default limit: 28 / 48 levels)


def h0(x):          # module-level host functions: threads 0 and 1 bind DIFFERENT functions under the same CEL name
    import celpy.celtypes as ct
    return ct.IntType(int(x) + 1)


def h1(x):
    import celpy.celtypes as ct
    return ct.IntType(int(x) + 3)


def _h2():
    import celpy.celtypes as ct
    return lambda x: ct.IntType(int(x) + 5)


THREADS = [
    (RICH, [{"x": 1, "y": False, "s": "keep", "p": "^ke+p$"}, {"x": 5, "y": True, "s": "drop", "p": "^k"}], "h0"),
    (RICH, [{"x": 7, "y": True, "s": "dropped", "p": "^dr.p"}, {"x": 0, "y": True, "s": "kk", "p": "^k$"}], "h1"),
    ('[3, 6].exists(v, v == x) ? h(x) + 1000 : (s.matches(p) && y ? h(x) + 2000 : x.h() + 3000)', [{"x": 6, "y": True, "s": "abc", "p": "b"}, {"x": 4, "y": True, "s": "abc", "p": "^b"}], "h2"),
    # a deeply nested expression: only evaluable while the process-wide recursion limit is the one the library raises
    ("DEEP", [{"x": 41, "y": True, "s": "zz", "p": "^z"}, {"x": 43, "y": False, "s": "zzz", "p": "z$"}], None),
    # thread 1's program with thread 0's host function: beside thread 0 the two programs are identical down to the
    # generated code (anything keyed by generated text collides), only the bindings differ
    (RICH, [{"x": 7, "y": True, "s": "dropped", "p": "^dr.p"}, {"x": 0, "y": True, "s": "kk", "p": "^k$"}], "h0"),
    # two short programs whose meaning hangs on the lexer callback that turns the identifiers true / false into
    # literals: beside each other under switch points INSIDE lark's lazily built per-state scanners (granularity "codes")
    ("y==true?x+11:x+12", [{"x": 100, "y": True, "s": "q", "p": "^q"}, {"x": 200, "y": False, "s": "qq", "p": "q$"}], None),
    ("y!=false?x*3:x*5", [{"x": 70, "y": False, "s": "r", "p": "^r"}, {"x": 90, "y": True, "s": "rr", "p": "r$"}], None),
    # the same idea with three tokens each, so that three preemptions stay cheap enough for the quick tier
    ("y==true", [{"x": 1, "y": True, "s": "q", "p": "^q"}, {"x": 2, "y": False, "s": "qq", "p": "q$"}], None),
    ("y==false", [{"x": 3, "y": False, "s": "r", "p": "^r"}, {"x": 4, "y": True, "s": "rr", "p": "r$"}], None),
]


def expr_of(tidx, kind):
    e = THREADS[tidx][0]
    if e == "DEEP":
        n = DEEP_LEVELS[kind]
        return "(" * n + "x" + ")" * n + " + 1"
    return e


def functions_of(tidx):
    name = THREADS[tidx][2]
    if name is None:
        return None
    return {"h": {"h0": h0, "h1": h1}[name] if name in ("h0", "h1") else _h2()}


def opcode_objects():
    """Code objects explored at byte-code granularity: the functions that touch process-wide state."""
    import celpy
    import celpy.celparser
    import celpy.evaluation
    return [celpy.evaluation.Transpiler.evaluate.__code__, celpy.celparser.CELParser.__init__.__code__, celpy.celparser.CELParser.parse.__code__,
            celpy.Environment.__init__.__code__]


def lexer_codes():
    """Code objects of the third-party functions that build shared state lazily on behalf of every Environment:
    lark's per-state lexer builds its scanner and its callback table on first use, and the parser object is the
    process-wide singleton.  Under granularity "codes" every line of these functions is a switch point."""
    from lark import lexer
    return [lexer.BasicLexer.scanner.fget.__code__, lexer.BasicLexer._build_scanner.__code__]


def to_cel(b):
    import celpy.celtypes as ct
    return {k: (ct.BoolType(v) if isinstance(v, bool) else (ct.StringType(v) if isinstance(v, str) else ct.IntType(v))) for k, v in b.items()}


def make_body(tidx, kind, nevals, phase):
    expr, binds = expr_of(tidx, kind), THREADS[tidx][1]

    def body():
        import celpy
        R = celpy.CompiledRunner if kind == "C" else celpy.InterpretedRunner
        out = []
        phase[0] = "build"
        try:
            env = celpy.Environment(runner_class=R)
            prog = env.program(env.compile(expr), functions=functions_of(tidx))
        except Exception as ex:  # noqa
            return [outcome.of_exception(ex, "program")] * nevals
        phase[0] = "eval"
        for b in binds[:nevals]:
            out.append(outcome.run(lambda: prog.evaluate(to_cel(b)), "evaluate"))
        phase[0] = "done"
        return out

    return body


def solo(tidx, kind, nevals):
    return make_body(tidx, kind, nevals, [None])()


def warm_up(warm):
    import celpy
    repo.memoise_lark()
    sched.interpose_library_locks()     # before the snapshot: the library's own locks (none on the pinned tree) become cooperative
    for k in warm:
        celpy.Environment(runner_class=celpy.CompiledRunner if k == "C" else celpy.InterpretedRunner)


_WORKER = {"cfg": None, "snap": None, "seq": 0}


def exec_batch(cfg, prefixes):
    """Run the schedules of a batch one after the other in THIS process, the library's
    process-wide state being restored to the snapshot taken after warm-up between them.
    On first use in a process the bodies are run once untraced and the state restored, which only
    warms interpreter-level caches (a cold traced run costs seconds after a fork)."""
    from ..explore import procstate
    mix, nevals, warm, opcode, gran, only, tids = cfg
    if _WORKER["cfg"] is None:
        warm_up(warm)
        snap = procstate.snapshot()
        for i, k in zip(tids, mix):
            make_body(i, k, nevals, [None])()
        procstate.restore(snap)
        _WORKER.update(cfg=cfg, snap=snap)
    elif _WORKER["cfg"] != cfg:
        raise runner.HarnessError("a worker process serves exactly one configuration")
    snap = _WORKER["snap"]
    out = []
    for prefix in prefixes:
        phases = [[None] for _ in mix]
        bodies = [make_body(t, k, nevals, phases[i]) for i, (t, k) in enumerate(zip(tids, mix))]
        res = sched.execute(bodies, prefix, opcode_code_objects=opcode_objects() if opcode else (), phases=phases, granularity=gran, only_phase=only,
                            line_codes=lexer_codes() if gran == "codes" else ())
        res["left_behind"] = procstate.restore(snap)
        out.append(res)
    _WORKER["seq"] += 1
    return os.getpid(), _WORKER["seq"], out


def run_batch_worker(task):
    """In a long-lived pool worker (forked from the pristine parent for this configuration)."""
    cfg, prefixes = task
    return exec_batch(cfg, prefixes)


def run_batch(task):
    """In a fresh fork of the parent: used for the root, confirmations and replays."""
    cfg, prefixes = task
    status, res = sched.run_in_fork(exec_batch, cfg, prefixes)
    if status != "ok":
        raise runner.HarnessError(f"schedule execution crashed: {res}")
    return res[2]


def run_schedule(task):
    cfg, prefix = task
    return run_batch((cfg, [prefix]))[0]


BATCH = 60
CONFIRM_CAP = 12


def solo_task(task):
    tidx, kind, nevals, warm = task

    def f():
        warm_up(warm)
        return solo(tidx, kind, nevals)

    status, res = sched.run_in_fork(f)
    if status != "ok":
        raise runner.HarnessError(f"solo crashed: {res}")
    return res


def solo_subprocess(tidx, kind, nevals):
    env = dict(os.environ, PYTHONPATH=runner.VERIF, PYTHONHASHSEED="0")
    out = subprocess.run([sys.executable, "-m", "mc.props.c16", "--solo", str(tidx), kind, str(nevals)], capture_output=True, text=True, env=env, cwd=runner.VERIF)
    if out.returncode != 0:
        raise runner.HarnessError(f"solo subprocess failed: {out.stderr[-500:]}")
    return [tuple(tuple(x) if isinstance(x, list) else x for x in o) for o in json.loads(out.stdout.strip().splitlines()[-1])]


def where(w):
    return f"{os.path.basename(w[0])}:{w[1]}" if isinstance(w, tuple) else str(w)


def in_window(which):
    def w(i, pt):
        return True
    return w


def vec_of(res):
    return tuple(tuple(r[1]) if r and r[0] == "ok" else (("THREAD-EXC",) + tuple(r[1:]) if r else None) for r in res["results"])


def first_bad(mix, vec, solos, tids=None):
    for pos, (k, r) in enumerate(zip(mix, vec)):
        t = pos if tids is None else tids[pos]
        if r != solos[(t, k)]:
            return t, k, r
    return None


def explore(ctx, cfg, bound, solos, label, cap=None, window="all"):
    """Iterative context bounding for one configuration; returns counters."""
    mix, nevals, warm, opcode, gran, only, tids = cfg
    frontier = [[]]
    executed = 0
    vectors = collections.Counter()
    maxpoints = 0
    viol = 0
    depth = 0
    transitions = 0
    capped = False
    slow_runs = 0
    unconfirmed_after_cap = 0
    leftovers = collections.Counter()
    while frontier:
        if cap is not None and executed + len(frontier) > cap:
            frontier = frontier[: max(0, cap - executed)]
            capped = True
            if not frontier:
                break
        batches = [frontier[i:i + BATCH] for i in range(0, len(frontier), BATCH)]
        raw = runner.pmap(run_batch_worker, [(cfg, b) for b in batches])
        results = [r for (_pid, _seq, rs) in raw for r in rs]
        by_worker = collections.defaultdict(list)
        for (pid, seq, _rs), b in zip(raw, batches):
            by_worker[pid].append((seq, b))
        where_run = {}
        for (pid, seq, _rs), b in zip(raw, batches):
            for j, pfx in enumerate(b):
                where_run[tuple(pfx)] = (pid, seq, j)
        nxt = []
        for prefix, res in zip(frontier, results):
            executed += 1
            if res["error"]:
                raise runner.HarnessError(f"{label}: schedule {prefix}: {res['error']}")
            transitions += len(res["points"])
            maxpoints = max(maxpoints, len(res["points"]))
            vec = vec_of(res)
            vectors[vec] += 1
            if res.get("left_behind"):
                leftovers.update(res["left_behind"])
            if res.get("slow"):
                slow_runs += 1
            ctx.part.outcome('|'.join(','.join(outcome.short(o) if isinstance(o, tuple) and o and o[0] in 'VEXP' else str(o) for o in (r or ())) for r in vec)[:150])
            bad = first_bad(mix, vec, solos, tids)
            if bad is not None and viol >= CONFIRM_CAP:
                # enough confirmed witnesses for this configuration: further violating schedules are counted, not re-confirmed
                # (each confirmation is two fresh forks; a broken tree yields thousands of violating schedules)
                viol += 1
                unconfirmed_after_cap += 1
            elif bad is not None:
                viol += 1
                t, k, r = bad
                # confirm from a pristine fork: the schedule alone, twice
                c1 = run_schedule((cfg, res["choices"]))
                c2 = run_schedule((cfg, res["choices"]))
                v1, v2 = vec_of(c1), vec_of(c2)
                witness = {"mix": list(mix), "nevals": nevals, "warm": list(warm), "opcode": opcode, "granularity": gran, "only_phase": only, "tids": list(tids), "schedule": res["choices"], "thread": t}
                if v1 != v2:
                    raise runner.HarnessError(f"{label}: schedule replay is not deterministic: {v1} vs {v2}")
                if first_bad(mix, v1, solos, tids) is None:
                    # only fails after the earlier schedules of its batch: report the whole batch history
                    pid, seq, j = where_run[tuple(prefix)]
                    hist = []
                    for sq, b in sorted(by_worker[pid]):
                        if sq < seq:
                            hist.extend(b)
                        elif sq == seq:
                            hist.extend(b[: j + 1])
                    h1 = run_batch((cfg, hist))[-1]
                    if first_bad(mix, vec_of(h1), solos, tids) is None:
                        raise runner.HarnessError(f"{label}: violation at schedule {prefix} reproduces neither alone nor after its worker's history")
                    witness["history"] = hist
                    witness["left_behind"] = h1.get("left_behind")
                    cls0 = "after-history:"
                else:
                    cls0 = ""
                pts = res["points"]
                sw = [where(pts[i][3]) for i, c in enumerate(res["choices"]) if c != 0 and pts[i][1]]
                got = [outcome.short(o) if isinstance(o, tuple) and o and o[0] in "VEXP" else repr(o) for o in (r or [])]
                exp = [outcome.short(o) for o in solos[(t, k)]]
                cls = cls0 + ("thread-exception" if (r and r[0] == "THREAD-EXC") else ("X-outcome" if any(isinstance(o, tuple) and o and o[0] == "X" for o in (r or [])) else "wrong-result"))
                ctx.part.violation(
                    cls, f"mix={''.join(mix)}{'' if tids == tuple(range(len(mix))) else '/threads=' + ','.join(map(str, tids))}:warm={''.join(warm) or '-'}:{cls}:preempt@{','.join(sw) or 'none'}", witness,
                    f"thread {t} ({k}, {expr_of(t, k)[:90]!r}) returned {got}, solo gives {exp}; preemptions at {sw}; schedule has {len(res['choices'])} points")
            nxt.extend(sched.children(res, len(prefix), bound, window=(None if window == "all" else (lambda i, pt: pt[4] == window))))
        frontier = nxt
        depth += 1
    return dict(executed=executed, vectors=len(vectors), maxpoints=maxpoints, violations=viol, violating_schedules_not_reconfirmed=unconfirmed_after_cap, transitions=transitions, capped=capped, slow_executions=slow_runs, state_left_behind=dict(leftovers.most_common(12)))


def run(ctx):
    repo.prebuild_parsers()
    nevals = 2
    configs = []
    # (mix, warm, preemption bound, opcode events, window for preemption placement, switch-point granularity)
    if ctx.thorough:
        plan = [
            (("C", "C"), (), 1, False, "all", "line"), (("C", "I"), (), 1, False, "all", "line"), (("I", "C"), (), 1, False, "all", "line"), (("I", "I"), (), 1, False, "eval", "line"),
            (("C", "C"), ("C",), 1, False, "all", "line"), (("C", "I"), ("I",), 1, False, "eval", "line"), (("C", "I"), ("C",), 1, False, "eval", "line"),
            # two and three preemptions inside the evaluate phase, at function entries up to a stack depth (see "shallow:K")
            (("C", "C"), ("C",), 2, False, "eval", "shallow:8"), (("C", "I"), (), 2, False, "eval", "shallow:8"), (("I", "I"), (), 2, False, "eval", "shallow:6"),
            (("I", "I"), (), 2, False, "all", "shallow:4"), (("C", "C"), ("C",), 3, False, "eval", "shallow:4"),
            (("C", "C", "I"), (), 1, False, "eval", "call"), (("C", "C", "C"), ("C",), 1, False, "eval", "call"),
            (("C", "C"), ("C",), 1, True, "eval", "line"), (("I", "I"), (), 1, False, "eval", "call"),
            (("C", "C"), (), 1, False, "eval", "line", (0, 4)), (("C", "C"), ("C",), 1, False, "all", "call", (0, 4)),
            # the deep thread (3) beside a rich one: API-level switch points, higher bounds
            (("I", "I"), (), 3, False, "all", "shallow:2", (0, 3)), (("C", "C"), (), 3, False, "all", "shallow:2", (0, 3)), (("I", "C"), (), 2, False, "all", "shallow:3", (3, 1)),
            (("I", "I"), (), 2, False, "all", "shallow:3", (0, 3)),
            (("I", "I"), (), 1, False, "eval", "call", (0, 3)), (("C", "C"), (), 1, False, "all", "call", (1, 3)),
            # switch points inside lark's lazily built lexer scanners, parser already published by an earlier Environment
            (("I", "I"), ("I",), 3, False, "all", "codes", (5, 6)), (("C", "C"), ("C",), 3, False, "all", "codes", (5, 6)), (("C", "C"), ("C",), 3, False, "all", "codes", (6, 5)),
            (("I", "I", "I"), ("I",), 2, False, "all", "codes", (5, 6, 5)),
            (("I", "I"), ("I",), 3, False, "all", "codes", (7, 8)), (("C", "C"), ("C",), 3, False, "all", "codes", (8, 7)), (("I", "I", "I"), ("I",), 3, False, "all", "codes", (7, 8, 7)),
        ]
    else:
        plan = [
            (("C", "C"), (), 1, False, "all", "call"),
            (("C", "I"), (), 1, False, "all", "call"),
            (("C", "C"), (), 1, False, "eval", "line", (0, 4)),
            (("I", "I"), (), 0, False, "all", "call"),
            (("C", "C", "I"), (), 0, False, "all", "call"),
            # the deep thread (3) beside a rich one: API-level switch points (an API function and what it calls directly), two preemptions
            (("I", "I"), (), 2, False, "all", "shallow:2", (0, 3)),
            (("C", "C"), (), 2, False, "all", "shallow:2", (0, 3)),
            # switch points inside lark's lazily built lexer scanners (third-party code shared through the parser singleton),
            # parser already published by an earlier Environment, three preemptions
            (("I", "I"), ("I",), 3, False, "all", "codes", (7, 8)),
            (("C", "C"), ("C",), 3, False, "all", "codes", (8, 7)),
        ]
    # solo references: fresh fork, cross-checked against a fresh python subprocess
    solos = {}
    validated = 0
    for t in range(len(THREADS)):
        for k in ("I", "C"):
            ref = tuple(solo_subprocess(t, k, nevals))
            for warm in {e[1] for e in plan}:
                got = tuple(runner.pmap(solo_task, [(t, k, nevals, warm)], nproc=1)[0])
                # a warm zygote of the *other* kind may legitimately differ only if the tree is broken; compare anyway
                if got != ref and not warm:
                    raise runner.HarnessError(f"fork-solo of thread {t}/{k} differs from subprocess-solo: {got} vs {ref}")
                validated += 1
            solos[(t, k)] = ref
            if any(o[0] != "V" for o in ref):
                raise runner.HarnessError(f"solo run of thread {t}/{k} does not produce values: {ref}")
    # forced-collision check: program i on thread j's bindings, and program j on thread i's bindings,
    # must both differ from thread i's own result (brute force over the cross combinations)
    side_by_side = set()
    for entry in plan:
        tids_ = tuple(entry[6]) if len(entry) > 6 else tuple(range(len(entry[0])))
        side_by_side.update((a, b) for a in tids_ for b in tids_ if a != b)

    def collisions():
        import celpy
        out = {}

        def ev(expr, b, fn_of):
            env = celpy.Environment()
            return outcome.run(lambda: env.program(env.compile(expr), functions=functions_of(fn_of)).evaluate(to_cel(b)))
        for i in range(len(THREADS)):
            for j in range(len(THREADS)):
                if i == j or THREADS[i][1] == THREADS[j][1] or (i, j) not in side_by_side:
                    continue                                   # (only threads that some configuration runs side by side)
                e, e2, bi, bj = expr_of(i, "I"), expr_of(j, "I"), THREADS[i][1], THREADS[j][1]
                for n in range(nevals):
                    other_fn = THREADS[i][2] and THREADS[j][2] and THREADS[i][2] != THREADS[j][2]
                    out[(i, j, n)] = (ev(e, bi[n], i), ev(e, bj[n], i), ev(e2, bi[n], j), ev(e, bi[n], j) if other_fn else None)
        return out
    status, table = sched.run_in_fork(collisions)          # one fork: the parent stays free of Environments
    if status != "ok":
        raise runner.HarnessError(f"collision check crashed: {table}")
    for (i, j, n), (a, b, c, d) in table.items():
        e, e2 = expr_of(i, "I"), expr_of(j, "I")
        if a == b or (e2 != e and a == c) or a == d:
            raise runner.HarnessError(f"threads {i} and {j} do not collide observably for {e[:80]!r}: {a} {b} {c} {d}")
    total_exec = total_trans = 0
    distinct = set()
    per_cfg = {}
    only = os.environ.get("VERIF_C16_ONLY")          # debugging aid: comma-separated indices into the plan
    if only:
        plan = [plan[int(i)] for i in only.split(",")]
    import time
    for entry in plan:
        t0 = time.time()
        mix, warm, bound, opcode, window, gran = entry[:6]
        tids = tuple(entry[6]) if len(entry) > 6 else tuple(range(len(mix)))
        cfg = (mix, nevals if ((gran == "call" and bound < 2) or gran.startswith("shallow")) else 1, warm, opcode, gran, (window if window != "all" else None), tids)
        label = f"{''.join(mix)}{'' if tids == tuple(range(len(mix))) else '[threads ' + ','.join(map(str, tids)) + ']'}/warm={''.join(warm) or '-'}/bound={bound}/window={window}/{gran}{'+opcode' if opcode else ''}"
        st = explore(ctx, cfg, bound, solos if cfg[1] == nevals else {k: v[:cfg[1]] for k, v in solos.items()}, label, window=window)
        st["wall_s"] = round(time.time() - t0, 1)
        per_cfg[label] = st
        sys.stderr.write(f"[C16] {label}: executed={st['executed']} maxpoints={st['maxpoints']} vectors={st['vectors']} wall={st['wall_s']}s\n")
        total_exec += st["executed"]
        total_trans += st["transitions"]
        ctx.part.case(nontrivial=True, n=st["executed"])
        ctx.part.space(label, st["executed"], st["executed"], bound=f"{bound} preemption(s)")
    ctx.part.sample({"threads": [{"expr": expr_of(i, "I")[:120], "bindings": t[1][:nevals], "host_function_h": t[2]} for i, t in enumerate(THREADS)], "example_schedule": "choice list, one entry per scheduling point; 0 = keep running the current thread"})
    ctx.part.sample({"configurations": per_cfg})
    ctx.rule = ("an execution is one complete schedule of the thread bodies (create Environment, compile, program, evaluate twice) in a fresh fork; "
                "all schedules with at most the stated number of preemptions, placed at every Python line (granularity line) or at every function entry (granularity call) inside celpy/*.py and the generated module, are enumerated per "
                "configuration (runner mix x cold/warm parser state); each execution is non-trivial (its result vectors are compared with the solo vectors)")
    ctx.assumptions = ["switch points are Python line events inside the library and generated code (opcode events in the listed functions for the opcode configuration); C-level callee internals are atomic under the GIL",
                       "2-3 threads, two evaluations each; preemption bound as stated per configuration; granularity shallow:K = function entries with fewer than K library frames beneath them",
                       "lark.Lark construction memoised by the harness (the check-then-create logic stays the library's own)",
                       "locks held at module / class level of the library (and locks it creates through its own `threading` name) are replaced by cooperative ones: a failed acquisition hands the baton on (forced switch, no preemption cost); all threads blocked = deadlock"]
    ctx.coverage_extra.update({
        "states": total_trans, "transitions": total_trans, "schedules": total_exec,
        "traces_validated_against_impl": total_exec + validated,
        "per_configuration": per_cfg,
        "explanation_states": "stateless exploration: 'states' counts scheduling points visited over all executions (no state hashing), 'schedules' complete executions",
    })


def subprocess_free_eval(expr, b, fn_of=None):
    """Evaluate in a fork (keeps the parent free of Environments)."""
    def f():
        import celpy
        env = celpy.Environment()
        return outcome.run(lambda: env.program(env.compile(expr), functions=None if fn_of is None else functions_of(fn_of)).evaluate(to_cel(b)))
    return sched.run_in_fork(f)[1]


def replay(w):
    wit = w["witness"]
    repo.prebuild_parsers()
    cfg = (tuple(wit["mix"]), wit["nevals"], tuple(wit["warm"]), wit["opcode"], wit.get("granularity", "line"), wit.get("only_phase"),
           tuple(wit.get("tids", range(len(wit["mix"])))))
    outs = []
    for _ in range(2):
        res = run_schedule((cfg, wit["schedule"]))
        outs.append(res["results"])
    t = wit["thread"]
    pos = cfg[6].index(t)
    ref = solo_subprocess(t, wit["mix"][pos], wit["nevals"])
    print("schedule of", len(wit["schedule"]), "points; thread", t, "solo:", [outcome.short(o) for o in ref])
    print("run 1:", outs[0][pos])
    print("run 2:", outs[1][pos])
    if outs[0] != outs[1]:
        print("HARNESS-ERROR replay not deterministic")
        return 3
    r = outs[0][pos]
    bad = not (r and r[0] == "ok" and tuple(tuple(o) for o in r[1]) == tuple(tuple(o) for o in ref))
    print("REPRODUCED" if bad else "not reproduced")
    return 1 if bad else 0


if __name__ == "__main__":
    if len(sys.argv) >= 5 and sys.argv[1] == "--solo":
        repo.load()
        print(json.dumps(solo(int(sys.argv[2]), sys.argv[3], int(sys.argv[4]))))
