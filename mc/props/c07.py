"""C07 Literals denote the values they spell (DESIGN.md section 3, C07).

Bounded-exhaustive, both runners (separate worker groups):

* encode direction -- every string over A_s / byte string over A_b up to a length bound, spelled by
  ``litcodec.encode`` in each of the 8 quoting styles that can represent it under each escaping strategy
  (cooked: minimal, \\uHHHH/\\UHHHHHHHH, \\xHH/\\U, octal, named; raw: verbatim); every string over A_s
  (shorter bound) as the body of a *bytes* literal (expected: its UTF-8 octets);
* decode direction -- every body over a 12-character source alphabet up to a length bound in each of the
  16 contexts (string/bytes x cooked/raw x 4 delimiters); ``litcodec.decode`` decides legality and value,
  bodies that are not legal CEL (or on which the statement is silent) are UNSPEC: counted, not run;
* fixed forms -- every escape of the statement, hex-digit case, every prefix spelling (r R b B br bR Br BR);
* numbers -- int64 / uint64 boundary alphabets in decimal and 0x spelling, sign, 0-2 leading zeros, hex
  digit case, u/U; values just outside each range (evaluation error demanded, never a value); finite
  doubles in 12-15 spellings each, bit-exact against a Fraction-rounded reading of the text.
"""
import ast
import math
import os
import re
import struct

from .. import celrun, outcome, repo, runner
from ..ref import UNSPEC, intarith, litcodec

LEVEL = "exploration"

A_S = ["a", "0", "7", "x", "u", "n", '"', "'", "\\", "\n", "\r", "\t", "\x00", "é", "￿", "\U0001f600"]
A_B = [0x00, 0x0A, 0x22, 0x27, 0x41, 0x5C, 0x7F, 0x80, 0xC3, 0xFF]
A_SRC = ["\\", "n", "x", "u", "U", "0", "3", "7", "8", "a", '"', "'"]
PREFIXES = ["", "r", "R", "b", "B", "br", "bR", "Br", "BR"]
FIXED_BODIES = (["\\" + c for c in "abfnrtv\\\"'"] + ["a\\v7", "\\xaB", "\\xAb", "\\uAbCd", "\\uabcd", "\\u0000", "\\uFFFF", "\\u00e9",
                "\\U0001f600", "\\U0001F600", "\\U0010FFFF", "\\U00000041", "\\000", "\\377", "\\0010", "\\x7f8", "\\u00410", "\\?", "\\`", "\\X41",
                "\\400", "\\ud800", "\\U00110000", "é", "\U0001f600", "a\tb", "\\\\n", "\\\\\\n"])
BOUNDS = {"quick": {"enc-string": 3, "enc-bytes": 3, "enc-text-as-bytes": 2, "dec": 4},
          "thorough": {"enc-string": 4, "enc-bytes": 4, "enc-text-as-bytes": 3, "dec": 5}}
QUICK_KS = (7, 8, 15, 16, 31, 32, 53, 62)

D_FINITE = [0.0, 5e-324, 2.2250738585072014e-308, 0.5, 1.0, 1.5, 3.0, 2.0 ** 53, 1e308, 1.7976931348623157e308]
D_FINITE = D_FINITE + [-v for v in D_FINITE]
OUT_I = [2 ** 63, 2 ** 63 + 1, 2 ** 64 - 1, 2 ** 64, 2 ** 64 + 1, 2 ** 64 + 2 ** 63, 2 ** 65, 10 ** 19, 10 ** 30,
         -(2 ** 63) - 1, -(2 ** 63) - 2, -(2 ** 64) + 1, -(2 ** 64), -(2 ** 64) - 1, -(10 ** 19), -(10 ** 30)]
OUT_U = [2 ** 64, 2 ** 64 + 1, 2 ** 64 + 2 ** 63, 2 ** 65, 10 ** 20, 10 ** 30]
NEG_UINT = ["-0u", "-0U", "-00u", "-0x0u", "-1u", "-1U", "-0x1u", "-9223372036854775808u", "-18446744073709551615u", "-18446744073709551616u"]


# ------------------------------------------------------------------------------------------- spaces
def nwords(k, n):
    return sum(k ** i for i in range(n + 1))


def word_at(alpha, idx):
    """idx-th word over alpha in simplest-first order (by length, then lexicographic)."""
    k, length, block = len(alpha), 0, 1
    while idx >= block:
        idx -= block
        length += 1
        block *= k
    out = []
    for _ in range(length):
        out.append(alpha[idx % k])
        idx //= k
    return out[::-1]


def long_doubles():
    """40 finite doubles with 53 significant bits spread over the exponent range (4 subnormal)."""
    out = []
    for k in range(36):
        m = 0x10000000000001 + k * 0x0123456789ABD
        x = math.ldexp(m / 2.0 ** 52, -1022 + (k * 2045) // 35)
        out.append(-x if k % 2 else x)
    for k in range(4):
        m = (0x1F123456789ABD >> (3 + 11 * k)) | 1
        x = math.ldexp(float(m), -1074)
        out.append(-x if k % 2 else x)
    return out


def doubles(tier):
    return D_FINITE + long_doubles()


def int_alphabets(tier):
    ks = range(1, 64) if tier == "thorough" else QUICK_KS
    return intarith.boundary("int", ks), intarith.boundary("uint", list(ks) + [63])


# --------------------------------------------------------------------- independent cardinalities
def count_raw(tokens, n, triple):
    """Number of token sequences of total weight <= n that a raw literal can hold.  tokens: list of
    (weight, cls) with cls in 'q' (the delimiter character), 'nl' (LF/CR), 'o'.  single-line: no q, no nl;
    triple: no three q in a row, not ending in q."""
    if not triple:
        ws = [w for w, c in tokens if c == "o"]
        g = [0] * (n + 1)
        g[0] = 1
        for L in range(1, n + 1):
            g[L] = sum(g[L - w] for w in ws if L - w >= 0)
        return sum(g)
    f = [[0, 0, 0] for _ in range(n + 1)]
    f[0][0] = 1
    for L in range(1, n + 1):
        for w, c in tokens:
            if L - w < 0:
                continue
            p = f[L - w]
            if c == "q":
                f[L][1] += p[0]
                f[L][2] += p[1]
            else:
                f[L][0] += p[0] + p[1] + p[2]
    return sum(f[L][0] for L in range(n + 1))


def s_tokens(q):
    return [(1, "q" if c == q else ("nl" if c in "\r\n" else "o")) for c in A_S]


def b_tokens(q):
    toks = []
    for b in A_B:
        if b < 0x80:
            toks.append((1, "q" if b == ord(q) else ("nl" if b in (10, 13) else "o")))
    toks.append((2, "o"))  # C3 80, the only well-formed multi-octet sequence over A_b
    assert [b for b in A_B if b >= 0x80] == [0x80, 0xC3, 0xFF]
    return toks


def cardinalities(tier):
    bd = BOUNDS[tier]
    card = {}
    raw_s = sum(count_raw(s_tokens(q), bd["enc-string"], t) for q in "\"'" for t in (False, True))
    card["enc-string"] = nwords(len(A_S), bd["enc-string"]) * 4 * len(litcodec.STR_STRATEGIES) + raw_s
    raw_b = sum(count_raw(b_tokens(q), bd["enc-bytes"], t) for q in "\"'" for t in (False, True))
    card["enc-bytes"] = nwords(len(A_B), bd["enc-bytes"]) * 4 * len(litcodec.BYTES_STRATEGIES) + raw_b
    raw_t = sum(count_raw(s_tokens(q), bd["enc-text-as-bytes"], t) for q in "\"'" for t in (False, True))
    card["enc-text-as-bytes"] = nwords(len(A_S), bd["enc-text-as-bytes"]) * 4 * 2 + raw_t
    card["dec"] = nwords(len(A_SRC), bd["dec"]) * 16
    card["fixed"] = len(PREFIXES) * 4 * len(FIXED_BODIES)
    bi, bu = int_alphabets(tier)

    def per_value(v, suffixes, neg_zero):
        mag = abs(v)
        letter = any(((mag >> (4 * i)) & 15) >= 10 for i in range(20))
        return (2 if (v == 0 and neg_zero) else 1) * (3 + 3 + (3 if letter else 0)) * suffixes

    card["num-int"] = sum(per_value(v, 1, True) for v in bi)
    card["num-uint"] = sum(per_value(v, 2, False) for v in bu) + len(NEG_UINT)
    card["num-outside"] = sum(per_value(v, 1, False) for v in OUT_I) + sum(per_value(v, 2, False) for v in OUT_U)
    nd = 0
    for x in doubles(tier):
        ds, e = litcodec.float_parts(x)
        nd += 12 + (0 if abs(e) > 25 else (2 if e >= 0 else (2 if len(ds) <= -e else 1)))
    card["num-double"] = nd
    return card


# ------------------------------------------------------------------------------- string / bytes judge
def want_of(lit):
    return lit.value if lit.kind == "string" else lit.value.hex()


def agrees(o, lit):
    return o[0] == "V" and o[1] == lit.kind and o[2] == want_of(lit)


def okind(o, kind):
    if o[0] == "V":
        return "wrong-value" if o[1] == kind else f"wrong-type:{o[1]}"
    if o[0] == "E":
        return "error-instead-of-value"
    if o[0] == "P":
        return "parse-error-on-legal-literal"
    return f"exception:{o[1]}:{o[2]}"


def culprit(rk, lit, o):
    """Class of the source unit to blame, found by shrinking the body inside the same prefix and
    delimiters: the empty body ("delimiters" when that already fails the same way), then each distinct
    unit alone; otherwise the unit owning the first diverging element / the set of unit classes."""
    prefix = ("b" if lit.kind == "bytes" else "") + ("r" if lit.raw else "")
    k = okind(o, lit.kind)
    tried = set()
    for cls, body in [("delimiters", "")] + [(u.cls, u.text) for u in lit.units]:
        if body in tried or (cls == "delimiters" and not lit.units):
            continue
        tried.add(body)
        t = prefix + lit.quote + body + lit.quote
        l2 = litcodec.decode(t)
        if l2 is UNSPEC or (l2.kind, l2.raw, l2.quote) != (lit.kind, lit.raw, lit.quote):
            continue
        o2 = celrun.evaluate(rk, t)
        if not agrees(o2, l2) and okind(o2, l2.kind) == k:
            return cls
    if not lit.units:
        return "delimiters"
    if o[0] == "V" and o[1] == lit.kind:
        obs = o[2] if lit.kind == "string" else bytes.fromhex(o[2])
        exp, own = lit.value, lit.owners()
        i = 0
        while i < len(exp) and i < len(obs) and exp[i] == obs[i]:
            i += 1
        return "in-context:" + (lit.units[own[i]].cls if i < len(exp) else "trailing-extra")
    rest = sorted({u.cls for u in lit.units if u.cls != "char:ascii"})
    return "in-context:" + ("+".join(rest) or "char:ascii")


def expected_class(lit):
    return f"{lit.kind}:{'raw' if lit.raw else 'cooked'}-{'triple' if len(lit.quote) == 3 else 'single'}"


def judge_lit(part, rk, text, lit, space):
    o = celrun.evaluate(rk, text)
    ok = agrees(o, lit)
    part.outcome(expected_class(lit) if ok else expected_class(lit) + " ! " + outcome.label(o))
    if ok:
        return o
    k = okind(o, lit.kind)
    sig = f"{expected_class(lit)}:{culprit(rk, lit, o)}:{k}:{rk}"
    exp = lit.value
    part.violation(k, sig, {"what": "literal", "text": text, "runner": rk, "space": space, "expected_kind": lit.kind, "expected": want_of(lit)},
                   f"literal {text!r} ({space}) under runner {rk}: spells {lit.kind} {exp!r}, observed {outcome.short(o)}")
    return o


def enc_shard(task):
    space, rk, lo, hi, tier = task
    part = runner.Part()
    forms = 0
    for idx in range(lo, hi):
        if space == "enc-bytes":
            kind, value = "bytes", bytes(word_at(A_B, idx))
        elif space == "enc-string":
            kind, value = "string", "".join(word_at(A_S, idx))
        else:
            kind, value = "bytes", "".join(word_at(A_S, idx)).encode("utf-8")
        spelled = []
        for q, raw in litcodec.STYLES:
            seen = {}
            sts = litcodec.strategies(kind, raw)
            if space == "enc-text-as-bytes" and not raw:
                sts = ("minimal", "named")
            for st in sts:
                text = litcodec.encode(kind, value, q, raw, st)
                if text is None:
                    continue
                forms += 1
                lit = litcodec.decode(text)
                if lit is UNSPEC or lit.kind != kind or lit.value != value or lit.raw != raw or lit.quote != q:
                    raise runner.HarnessError(f"litcodec round trip broken: {value!r} {q} raw={raw} {st} -> {text!r} -> {getattr(lit, 'value', lit)!r}")
                if text in seen:
                    part.case(evaluations=0)  # same spelling as an earlier strategy: outcome already judged
                    part.outcome(expected_class(lit) + " (same text as another strategy)")
                    continue
                part.case()
                spelled.append(text)
                seen[text] = judge_lit(part, rk, text, lit, f"{space}/{st}")
        if lo == 0 and idx == hi - 1 and rk == "I":
            part.sample({"space": space, "runner": rk, "value": repr(value), "spellings": spelled})
    part.space(f"{space}:{rk}", 0, forms, bound=f"length <= {BOUNDS[tier][space]}")
    return part


def dec_shard(task):
    space, rk, lo, hi, tier = task
    part = runner.Part()
    n = 0
    for idx in range(lo, hi):
        body = "".join(word_at(A_SRC, idx))
        for kind in ("string", "bytes"):
            for raw in (False, True):
                for q in litcodec.QUOTES:
                    n += 1
                    text = ("b" if kind == "bytes" else "") + ("r" if raw else "") + q + body + q
                    if len(q) == 1 and body.startswith(q + q):
                        # the text opens with a triple delimiter: it is the triple-quoted reading of a shorter body
                        part.case(nontrivial=False, evaluations=0)
                        part.outcome("unspec:opens-with-triple-delimiter (its reading is a triple-quoted case, compared there)")
                        continue
                    lit, why = litcodec.decode_why(text)
                    if lit is UNSPEC:
                        part.case(nontrivial=False, evaluations=0)
                        part.outcome("unspec:" + why)
                        continue
                    if lit.kind != kind or lit.raw != raw or lit.quote != q:
                        raise runner.HarnessError(f"decode context mismatch for {text!r}")
                    part.case()
                    judge_lit(part, rk, text, lit, "dec")
    part.space(f"dec:{rk}", 0, n, bound=f"body length <= {BOUNDS[tier]['dec']}")
    if lo == 0 and rk == "I":
        part.sample({"space": "dec", "runner": rk, "last_body_of_first_shard": body, "last_text": text})
    return part


def fixed_shard(task):
    space, rk, lo, hi, tier = task
    part = runner.Part()
    n = 0
    for p in PREFIXES:
        for q in litcodec.QUOTES:
            for body in FIXED_BODIES:
                n += 1
                text = p + q + body + q
                lit, why = litcodec.decode_why(text)
                if lit is UNSPEC:
                    part.case(nontrivial=False, evaluations=0)
                    part.outcome("unspec:" + why)
                    continue
                part.case()
                judge_lit(part, rk, text, lit, "fixed")
    part.space(f"fixed:{rk}", 0, n)
    part.sample({"space": "fixed", "runner": rk, "first": PREFIXES[0] + '"' + FIXED_BODIES[0] + '"', "last": text})
    return part


# --------------------------------------------------------------------------------------- numbers
def int_text(f):
    digs = ("%x" % f["mag"]) if f["base"] == 16 else str(f["mag"])
    if f["upper"]:
        digs = digs.upper()
    return ("-" if f["neg"] else "") + ("0x" if f["base"] == 16 else "") + "0" * f["zeros"] + digs + f["suffix"]


def int_forms(values, suffixes, neg_zero):
    for v in values:
        mag = abs(v)
        negs = (True,) if v < 0 else ((False, True) if (v == 0 and neg_zero) else (False,))
        for neg in negs:
            for base in (10, 16):
                uppers = (False, True) if (base == 16 and ("%x" % mag).upper() != "%x" % mag) else (False,)
                for upper in uppers:
                    for zeros in (0, 1, 2):
                        for suf in suffixes:
                            yield v, {"neg": neg, "base": base, "upper": upper, "zeros": zeros, "suffix": suf, "mag": mag}


def num_verdict(text, o):
    """(ok, expectation label, violation kind) for a numeric literal; expectation from litcodec.number."""
    r = litcodec.number(text)
    if r is UNSPEC:
        return None, "unspec", None
    if r[0] in ("int", "uint"):
        ok = o[0] == "V" and o[1] == r[0] and o[2] == r[1]
        lab = r[0]
    elif r[0] == "range":
        ok, lab = o[0] == "E", "out-of-range"
    elif r[0] == "neg-uint":
        ok, lab = o[0] in ("E", "P"), "negative-uint"
    else:
        ok = (o[0] == "V" and o[1] == "double" and o[2] == r[1]) or (not r[2] and o[0] == "P")
        lab = "double"
    if ok:
        return True, lab, None
    if o[0] == "V":
        k = "value-instead-of-error" if r[0] in ("range", "neg-uint") else ("wrong-value" if o[1] == r[0] else f"wrong-type:{o[1]}")
    elif o[0] == "E":
        k = "error-instead-of-value"
    elif o[0] == "P":
        k = "parse-error-on-legal-literal"
    else:
        k = f"exception:{o[1]}:{o[2]}"
    return False, lab, k


def expect_text(text):
    r = litcodec.number(text)
    if r is UNSPEC:
        return "UNSPEC"
    if r[0] == "double":
        return f"double {outcome.unfloat(r[1])!r} (bits {r[1]})" + ("" if r[2] else " or a parse error (form outside langdef)")
    return {"range": "an evaluation error (out of range)", "neg-uint": "an error (negative uint)"}.get(r[0]) or f"{r[0]} {r[1]}"


def minimise_int(rk, f, k):
    """Drop spelling features one at a time while the same kind of violation persists."""
    f = dict(f)
    for key, simpler in (("neg", False), ("zeros", 1), ("zeros", 0), ("upper", False), ("suffix", None)):
        g = dict(f)
        if key == "suffix":
            if f["suffix"] != "U":
                continue
            g["suffix"] = "u"
        elif key == "zeros":
            if f["zeros"] <= simpler:
                continue
            g["zeros"] = simpler
        else:
            if not f[key]:
                continue
            g[key] = simpler
        ok, _, k2 = num_verdict(int_text(g), celrun.evaluate(rk, int_text(g)))
        if ok is False and k2 == k:
            f = g
    return f


def num_shard(task):
    space, rk, lo, hi, tier = task
    part = runner.Part()
    bi, bu = int_alphabets(tier)
    n = 0
    if space == "num-double":
        for x in doubles(tier):
            seen = set()
            for name, text in litcodec.double_spellings(x):
                n += 1
                r = litcodec.number(text)
                if r is UNSPEC or r[0] != "double" or r[1] != struct.pack(">d", x).hex():
                    raise runner.HarnessError(f"double spelling {text!r} ({name}) of {x!r} reads as {r!r}")
                if text in seen:
                    part.case(evaluations=0)
                    part.outcome("double (same text as another form)")
                    continue
                seen.add(text)
                part.case()
                o = celrun.evaluate(rk, text)
                ok, lab, k = num_verdict(text, o)
                part.outcome(lab if ok else lab + " ! " + outcome.label(o))
                if not ok:
                    neg = text.startswith("-")
                    if neg:
                        ok2, _, k2 = num_verdict(text[1:], celrun.evaluate(rk, text[1:]))
                        neg = not (ok2 is False and k2 == k)
                    part.violation(k, f"double-literal:{name}{'+neg' if neg else ''}:{k}:{rk}",
                                   {"what": "number", "text": text, "runner": rk, "space": space},
                                   f"literal {text} under runner {rk}: spells {expect_text(text)}, observed {outcome.short(o)}"
                                   + (f" = {outcome.unfloat(o[2])!r}" if o[0] == "V" and o[1] == "double" else ""))
        part.space(f"{space}:{rk}", 0, n)
        if rk == "I":
            part.sample({"space": space, "runner": rk, "values": len(doubles(tier)), "spellings_of_last": [t for _, t in litcodec.double_spellings(doubles(tier)[-1])]})
        return part
    if space == "num-int":
        gen = [(v, f, int_text(f)) for v, f in int_forms(bi, ("",), True)]
    elif space == "num-uint":
        gen = [(v, f, int_text(f)) for v, f in int_forms(bu, ("u", "U"), False)] + [(None, None, t) for t in NEG_UINT]
    else:
        gen = [(None, f, int_text(f)) for _, f in int_forms(OUT_I, ("",), False)] + [(None, f, int_text(f)) for _, f in int_forms(OUT_U, ("u", "U"), False)]
    for v, f, text in gen:
        n += 1
        r = litcodec.number(text)
        if v is not None and r != ("int" if space == "num-int" else "uint", v):
            raise runner.HarnessError(f"spelling {text!r} of {v} reads as {r!r}")
        if space == "num-outside" and r != ("range",):
            raise runner.HarnessError(f"spelling {text!r} should be out of range, reads as {r!r}")
        if r is UNSPEC:
            part.case(nontrivial=False, evaluations=0)
            part.outcome("unspec:-0u")
            continue
        part.case()
        o = celrun.evaluate(rk, text)
        ok, lab, k = num_verdict(text, o)
        part.outcome(lab if ok else lab + " ! " + outcome.label(o))
        if ok:
            continue
        typ = "uint" if text[-1] in "uU" else "int"
        if f is not None:
            m = minimise_int(rk, f, k)
            form = ("hex" if m["base"] == 16 else "dec") + ("+neg" if m["neg"] else "") + ("+leading-zero" if m["zeros"] else "") + ("+upper" if m["upper"] else "") + ("+U" if m["suffix"] == "U" else "")
        else:
            form = "signed"
        part.violation(k, f"{typ}-literal:{form}:{k}:{rk}", {"what": "number", "text": text, "runner": rk, "space": space},
                       f"literal {text} under runner {rk}: spells {expect_text(text)}, observed {outcome.short(o)}")
    part.space(f"{space}:{rk}", 0, n)
    if rk == "I" or space == "num-int":
        part.sample({"space": space, "runner": rk, "first": gen[0][2], "median": gen[len(gen) // 2][2], "last": gen[-1][2]})
    return part


SHARD_FN = {"enc-string": enc_shard, "enc-bytes": enc_shard, "enc-text-as-bytes": enc_shard, "dec": dec_shard, "fixed": fixed_shard,
            "num-int": num_shard, "num-uint": num_shard, "num-outside": num_shard, "num-double": num_shard}


def shard(task):
    return SHARD_FN[task[0]](task)


# ------------------------------------------------------ soundness rule 2: the repository's own pins
_WHEN = re.compile(r"^\s*When CEL expression (.*) is evaluated\s*$")
_THEN = re.compile(r"^\s*Then value is celpy\.celtypes\.(StringType|BytesType|IntType|UintType|DoubleType)\(source=(.*)\)\s*$")
_TESTROW = re.compile(r"""^\s*\("(STRING_LIT|BYTES_LIT)", (r?"[^"]*"|r?'[^']*'), celtypes\.(\w+)\((.+)\)\),\s*$""")


def validate_against_features():
    """Every non-@wip scenario of features/*.feature whose expression is a single string / bytes / numeric
    literal (by litcodec's own lexers) and whose expectation is a value: litcodec must agree with the pin."""
    fdir = os.path.join(repo.REPO, "features")
    if not os.path.isdir(fdir):
        raise runner.HarnessError(f"{fdir} missing: no pinned expectations to validate the reference model against")
    used = 0
    kinds = set()
    for name in sorted(os.listdir(fdir)):
        if not name.endswith(".feature"):
            continue
        next_wip, scen_wip, pending = False, False, None
        for line in open(os.path.join(fdir, name), encoding="utf-8"):
            s = line.strip()
            if s.startswith("@"):
                next_wip = "@wip" in s
                continue
            if s.startswith("Scenario"):
                scen_wip, next_wip, pending = next_wip, False, None
                continue
            m = _WHEN.match(line)
            if m:
                pending = None
                if not scen_wip:
                    try:
                        pending = ast.literal_eval(m.group(1))
                    except Exception:  # noqa
                        pending = None
                continue
            m = _THEN.match(line)
            if not s.startswith("Then"):
                continue
            expr, pending = pending, None
            if not m or not isinstance(expr, str):
                continue
            try:
                pinned = ast.literal_eval(m.group(2))
            except Exception:  # noqa
                continue
            cls = m.group(1)
            lit = litcodec.decode(expr)
            num = litcodec.number(expr)
            if lit is not UNSPEC:
                says = (lit.kind, lit.value)
                pin = ("string" if cls == "StringType" else "bytes" if cls == "BytesType" else cls, pinned)
            elif num is not UNSPEC and num[0] in ("int", "uint", "double"):
                says = (num[0], num[1])
                if cls == "DoubleType":
                    pin = ("double", struct.pack(">d", float(pinned)).hex())
                else:
                    pin = ("int" if cls == "IntType" else "uint" if cls == "UintType" else cls, pinned)
            else:
                continue
            if says != pin:
                raise runner.HarnessError(f"litcodec disagrees with {name}: {expr!r} is pinned to {cls}({pinned!r}), the model says {says!r}")
            used += 1
            kinds.add(says[0])
    # the literal table of tests/test_evaluation.py (single-line entries), where the model rules
    tpath = os.path.join(repo.REPO, "tests", "test_evaluation.py")
    if os.path.exists(tpath):
        for line in open(tpath, encoding="utf-8"):
            m = _TESTROW.match(line)
            if not m:
                continue
            try:
                expr, pinned = ast.literal_eval(m.group(2)), ast.literal_eval(m.group(4))
            except Exception:  # noqa
                continue
            lit = litcodec.decode(expr)
            if lit is UNSPEC or m.group(3) not in ("StringType", "BytesType") or not isinstance(pinned, (str, bytes)):
                continue
            if lit.value != pinned:
                raise runner.HarnessError(f"litcodec disagrees with tests/test_evaluation.py: {expr!r} is pinned to {pinned!r}, the model says {lit.value!r}")
            used += 1
    if used < 25 or not {"string", "bytes", "int", "uint", "double"} <= kinds:
        raise runner.HarnessError(f"only {used} pinned single-literal scenarios recognised (kinds {sorted(kinds)}); validation corpus too small")
    return used


# ------------------------------------------------------------------------------------------- driver
def merge_runner_sigs(part):
    """One defect in code shared by both runners yields '...:I' and '...:C'; fold such pairs into '...:I+C'."""
    seen = {}
    for v in part.violations:
        base, _, rk = v["sig"].rpartition(":")
        seen.setdefault(base, set()).add(rk)
    for v in part.violations:
        base, _, rk = v["sig"].rpartition(":")
        if seen[base] == {"I", "C"}:
            v["sig"] = base + ":I+C"


LONG_LENGTHS = [64, 100, 127, 128, 129, 200, 254, 255, 256, 257, 300, 511, 512, 513, 1000, 1023, 1024, 1025, 4096, 10000]


def long_shard(rk):
    """Long literals: every length of LONG_LENGTHS, three fill patterns, three quoting styles, alone and
    inside a list / conditional; the value must be exactly the spelled text (length and content)."""
    part = runner.Part()
    n = 0
    for length in LONG_LENGTHS:
        for pname, unit in (("ascii", "abcdefghij"), ("nonascii", "é😀a"), ("digits-escapes", None)):
            body = (unit * (length // len(unit) + 1)) if unit else ""
            if pname == "digits-escapes":
                k = length // 3
                pad = length - 3 * k
                cooked = ("a" + chr(92) + "n1") * k + "z" * pad   # source text: a \\ n 1  ->  value: a LF 1
                value = ("a" + chr(10) + "1") * k + "z" * pad
                texts = [("dq", '"' + cooked + '"'), ("sq", "'" + cooked + "'")]
            else:
                value = body[:length]
                texts = [("dq", '"' + value + '"'), ("sq", "'" + value + "'"), ("raw", 'r"' + value + '"'), ("triple", '\"\"\"' + value + '\"\"\"')]
            for style, lit_text in texts:
                for ctxname, expr, pick in (("alone", lit_text, None), ("in-list", f"[{lit_text}, 1][0]", None), ("in-cond", f"true ? {lit_text} : \"\"", None), ("size", f"size({lit_text})", "size")):
                    o = celrun.evaluate(rk, expr)
                    part.case()
                    n += 1
                    part.outcome("long:" + outcome.label(o))
                    want = ("int", len(value)) if pick == "size" else ("string", value)
                    got = (o[1], o[2]) if o[0] == "V" else outcome.short(o)
                    if got != want:
                        shown = (got[0], len(got[1]) if isinstance(got[1], str) else got[1]) if isinstance(got, tuple) else got
                        part.violation("wrong-value", f"string:long-literal:{style}:{ctxname}:{'len>=256' if length >= 255 else 'len<255'}:{rk}",
                                       {"what": "long", "runner": rk, "text": expr if len(expr) < 600 else None, "length": length, "pattern": pname, "style": style, "context": ctxname},
                                       f"runner {rk}: a {length}-character {pname} literal ({style}, {ctxname}) evaluates to {shown}, expected {want[0]} of length/value {len(value)}")
    part.space(f"long-literals:{rk}", n, n, bound="lengths " + ",".join(map(str, LONG_LENGTHS)))
    return part


def raw_shard(rk):
    """Raw literals whose body ends in (or consists of) backslashes, followed in the same expression by another literal
    in the same and in the other quote style: a raw literal ends at its own closing quote."""
    part = runner.Part()
    n = 0
    bs = chr(92)
    bodies = [bs, "a" + bs, bs + bs, bs + "n", "C:" + bs + "dir" + bs, bs + "x41" + bs, ""]
    styles = [("r-dq", 'r"', '"', False), ("r-sq", "r'", "'", False), ("R-dq", 'R"', '"', False), ("r-tdq", 'r"""', '"""', False), ("r-tsq", "r'''", "'''", False),
              ("br-dq", 'br"', '"', True), ("bR-sq", "bR'", "'", True)]
    for sname, op, cl, is_bytes in styles:
        for body in bodies:
            lit_text = op + body + cl
            follow = [('dq', '"a"'), ('sq', "'a'")] if not is_bytes else [('dq', 'b"a"'), ('sq', "b'a'")]
            cases = [("alone", lit_text, None)]
            for fname, f in follow:
                cases += [(f"list-before-{fname}", f"[{lit_text}, {f}][0]", None), (f"list-after-{fname}", f"[{f}, {lit_text}][1]", None),
                          (f"concat-{fname}", f"{lit_text} + {f}", "a"), (f"cond-{fname}", f"true ? {lit_text} : {f}", None)]
            for cname, expr, suffix in cases:
                o = celrun.evaluate(rk, expr)
                part.case()
                n += 1
                part.outcome("raw-backslash:" + outcome.label(o))
                value = body + (suffix or "")
                want = ("bytes", value.encode("utf-8").hex()) if is_bytes else ("string", value)
                got = (o[1], o[2]) if o[0] == "V" else outcome.short(o)
                if got != want:
                    part.violation("wrong-value" if o[0] == "V" else "rejected", f"{'bytes' if is_bytes else 'string'}:raw-literal-ending-in-backslash:{cname.split('-')[0]}:{rk}",
                                   {"what": "raw", "runner": rk, "text": expr, "style": sname, "context": cname},
                                   f"runner {rk}: {expr!r} ({sname}, {cname}): expected {want}, got {got}")
    part.space(f"raw-backslash-literals:{rk}", n, n)
    return part


def run(ctx):
    litcodec.selftest()
    intarith.selftest()
    pinned = validate_against_features()
    tier = ctx.tier
    bd = BOUNDS[tier]
    card = cardinalities(tier)
    bi, bu = int_alphabets(tier)
    sizes = {"enc-string": nwords(len(A_S), bd["enc-string"]), "enc-bytes": nwords(len(A_B), bd["enc-bytes"]),
             "enc-text-as-bytes": nwords(len(A_S), bd["enc-text-as-bytes"]), "dec": nwords(len(A_SRC), bd["dec"])}
    per = {"enc-string": 48, "enc-bytes": 16, "enc-text-as-bytes": 4 if tier == "quick" else 16, "dec": 64 if tier == "quick" else 128}
    tasks = []
    for rk in ("I", "C"):
        for space in ("enc-string", "enc-bytes", "enc-text-as-bytes", "dec"):
            for lo, hi in runner.shards(sizes[space], per[space]):
                tasks.append((space, rk, lo, hi, tier))
        for space in ("fixed", "num-int", "num-uint", "num-outside", "num-double"):
            tasks.append((space, rk, 0, 0, tier))
    # results are merged in task order, so the first violation of a signature is the simplest case
    for rk in ("I", "C"):  # interpreter-kind and compiled-kind environments never share a process (DESIGN 2.6)
        ctx.run_shards(shard, [t for t in tasks if t[1] == rk])
    for name, s in ctx.part.spaces.items():
        space = name.rpartition(":")[0]
        s["cardinality"] = card[space]
        if s["enumerated"] != card[space]:
            raise runner.HarnessError(f"{name}: enumerated {s['enumerated']} cases, the independent count is {card[space]}")
    if len(ctx.part.spaces) != 2 * len(card):
        raise runner.HarnessError(f"spaces missing: {sorted(ctx.part.spaces)}")
    total = 2 * sum(card.values())
    if ctx.part.nontrivial + ctx.part.unspec != total:
        raise runner.HarnessError(f"{ctx.part.nontrivial + ctx.part.unspec} cases recorded, cardinalities sum to {total}")
    for rk in ("I", "C"):
        ctx.run_shards(long_shard, [rk])
        ctx.run_shards(raw_shard, [rk])
    _pairhist.run(ctx, __name__)
    merge_runner_sigs(ctx.part)
    ctx.coverage_extra["cases"] = total
    ctx.coverage_extra["pinned_scenarios_validated"] = pinned
    ctx.coverage_extra["alphabets"] = {"A_s": [repr(c) for c in A_S], "A_b": ["%02X" % b for b in A_B], "A_src": A_SRC,
                                      "int64_values": len(bi), "uint64_values": len(bu), "doubles": len(doubles(tier))}
    ctx.rule = (
        f"a case is (runner, literal spelling) evaluated as a whole expression. Encode: every string over A_s (16 chars) of length <= {bd['enc-string']} "
        f"({sizes['enc-string']}) x 4 cooked styles x 5 strategies + every raw style able to hold it; every byte string over A_b (10 octets) of length <= "
        f"{bd['enc-bytes']} ({sizes['enc-bytes']}) x 4 cooked styles x 4 strategies + raw styles (well-formed UTF-8 only); every string over A_s of length <= "
        f"{bd['enc-text-as-bytes']} as a bytes literal (UTF-8 octets expected). Decode: every body over the 12-char source alphabet of length <= {bd['dec']} "
        f"({sizes['dec']}) x 16 contexts. Fixed: {len(FIXED_BODIES)} bodies x 9 prefixes x 4 delimiters. Numbers: {len(bi)} int64 / {len(bu)} uint64 boundary "
        f"values x (decimal, 0x, 0X-digits) x 0-2 leading zeros x sign / u,U; {len(OUT_I)}+{len(OUT_U)} values outside the ranges; {len(doubles(tier))} finite doubles x 12-15 "
        "spellings. A case is non-trivial when litcodec gives the spelling a value (or demands an error): text that is not a legal CEL literal, escapes the "
        "statement does not list (\\? \\` \\X), surrogate / >U+10FFFF escapes, \\u in bytes, -0u are counted as UNSPEC and not run; a strategy whose text "
        "coincides with an earlier strategy of the same value and style is counted as a case but not re-evaluated")
    ctx.assumptions = [
        "legality and meaning of a literal are read from cel-spec langdef.md (STRING_LIT, BYTES_LIT, ESCAPE, INT_LIT, UINT_LIT, FLOAT_LIT); the closing delimiter is the first one found",
        "the literal is the whole expression; its position inside larger expressions is not explored",
        "characters / octets outside the alphabets and bodies longer than the bounds are not explored",
        "a raw LF / CR / CRLF inside a triple-quoted literal denotes itself (no newline normalisation in langdef)",
        "-N u (N > 0) must be an error of either kind; digits-dot-nothing doubles (5.) may also be parse errors (langdef's FLOAT_LIT lacks the form)",
        "double reference: decimal text -> Fraction -> one correctly rounded int/int division (CPython)",
        f"litcodec agrees with {pinned} pinned single-literal expectations (non-@wip scenarios of features/*.feature, literal table of tests/test_evaluation.py)",
    ]


# ---- pair histories (mc/pairhist.py): a literal alone and after every other literal in the same process ---------
PH_TEXTS = ['"a  b"', '"a b"', "'a  b'", '"a\\tb"', '"a\tb"', '"\\\\x41"', '"\\x41"', '"A"', "'A'", '"\\101"', '"\\\\101"', 'r"\\x41"', 'R"\\x41"', 'b"\\x41"', 'b"A"', 'b"\\101"', '"""a\nb"""', '"""a\n\nb"""',
            '"\\u00e9"', '"é"', 'b"é"', 'b"\\xc3\\xa9"', 'b"\\xe9"', '"\\U0001F600"', '"😀"', "007", "7", "0x7", "-7", "- 7", "7u", "7U", "0x7u", "7.0", "07.0", "7e0", "70e-1", "1e1", "10.0", ".5", "0.5", "-0.0", "0.0",
            '""', "''", 'b""', 'r""', "true", "false", "null",
            # literals that are evaluation errors part-way through (an escape that denotes no octet / no code point after a legal prefix),
            # next to the plain literals a decoder's leftover scratch state would corrupt
            'b"xy\\400"', "b'''k\\u0100'''", 'b"z\\U00000041"', 'b"abc"', 'b"\\x61bc"', '"xy\\U00110000"', '"abc"', "b'q\\777r'", 'b"""ab\\400"""']
from .. import pairhist as _pairhist  # noqa: E402

_pairhist.install(globals(), PH_TEXTS)


def replay(w):
    wit = w["witness"]
    if wit.get("space") == "pairhist":
        from .. import pairhist
        return pairhist.replay(w)
    rk, text = wit["runner"], wit["text"]
    print("replaying", wit)
    o = celrun.evaluate(rk, text)
    if wit["what"] == "number":
        ok, lab, k = num_verdict(text, o)
        print(f"literal {text}: spells {expect_text(text)}; runner {rk} gives {outcome.short(o)}")
        bad = ok is False
    else:
        lit = litcodec.decode(text)
        if lit is UNSPEC:
            print("the reference no longer gives this literal a value (UNSPEC)")
            return 0
        if want_of(lit) != wit["expected"] or lit.kind != wit["expected_kind"]:
            raise runner.HarnessError("the reference model's reading of the witness changed")
        print(f"literal {text!r}: spells {lit.kind} {lit.value!r}; runner {rk} gives {outcome.short(o)}")
        bad = not agrees(o, lit)
    print("REPRODUCED" if bad else "not reproduced")
    return 1 if bad else 0
