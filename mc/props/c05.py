"""C05 Evaluation is a function of expression and bindings, independent of history
(DESIGN.md section 3, C05).

Explicit-state exploration over histories of real API calls.  Events: env(cfg), prog(slot, expr),
eval(slot, bindings), reeval(slot); one current environment, two live programs.  Two modes:

* exhaustive: ALL histories up to depth d (no de-duplication) -- the safety net;
* bfs: breadth-first search with de-duplication by a canonical digest of everything the API can
  read (slot contents, the structure of each runner object, and every process-wide name that
  differs from the pristine snapshot), to a deeper bound.

Every eval outcome is compared with the outcome of the three-event history
[env(cfg), prog(e), eval(b)] run ALONE in a fresh python subprocess.  Histories run in long-lived
workers; between histories the library's process-wide state is restored to the pristine snapshot
(mc/explore/procstate.py).  A violation is confirmed by replaying its history in a fresh
subprocess before it is reported.
"""
import collections
import copy
import hashlib
import itertools
import json
import os
import re
import subprocess
import sys

from .. import outcome, repo, runner
from ..explore import procstate

LEVEL = "model_checking"

CFGS = [("I", "plain"), ("C", "plain"), ("I", "decl"), ("C", "decl"), ("I", "pkg"), ("C", "pkg")]
EXPRS = ["x + 1", "a.b", "[1, 2].map(v, v + x)", "has(m.f) ? m.f : 0", "x > 1 || y", '"lit" + s', "f(x)", "f(x)", "t.getHours(z)"]


def hf1(x):
    """host function variant 1 (expression id 6)"""
    import celpy.celtypes as ct
    return ct.IntType(int(x) + 10)


def hf2(x):
    """host function variant 2 (expression id 7)"""
    import celpy.celtypes as ct
    return ct.IntType(int(x) + 20)


def functions_of(e):
    return {6: {"f": hf1}, 7: {"f": hf2}}.get(e)


def same_text(e):
    """expression ids that share e's text (a program may be rebuilt from another program's AST)"""
    return [e2 for e2 in range(len(EXPRS)) if EXPRS[e2] == EXPRS[e]]

BINDS = [
    {},
    {"x": 1, "y": True, "s": "u"},
    {"x": 2, "y": False, "s": "w"},
    {"a.b": 1},
    {"a.b": 2},
    {"a": {"b": 3}},
    {"m": {"f": 5}},
    {"m": {}},
    {"t": ("ts", "2020-01-01T12:00:00Z"), "z": "+05:30", "x": 3},
    {"t": ("ts", "2020-01-01T12:00:00Z"), "z": "-05:30", "x": 4},
]
SHARED_BINDS = (1, 2, 8, 9)      # bindings also delivered through ONE caller-owned dict that is updated in place
_ADDR = re.compile(r"0x[0-9a-fA-F]+")


def alphabets(tier):
    if tier == "thorough":
        return list(range(6)), list(range(9)), list(range(10))
    return list(range(4)), [0, 1, 2, 6, 7, 8], [0, 1, 2, 3, 8, 9]


def to_cel(v):
    import celpy.celtypes as ct
    if isinstance(v, bool):
        return ct.BoolType(v)
    if isinstance(v, int):
        return ct.IntType(v)
    if isinstance(v, str):
        return ct.StringType(v)
    if isinstance(v, dict):
        return ct.MapType({ct.StringType(k): to_cel(x) for k, x in v.items()})
    if isinstance(v, tuple) and v[0] == "ts":
        return ct.TimestampType(v[1])
    raise TypeError(v)


def make_bindings(bi):
    return {k: to_cel(v) for k, v in BINDS[bi].items()}


def make_env(ci):
    import celpy
    import celpy.celtypes as ct
    kind, decl = CFGS[ci]
    R = celpy.CompiledRunner if kind == "C" else celpy.InterpretedRunner
    if decl == "plain":
        return celpy.Environment(runner_class=R)
    if decl == "decl":
        return celpy.Environment(annotations={"a.b": ct.IntType, "x": ct.IntType}, runner_class=R)
    return celpy.Environment(package="p", annotations={"p.a.b": ct.IntType}, runner_class=R)


def plain_bindings(b):
    """structure used for the 'bindings unmodified' comparison (never the library's __eq__)"""
    return tuple(sorted((k, outcome.V(v)) for k, v in b.items()))


class World:
    """The slots the event alphabet talks about."""

    def __init__(self):
        self.env = None
        self.env_cfg = None
        self.env_gen = 0              # which environment object is current (an AST belongs to the environment that compiled it)
        self.progs = [None, None]     # (runner, cfg index, expr index) or ("failed", outcome, cfg, expr)
        self.last = [None, None]      # (bindings index, outcome)
        self.shared = {}              # one caller-owned mapping, updated in place between calls

    def enabled(self, ci_set, ei_set, bi_set):
        ev = [("env", c) for c in ci_set]
        if self.env is not None:
            ev += [("prog", t, e) for t in (0, 1) for e in ei_set]
            # build a program in slot t from the AST object of the program in the other slot
            for t in (0, 1):
                o = self.progs[1 - t]
                if o is not None and o[0] == "ok" and o[5] == self.env_gen:
                    ev += [("reprog", t, e2) for e2 in same_text(o[3]) if e2 in ei_set]
        for t in (0, 1):
            if self.progs[t] is not None:
                ev += [("eval", t, b) for b in bi_set]
                ev += [("evalshared", t, b) for b in bi_set if b in SHARED_BINDS]
                if self.last[t] is not None:
                    ev.append(("reeval", t))
        return ev

    def apply(self, ev, refs, viol):
        """Apply one event on the real objects; append violations (kind, detail-dict)."""
        k = ev[0]
        if k == "env":
            self.env_gen += 1
            try:
                self.env = make_env(ev[1])
                self.env_cfg = ev[1]
            except Exception as ex:  # noqa
                self.env = None
                self.env_cfg = None
                viol.append(("env-failed", {"cfg": ev[1], "got": outcome.of_exception(ex, "env")}))
            return None
        if k == "prog":
            _k, t, e = ev
            try:
                ast = self.env.compile(EXPRS[e])
                self.progs[t] = ("ok", self.env.program(ast, functions=functions_of(e)), self.env_cfg, e, ast, self.env_gen)
            except RecursionError as ex:
                self.progs[t] = ("failed", ("X", "program", type(ex).__name__), self.env_cfg, e, None, self.env_gen)
            except Exception as ex:  # noqa
                self.progs[t] = ("failed", outcome.of_exception(ex, "program"), self.env_cfg, e, None, self.env_gen)
            self.last[t] = None
            return None
        if k == "reprog":
            _k, t, e = ev
            ast = self.progs[1 - t][4]
            try:
                self.progs[t] = ("ok", self.env.program(ast, functions=functions_of(e)), self.env_cfg, e, ast, self.env_gen)
            except RecursionError as ex:
                self.progs[t] = ("failed", ("X", "program", type(ex).__name__), self.env_cfg, e, None, self.env_gen)
            except Exception as ex:  # noqa
                self.progs[t] = ("failed", outcome.of_exception(ex, "program"), self.env_cfg, e, None, self.env_gen)
            self.last[t] = None
            return None
        if k in ("eval", "reeval", "evalshared"):
            t = ev[1]
            b = ev[2] if k in ("eval", "evalshared") else self.last[t][0]
            st, r, ci, e, _ast, _gen = self.progs[t]
            if st == "failed":
                o = r
            else:
                if k == "evalshared":
                    self.shared.clear()
                    self.shared.update(make_bindings(b))
                    bind = self.shared      # the SAME mapping object as in every earlier evalshared call
                else:
                    bind = make_bindings(b)
                before = plain_bindings(bind)
                o = outcome.run(lambda: r.evaluate(bind), "evaluate")
                after = plain_bindings(bind)
                if before != after:
                    viol.append(("bindings-modified", {"cfg": ci, "expr": e, "bind": b, "before": repr(before)[:200], "after": repr(after)[:200]}))
            ref = refs[(ci, e, b)]
            if not outcome.same_value(o, ref) or (o[0] == "V" and ref[0] == "V" and o[3] != ref[3]):
                viol.append(("history-dependent", {"cfg": ci, "expr": e, "bind": b, "got": o, "alone": ref}))
            if k == "reeval" and self.last[t][1] != o:
                viol.append(("reeval-differs", {"cfg": ci, "expr": e, "bind": b, "got": o, "previous": self.last[t][1]}))
            self.last[t] = (b, o)
            return o
        raise ValueError(ev)

    def digest(self, snap):
        parts = [("env", self.env_cfg, type(self.env.cel_parser.parser if hasattr(self.env.cel_parser, "parser") else None).__name__ if self.env else None)]
        slots = []
        for t in (0, 1):
            p = self.progs[t]
            if p is None:
                slots.append(None)
                continue
            st, r, ci, e, ast, gen = p
            if st == "failed":
                slots.append(("failed", r, ci, e))
                continue
            other = self.progs[1 - t]
            desc = [ci, e, self.last[t], gen == self.env_gen, bool(other is not None and other[0] == "ok" and other[4] is ast)]
            tp = getattr(r, "tp", None)
            if tp is not None:
                desc.append(_ADDR.sub("0x", repr(tp.base_activation.identifiers))[:4000])
                desc.append(tp.activation is tp.base_activation)
                # anything else a transpiler object carries (e.g. a remembered context): by structure, and
                # whether it IS the caller-owned shared mapping
                desc.append(sorted((k, _ADDR.sub("0x", repr(v))[:300], v is self.shared) for k, v in vars(tp).items()
                                   if k not in ("ast", "executable_code", "source_text", "base_activation", "activation", "logger")))
            desc.append(sorted((k, _ADDR.sub("0x", repr(v))[:200], v is self.shared) for k, v in vars(r).items() if k not in ("ast", "environment", "tp", "logger", "functions")))
            slots.append(("ok", repr(desc)))
        parts.append(tuple(sorted(slots, key=repr)))
        parts.append(tuple(procstate.diff_names(snap)))
        return hashlib.sha1(repr(parts).encode()).hexdigest()[:16]


def run_history(hist, refs, snap, want_digest=False):
    w = World()
    viol = []
    obs = []
    for ev in hist:
        obs.append(w.apply(tuple(ev), refs, viol))
    dg = w.digest(snap) if want_digest else None
    return w, viol, obs, dg


# ------------------------------------------------------------------------------------------ workers
_W = {"snap": None}


def _init_worker():
    if _W["snap"] is None:
        repo.memoise_lark()
        import celpy  # noqa
        _W["snap"] = procstate.snapshot()
    return _W["snap"]


def exhaustive_shard(task):
    """All histories of exactly/up to depth d whose first two events are fixed by the task prefix."""
    prefix, depth, tier, refs = task
    snap = _init_worker()
    ci_set, ei_set, bi_set = alphabets(tier)
    part = runner.Part()
    count = [0]

    def rec(hist):
        # replay hist from the pristine state
        w, viol, obs, _ = run_history(hist, refs, snap)
        left = procstate.restore(snap)
        count[0] += 1
        part.case(nontrivial=any(e[0] in ("eval", "reeval", "evalshared") for e in hist))
        for o in obs:
            if o is not None:
                part.outcome(outcome.label(o))
        for kind, d in viol:
            record(part, kind, d, hist)
        if left:
            for n in left:
                part.extra["left_behind:" + n] += 1
        if len(hist) < depth and not viol:
            # enabled events depend only on slot occupancy: recompute on a fresh world replay
            w2 = World()
            for ev in hist:
                k = ev[0]
                if k == "env":
                    w2.env, w2.env_cfg = True, ev[1]
                    w2.env_gen += 1
                elif k in ("prog", "reprog"):
                    w2.progs[ev[1]] = ("ok", None, None, ev[2], None, w2.env_gen)
                    w2.last[ev[1]] = None
                elif k in ("eval", "evalshared"):
                    w2.last[ev[1]] = True
            for ev in w2.enabled(ci_set, ei_set, bi_set):
                rec(hist + [list(ev)])

    rec([list(e) for e in prefix])
    part.space("exhaustive-histories", 0, count[0])
    return part


def record(part, kind, d, hist):
    cfg = CFGS[d["cfg"]] if "cfg" in d and d["cfg"] is not None else None
    got = outcome.label(d["got"]) if "got" in d else "-"
    exp = outcome.label(d.get("alone") or d.get("previous")) if (d.get("alone") or d.get("previous")) else "-"
    sig = f"{kind}:cfg={'/'.join(cfg) if cfg else '-'}:expr={EXPRS[d['expr']] if 'expr' in d else '-'}:bind={d.get('bind', '-')}:got={got}:expected={exp}"
    part.violation(kind, sig, {"history": hist, "detail": {k: (v if not isinstance(v, tuple) else list(v)) for k, v in d.items()}},
                   f"after history {fmt(hist)}: {kind}: {d}")


def fmt(hist):
    out = []
    for ev in hist:
        if ev[0] == "env":
            out.append(f"env({'/'.join(CFGS[ev[1]])})")
        elif ev[0] == "prog":
            out.append(f"prog({ev[1]}, {EXPRS[ev[2]]!r}{', f=hf%d' % (ev[2] - 5) if ev[2] >= 6 else ''})")
        elif ev[0] == "reprog":
            out.append(f"reprog({ev[1]}, from the AST of slot {1 - ev[1]}{', f=hf%d' % (ev[2] - 5) if ev[2] >= 6 else ''})")
        elif ev[0] in ("eval", "evalshared"):
            out.append(f"{ev[0]}({ev[1]}, {BINDS[ev[2]]})")
        else:
            out.append(f"reeval({ev[1]})")
    return "[" + ", ".join(out) + "]"


def bfs_expand(task):
    """Expand a batch of frontier histories by every enabled event; return (history, digest, n_viol)."""
    hists, tier, refs = task
    snap = _init_worker()
    ci_set, ei_set, bi_set = alphabets(tier)
    part = runner.Part()
    out = []
    for hist in hists:
        w, _v, _o, _d = run_history(hist, refs, snap)
        evs = w.enabled(ci_set, ei_set, bi_set)
        procstate.restore(snap)
        for ev in evs:
            h2 = hist + [list(ev)]
            w2, viol, obs, dg = run_history(h2, refs, snap, want_digest=True)
            procstate.restore(snap)
            part.case(nontrivial=ev[0] in ("eval", "reeval", "evalshared"))
            if obs[-1] is not None:
                part.outcome(outcome.label(obs[-1]))
            for kind, d in viol:
                record(part, kind, d, h2)
            out.append((h2, dg, len(viol)))
    return part, out


# ------------------------------------------------------------------------------------------ references
def alone(ci, e, b):
    repo.load()
    w = World()
    viol = []
    w.apply(("env", ci), {}, viol)
    if w.env is None:
        return ("X", "env", "failed")
    w.apply(("prog", 0, e), {}, viol)
    st, r, _ci, _e, _ast, _gen = w.progs[0]
    if st == "failed":
        return r
    bind = make_bindings(b)
    return outcome.run(lambda: r.evaluate(bind), "evaluate")


def alone_subprocess(task):
    ci, e, b = task
    env = dict(os.environ, PYTHONPATH=runner.VERIF, PYTHONHASHSEED="0")
    out = subprocess.run([sys.executable, "-m", "mc.props.c05", "--alone", str(ci), str(e), str(b)], capture_output=True, text=True, env=env, cwd=runner.VERIF)
    if out.returncode != 0:
        raise runner.HarnessError(f"alone subprocess failed: {out.stderr[-400:]}")
    return (ci, e, b), _detuple(json.loads(out.stdout.strip().splitlines()[-1]))


def history_subprocess(hist, tier):
    env = dict(os.environ, PYTHONPATH=runner.VERIF, PYTHONHASHSEED="0")
    out = subprocess.run([sys.executable, "-m", "mc.props.c05", "--history", json.dumps(hist), tier], capture_output=True, text=True, env=env, cwd=runner.VERIF)
    if out.returncode != 0:
        raise runner.HarnessError(f"history subprocess failed: {out.stderr[-400:]}")
    return json.loads(out.stdout.strip().splitlines()[-1])


def _detuple(x):
    if isinstance(x, list):
        return tuple(_detuple(y) for y in x)
    return x


def fork_alone(task):
    ci, e, b = task
    _init_worker()
    o = alone(ci, e, b)
    procstate.restore(_W["snap"])
    return (ci, e, b), o


def run(ctx):
    ci_set, ei_set, bi_set = alphabets(ctx.tier)
    triples = [(c, e, b) for c in ci_set for e in ei_set for b in bi_set]
    # references: each triple alone in a fresh python subprocess, cross-checked against the worker notion of "fresh"
    refs = dict(runner.pmap(alone_subprocess, triples))
    forked = dict(runner.pmap(fork_alone, triples))
    validated = 0
    for k in triples:
        if forked[k] != refs[k]:
            raise runner.HarnessError(f"alone-in-worker differs from alone-in-subprocess for {k}: {forked[k]} vs {refs[k]}")
        validated += 1
    # exhaustive mode: (alphabet tier, max events)
    ex_plan = [("thorough", 4), ("quick", 5)] if ctx.thorough else [("quick", 4)]
    ex_hist = 0
    for atier, depth in ex_plan:
        a_ci, a_ei, a_bi = alphabets(atier)
        prefixes2 = [[("env", c), ("prog", 0, e)] for c in a_ci for e in a_ei] + [[("env", c), ("env", c2)] for c in a_ci for c2 in a_ci]
        sub = runner.Part()
        for p in runner.pmap(exhaustive_shard, [(p, depth, atier, refs) for p in prefixes2]):
            sub.merge(p)
        name = f"exhaustive-histories:{atier}-alphabet:<= {depth} events"
        sp = sub.spaces.pop("exhaustive-histories")
        sub.spaces[name] = {"cardinality": count_histories(tuple(a_ci), tuple(a_ei), tuple(a_bi), depth, prefixes2), "enumerated": sp["enumerated"], "bound": f"all histories of <= {depth} events starting with env, env|prog"}
        ex_hist += sp["enumerated"]
        ctx.part.merge(sub)
    depth = max(d for _a, d in ex_plan)
    # bfs mode with digests
    maxdepth = 7 if ctx.thorough else 5
    cap_states = 60000 if ctx.thorough else 12000
    seen = {}
    frontier = [[]]
    states = 1
    transitions = 0
    d = 0
    closed = False
    while frontier and d < maxdepth:
        batches = [frontier[i:i + 8] for i in range(0, len(frontier), 8)]
        res = runner.pmap(bfs_expand, [(b, ctx.tier, refs) for b in batches])
        nxt = []
        for part, out in res:
            ctx.part.merge(part)
            for h2, dg, nv in out:
                transitions += 1
                if dg not in seen:
                    seen[dg] = h2
                    if nv == 0:
                        nxt.append(h2)
        states = len(seen) + 1
        d += 1
        if not nxt:
            closed = True
        if len(seen) > cap_states and d < maxdepth and nxt:
            ctx.caps_hit.append(f"bfs: state cap {cap_states} reached at depth {d}; everything up to depth {d} was expanded")
            break
        frontier = nxt
    # confirm violations in a fresh subprocess (shortest history per signature)
    by_sig = collections.OrderedDict()
    for v in ctx.part.violations:
        cur = by_sig.get(v["sig"])
        if cur is None or len(v["witness"]["history"]) < len(cur["witness"]["history"]):
            by_sig[v["sig"]] = v
    confirmed = []
    for sig, v in list(by_sig.items())[:40]:
        rep = history_subprocess(v["witness"]["history"], ctx.tier)
        if not rep["violations"]:
            raise runner.HarnessError(f"violation {sig} does not reproduce in a fresh subprocess: history {fmt(v['witness']['history'])}")
        confirmed.append(sig)
    ctx.part.violations = [by_sig[s] for s in by_sig]
    ctx.part.sample({"history": fmt([["env", 1], ["prog", 0, 1], ["eval", 0, 3], ["eval", 0, 0]]), "meaning": "events are real API calls; eval outcomes are compared with the same evaluation alone in a fresh process"})
    ctx.part.sample({"configurations": ["/".join(CFGS[c]) for c in ci_set], "expressions": [EXPRS[e] for e in ei_set], "bindings": [BINDS[b] for b in bi_set]})
    ctx.rule = ("a case is one history of API events (env, prog, eval, reeval; one environment slot, two program slots) replayed on fresh real objects from the pristine process state; "
                f"mode 1 enumerates ALL histories of <= {depth} events, mode 2 is a BFS with de-duplication by a digest of slot contents, runner-object structure and changed process-wide names "
                f"to depth {maxdepth}; a history is non-trivial when it contains an evaluation (whose outcome is compared with the alone reference)")
    ctx.assumptions = ["one current environment and two live programs at a time", "between histories in a worker the library's module- and class-level state is restored to the pristine snapshot (mc/explore/procstate.py); every violation is re-run in a fresh python subprocess before it is reported",
                       "lark.Lark construction is memoised by the harness"]
    ctx.coverage_extra.update({"states": states, "transitions": transitions + ex_hist, "bfs_transitions": transitions, "bfs_depth": d, "bfs_closed": closed,
                               "exhaustive_histories": ex_hist, "traces_validated_against_impl": validated + len(confirmed),
                               "reference_triples": len(triples), "distinct_reference_outcomes": len(set(refs.values()))})


def count_histories(ci_set, ei_set, bi_set, depth, prefixes):
    """Independent count of the exhaustive space by dynamic programming over slot occupancy
    (a slot holds nothing, a program of a plain expression, or a program of the f(x) text, which
    can be rebuilt from the other slot's AST with either host-function variant).  Assumes every
    program() succeeds, which is the case on a tree where the property holds."""
    import functools
    nc, nb = len(ci_set), len(bi_set) + len([b for b in bi_set if b in SHARED_BINDS])
    plain = [e for e in ei_set if len([e2 for e2 in same_text(e) if e2 in ei_set]) == 1]
    multi = [e for e in ei_set if e not in plain]
    n_plain, n_multi = len(plain), len(multi)

    @functools.lru_cache(maxsize=None)
    def below(env, p0, p1, l0, l1, remaining):
        # p0/p1: 0 none, else (kind, current) with kind 1 plain / 2 multi-variant text and
        # current = the program's AST was compiled by the current environment; l0/l1: evaluated
        total = 1
        if remaining == 0:
            return total
        stale = lambda p: 0 if p == 0 else (p[0], False)  # noqa: E731
        total += nc * below(True, stale(p0), stale(p1), l0, l1, remaining - 1)
        if env:
            total += n_plain * below(env, (1, True), p1, False, l1, remaining - 1) + n_multi * below(env, (2, True), p1, False, l1, remaining - 1)
            total += n_plain * below(env, p0, (1, True), l0, False, remaining - 1) + n_multi * below(env, p0, (2, True), l0, False, remaining - 1)
            if p1 and p1[1]:
                total += (1 if p1[0] == 1 else n_multi) * below(env, p1, p1, False, l1, remaining - 1)
            if p0 and p0[1]:
                total += (1 if p0[0] == 1 else n_multi) * below(env, p0, p0, l0, False, remaining - 1)
        if p0:
            total += nb * below(env, p0, p1, True, l1, remaining - 1)
            if l0:
                total += below(env, p0, p1, l0, l1, remaining - 1)
        if p1:
            total += nb * below(env, p0, p1, l0, True, remaining - 1)
            if l1:
                total += below(env, p0, p1, l0, l1, remaining - 1)
        return total

    tot = 0
    for p in prefixes:
        if p[1][0] == "prog":
            tot += below(True, (1 if p[1][2] in plain else 2, True), 0, False, False, depth - 2)
        else:
            tot += below(True, 0, 0, False, False, depth - 2)
    return tot


def replay(w):
    hist = w["witness"]["history"]
    print("history:", fmt(hist))
    rep = history_subprocess(hist, "thorough")
    for v in rep["violations"]:
        print(" ", v)
    print("REPRODUCED" if rep["violations"] else "not reproduced")
    return 1 if rep["violations"] else 0


if __name__ == "__main__":
    if len(sys.argv) >= 5 and sys.argv[1] == "--alone":
        print(json.dumps(alone(int(sys.argv[2]), int(sys.argv[3]), int(sys.argv[4]))))
    elif len(sys.argv) >= 4 and sys.argv[1] == "--history":
        repo.load()
        hist = json.loads(sys.argv[2])
        tier = sys.argv[3]
        ci_set, ei_set, bi_set = alphabets("thorough")
        needed = set()
        w_ = World()
        progs = {}
        cur = None
        for ev in hist:
            if ev[0] == "env":
                cur = ev[1]
            elif ev[0] in ("prog", "reprog"):
                progs[ev[1]] = (cur, ev[2])
            elif ev[0] in ("eval", "evalshared"):
                needed.add(progs[ev[1]] + (ev[2],))
        refs = {}
        for k in needed:
            refs[k] = alone_subprocess(k)[1]
        snap = procstate.snapshot()
        _w, viol, obs, _d = run_history(hist, refs, snap)
        print(json.dumps({"violations": [[k, {kk: (list(vv) if isinstance(vv, tuple) else vv) for kk, vv in d.items()}] for k, d in viol], "obs": obs}, default=repr))
