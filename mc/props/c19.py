"""C19 Translated value clauses keep their operator, operands and literals (DESIGN.md section 3, C19).

Bounded-exhaustive, five sub-spaces, all through the real translator, the real parser and the real
interpreter with the real c7nlib functions (``C7N_Interpreted_Runner``, ``c7nlib.FUNCTIONS``, evaluation
inside ``C7NContext``):

  ops        every op x value kind x value_type block of the table BLOCKS x resources on both sides of the
             comparison boundary x key forms {k, a.b, tag:Name} -- oracle mc.ref.c7nrel.decide
  presence   present / absent / not-null / empty x {missing, null, empty, non-empty attribute} x key forms
  literals   every string over a 10-character alphabet up to length 3 (4 thorough) as value, key, tag name,
             URL and list element, and through q() directly: the emitted literal must evaluate back to it
  durations  every day count / second count of the bound: duration(<emitted>) must denote that many seconds
  tables     every (rewriter, resource type) entry of the translator's per-resource-type tables (read from
             the translator's source with ``ast``) must be accepted by celpy's CELParser
"""
import ast
import contextlib
import copy
import inspect
import io
import itertools
import textwrap
import types

from .. import bigframe, outcome, repo, runner
from ..ref import UNSPEC, c7nrel
from ..ref.c7nrel import MISSING

LEVEL = "exploration"
NOW = "2020-09-10T11:12:13Z"
NOW_S = c7nrel.parse_date(NOW)


# ---------------------------------------------------------------------------------------------------
# Driving the library
# ---------------------------------------------------------------------------------------------------
_FILTER = types.SimpleNamespace(manager=None, data={})     # value clauses need nothing from the C7N filter


def _stub_value_from(url, fmt=None):
    """value_from would fetch the URL; for the literal round trip it hands the URL back as the only element."""
    import celpy.celtypes as ct
    return ct.ListType([ct.StringType(str.__str__(url) if type(url) is str else "".join(str.__iter__(url)))])


class Prog:
    """compile + program once (fresh Environment, C7N_Interpreted_Runner, c7nlib.FUNCTIONS)."""

    def __init__(self, text, stub_value_from=False):
        import celpy
        import celpy.c7nlib as c7nlib
        self.text, self.failed, self.prg = text, None, None
        stage = "env"
        try:
            decls = {"resource": celpy.celtypes.MapType, "now": celpy.celtypes.TimestampType}
            decls.update(c7nlib.DECLARATIONS)
            env = celpy.Environment(annotations=decls, runner_class=c7nlib.C7N_Interpreted_Runner)
            stage = "compile"
            tree = env.compile(text)
            stage = "program"
            fns = dict(c7nlib.FUNCTIONS)
            if stub_value_from:
                fns["value_from"] = _stub_value_from
            self.prg = env.program(tree, functions=fns)
        except RecursionError as ex:
            self.failed = ("X", stage, type(ex).__name__)
        except Exception as ex:  # noqa
            self.failed = outcome.of_exception(ex, stage)

    def eval(self, resource, now=NOW):
        if self.failed is not None:
            return self.failed
        import celpy
        import celpy.c7nlib as c7nlib
        from celpy.adapter import json_to_cel

        def go():
            act = {"resource": json_to_cel(resource), "now": celpy.celtypes.TimestampType(now)}
            with c7nlib.C7NContext(filter=_FILTER):
                return self.prg.evaluate(act, filter=_FILTER)
        return outcome.run(go, "evaluate")


def translate(clause, rtype="ec2"):
    """-> ("ok", text) | ("raise", "Class: message")"""
    from xlate.c7n_to_cel import C7N_Rewriter
    try:
        with contextlib.redirect_stdout(io.StringIO()):
            return "ok", C7N_Rewriter.primitive(rtype, clause)
    except Exception as ex:  # noqa
        return "raise", f"{type(ex).__name__}: {ex}"[:200]


def as_bool(o):
    return o[2] if (o[0] == "V" and o[1] == "bool") else None


def kind_of(o, expected_bool):
    if o[0] == "V" and o[1] == "bool":
        return "wrong-value"
    if o[0] == "E":
        return "error-instead-of-decision"
    if o[0] == "P" or (o[0] == "X" and o[1] in ("compile", "program")):
        return "rejected-by-parser"
    return "other-outcome"


# ---------------------------------------------------------------------------------------------------
# Sub-space "ops"
# ---------------------------------------------------------------------------------------------------
ORD = list(c7nrel.ORDER)
EQ = ["eq", "equal", "ne", "not-equal"]
IN = ["in", "ni", "not-in"]
KEYFORMS = ["plain", "dotted", "tag", "tag-dotted"]
GROUP = {**{o: "ord" for o in ORD}, **{o: "member" for o in IN}, "contains": "contains", "glob": "glob",
         "intersect": "set", "difference": "set"}


def _around(v):
    return [v - 1, v, v + 1]


def _str_around(v):
    return ["", v, v + "x"]


def _lists_len(n_list):
    return [[f"e{i}" for i in range(n)] for n in n_list if n >= 0]


def _dup_list(d):
    """a list with d distinct elements and one duplicate (if d > 0)"""
    return [f"e{i}" for i in range(d)] + (["e0"] if d > 0 else [])


def _date(offset):
    return c7nrel.format_date(NOW_S + offset)


def blocks(tier):
    """(name, ops, value_type, [(v, [r, ...]), ...]).  The cardinality of the sub-space is read off this table
    (count_ops) without running the case generator."""
    ints = [-1, 0, 5] + ([2 ** 31, 2 ** 53 + 1] if tier == "thorough" else [])
    strs = ["m", "Ab c"] + (["é", "z" * 40] if tier == "thorough" else [])
    days = [1, 7, 0.5] + ([30, 365, 1.5] if tier == "thorough" else [])
    B = []
    B.append(("ord-int", ORD, None, [(v, _around(v)) for v in ints]))
    B.append(("ord-str", ORD, None, [(v, _str_around(v)) for v in strs]))
    B.append(("eq-bool", EQ, None, [(v, [True, False]) for v in (True, False)]))
    B.append(("eq-list", EQ, None, [(["a", "b"], [["a", "b"], ["a", "b", "c"], ["a"], []]), ([1, 2], [[1, 2], [2, 1], [1]]), ([], [[], ["a"]])]))
    B.append(("ord-size", ORD, "size", [(v, _lists_len(_around(v)) + ["x" * n for n in _around(v) if n >= 0]) for v in (0, 2)]))
    B.append(("ord-integer", ORD, "integer", [(v, [str(v - 1), str(v), str(v + 1), " " + str(v), str(v) + " ", v]) for v in ints]))
    B.append(("ord-normalize", ORD, "normalize", [("ab", ["ab", " AB ", "Ab", "abx", "", "aa"])]))
    B.append(("ord-swap", ORD, "swap", [(v, _around(v)) for v in ints] + [("m", _str_around("m"))]))
    B.append(("ord-unique_size", ORD, "unique_size", [(v, [_dup_list(d) for d in _around(v) if d >= 0]) for v in (1, 2)]))
    B.append(("ord-age", ORD, "age", [(v, [_date(-c7nrel.duration_seconds(days=v) + o) for o in (-1, 0, 1)]) for v in days]))
    B.append(("ord-expiration", ORD, "expiration", [(v, [_date(c7nrel.duration_seconds(days=v) + o) for o in (-1, 0, 1)]) for v in days]))
    B.append(("in-plain", IN, None, [(["a", "b"], ["a", "b", "c", ""]), ([1, 2], [1, 2, 3]), ("abc", ["b", "abc", "ac", "", "abcd"])]))
    B.append(("in-normalize", IN, "normalize", [(["ab", "cd"], ["ab", " AB ", "Cd", "x"])]))
    B.append(("in-swap", IN, "swap", [("b", ["abc", "ac", "", ["a", "b"], ["a"], []]), (1, [[1, 2], [2], []])]))
    B.append(("in-size", IN, "size", [([1, 2], _lists_len([0, 1, 2, 3]))]))
    B.append(("in-integer", IN, "integer", [([1, 2], ["1", "3", " 2", 2])]))
    B.append(("contains-plain", ["contains"], None, [("b", ["abc", "ac", "", ["a", "b"], ["a"], []]), (1, [[1, 2], [2], []])]))
    B.append(("contains-swap", ["contains"], "swap", [(["a", "b"], ["a", "c", ""]), ("abc", ["b", "abc", "ac", ""])]))
    B.append(("glob-plain", ["glob"], None, [(p, ["ab", "a", "b", "abc", "", "AB"]) for p in ("a*", "?b", "ab", "*")]))
    B.append(("glob-normalize", ["glob"], "normalize", [("a*", [" AB ", "b", "Ab"])]))
    for vt in (None, "swap"):
        B.append((f"set-{vt or 'plain'}", ["intersect", "difference"], vt,
                  [(["a", "b"], [["a", "b"], ["a"], ["a", "x"], ["x"], [], ["b", "a", "x"]]), ([1, 2], [[1, 2], [1], [1, 9], [9], []])]))
    return B


def count_ops(tier):
    return sum(len(ops) * sum(len(rs) for _v, rs in vrs) for _n, ops, _vt, vrs in blocks(tier)) * len(KEYFORMS)


def ops_cases(tier):
    out = []
    for name, ops, vt, vrs in blocks(tier):
        for op in ops:
            for v, rs in vrs:
                for r in rs:
                    for kf in KEYFORMS:
                        out.append({"block": name, "op": op, "v": v, "vt": vt, "r": r, "key": kf})
    return out


PRESENCE_R = [("missing", MISSING), ("null", None), ("empty-nonnull", ""), ("empty-nonnull", []), ("empty-nonnull", 0),
              ("empty-nonnull", False), ("nonempty", "x"), ("nonempty", ["x"]), ("nonempty", 5), ("nonempty", True)]


def presence_cases():
    return [{"block": "presence", "op": op, "v": None, "vt": None, "r": ("MISSING" if r is MISSING else r), "rclass": rc, "key": kf}
            for op in c7nrel.PRESENCE for rc, r in PRESENCE_R for kf in KEYFORMS]


def key_and_resource(keyform, r):
    """(policy key, resource document) putting attribute value r (or nothing, for MISSING) where the key points."""
    missing = r is MISSING
    if keyform == "plain":
        return "k", ({} if missing else {"k": r})
    if keyform == "dotted":
        return "a.b", {"a": ({} if missing else {"b": r})}
    if keyform == "tag":
        tags = [{"Key": "Other", "Value": "o"}]
        if not missing:
            tags.append({"Key": "Name", "Value": r})
        return "tag:Name", {"Tags": tags}
    if keyform == "tag-dotted":                   # a tag whose own name contains a dot
        tags = [{"Key": "app", "Value": "o"}]
        if not missing:
            tags.append({"Key": "app.owner", "Value": r})
        return "tag:app.owner", {"Tags": tags}
    raise ValueError(keyform)


def clause_of(case):
    key, res = key_and_resource(case["key"], MISSING if case["r"] == "MISSING" else case["r"])
    if case["op"] in c7nrel.PRESENCE:
        return {"type": "value", "key": key, "value": case["op"]}, res
    c = {"type": "value", "key": key, "op": case["op"], "value": case["v"]}
    if case["vt"]:
        c["value_type"] = case["vt"]
    return c, res


_PROGS = {}


def prog(text, stub=False):
    p = _PROGS.get((text, stub))
    if p is None:
        if len(_PROGS) > 5000:
            _PROGS.clear()
        p = _PROGS[(text, stub)] = Prog(text, stub)
    return p


def run_case(case):
    """-> (status, expected, observed outcome or None, text).  status: ok | violation:<kind> | unspec | untranslatable"""
    r = MISSING if case["r"] == "MISSING" else case["r"]
    exp = c7nrel.decide(case["op"], case["v"], case["vt"], r, NOW_S)
    clause, res = clause_of(case)
    st, text = translate(clause)
    if st != "ok":
        return "untranslatable", exp, None, text
    if exp is UNSPEC:
        return "unspec", exp, None, text
    o = prog(text).eval(res)
    if as_bool(o) is exp:
        return "ok", exp, o, text
    return "violation:" + kind_of(o, exp), exp, o, text


def ops_signature(case, status):
    """Blame: the same comparison with the transform already applied and a plain key; if that fails the same way
    the operator (table) is at fault, otherwise the transform, otherwise the key form."""
    kind = status.split(":", 1)[1]
    if case["op"] in c7nrel.PRESENCE:
        plain = dict(case, key="plain")
        if case["key"] != "plain" and run_case(plain)[0] == status:
            return f"presence:{case['rclass']}:{kind}"
        return f"presence:{case['rclass']}:{kind}" + ("" if case["key"] == "plain" else f":key={case['key']}")
    r = case["r"]
    plain = dict(case, key="plain")
    red = c7nrel.reduce(case["op"], case["v"], case["vt"], r, NOW_S)
    if red is not None:
        v2, r2 = red
        if run_case(dict(plain, v=v2, vt=None, r=r2))[0] == status:
            return f"value:op={case['op']}:{kind}"
    elif case["vt"] is None and run_case(plain)[0] == status:
        return f"value:op={case['op']}:{kind}"
    if run_case(plain)[0] == status:
        return f"value:{GROUP[case['op']]}:vt={case['vt']}:{kind}"
    return f"value:key={case['key']}:{kind}"


def shard_ops(task):
    tier, which, lo, hi = task
    part = runner.Part()
    cases = ops_cases(tier) if which == "ops" else presence_cases()
    for case in cases[lo:hi]:
        status, exp, o, text = run_case(case)
        if case.get("block") == "presence" and case.get("rclass") == "empty-nonnull" and case.get("op") in ("present", "absent"):
            # An attribute that exists but is empty ('', [], 0, false): the statement names the
            # relation "present/absent" without saying whether emptiness counts (Custodian itself
            # pairs present with not-null and absent with empty in places): counted, not compared.
            status = "unspec"
        part.case(nontrivial=status not in ("unspec", "untranslatable"))
        if status in ("unspec", "untranslatable"):
            part.outcome(status)
            part.extra[f"{status}:{case['block']}:{case['op']}"] += 1
            continue
        part.outcome(f"{'presence' if which != 'ops' else GROUP[case['op']]}:{exp}")
        if status != "ok":
            sig = ops_signature(case, status)
            part.violation(status.split(":", 1)[1], sig, {"space": which, "case": case},
                           f"{clause_of(case)[0]} on resource {clause_of(case)[1]} -> {text!r}: relation gives {exp}, emitted CEL gives {outcome.short(o)}")
    part.space(which, 0, hi - lo)
    if lo == 0:
        part.sample({"space": which, "first": cases[0], "last": cases[-1]})
    return part


# ---------------------------------------------------------------------------------------------------
# Sub-space "literals"
# ---------------------------------------------------------------------------------------------------
ALPHABET = ["a", '"', "'", "\\", "\n", "\t", "é", "😀", " ", "{"]
CHAR_NAME = {"a": "a", '"': "DQ", "'": "SQ", "\\": "BS", "\n": "LF", "\t": "TAB", "é": "U+E9", "😀": "U+1F600", " ": "SP", "{": "LBRACE"}
POSITIONS = ["q", "value", "key", "tag", "url", "list-element", "marked-tag"]


def max_len(tier):
    return 4 if tier == "thorough" else 3


# one representative per class of character an escaping routine may treat specially: C0 / DEL / C1 controls, format and
# separator characters, non-characters, the last code point before the surrogates, private use and unassigned / tag
# characters beyond the BMP (non-printable AND needing more than four hex digits)
RARE = ["\x00", "\x01", "\x7f", "\x85", "\xa0", "\xad", "\u200b", "\u2028", "\ufeff", "\ud7ff", "\ufffd", "\uffff", "\U000e0067", "\U000f0000", "\U0010fffd", "\U0001f1ec", "\U00020000"]
RARE_SHAPES = ["{c}", "a{c}", "{c}a", "{c}{c}", '{c}"', "\\{c}", "{c}7", "{c}0f", "'{c}"]


def rare_strings():
    return [sh.replace("{c}", c) for c in RARE for sh in RARE_SHAPES]


def strings(tier):
    out = [""]
    for n in range(1, max_len(tier) + 1):
        out.extend("".join(t) for t in itertools.product(ALPHABET, repeat=n))
    return out + rare_strings()


def count_strings(tier):
    a = len(ALPHABET)
    return (a ** (max_len(tier) + 1) - 1) // (a - 1) + len(RARE) * len(RARE_SHAPES)


def literal_probe(position, s):
    """-> list of (text, stub?, resource, expected) -- expected is a bool, or ("string", s) for the bare literal."""
    from xlate.c7n_to_cel import C7N_Rewriter
    if position == "q":
        lit = C7N_Rewriter.q(s)                  # alone, and followed by more text (a literal is never the whole policy)
        return [(("ok", lit), False, {}, ("string", s)), (("ok", f'[{lit}, "~"][0]'), False, {}, ("string", s))]
    if position == "value":
        t = translate({"type": "value", "key": "k", "op": "eq", "value": s})
        return [(t, False, {"k": s}, True), (t, False, {"k": s + "~"}, False)]
    if position == "key":
        return [(translate({"type": "value", "key": s, "op": "eq", "value": 1}), False, {s: 1, s + "~": 2}, True)]
    if position == "tag":
        t = translate({"type": "value", "key": "tag:" + s, "op": "eq", "value": "v"})
        return [(t, False, {"Tags": [{"Key": s + "~", "Value": "w"}, {"Key": s, "Value": "v"}]}, True)]
    if position == "url":
        t = translate({"type": "value", "key": "k", "op": "in", "value_from": {"url": s}})
        return [(t, True, {"k": s}, True), (t, True, {"k": s + "~"}, False)]
    if position == "list-element":
        t = translate({"type": "value", "key": "k", "op": "in", "value": [s, "other"]})
        return [(t, False, {"k": s}, True), (t, False, {"k": s + "~"}, False)]
    if position == "marked-tag":
        t = translate({"type": "marked-for-op", "tag": s, "op": "stop"})
        return [(t, False, {"Tags": [{"Key": s + "~", "Value": "w"}, {"Key": s, "Value": "m:stop@2020-01-01"}]}, True)]
    raise ValueError(position)


def literal_ok(position, s):
    """-> (ok?, kind, detail)"""
    for (st, text), stub, res, exp in literal_probe(position, s):
        if st != "ok":
            return None, "untranslatable", text
        o = prog(text, stub).eval(res)
        if isinstance(exp, tuple):
            good = o[0] == "V" and o[1] == "string" and o[2] == exp[1]
            shown = repr(exp[1])
        else:
            good = as_bool(o) is exp
            shown = str(exp)
        if not good:
            k = "rejected-by-parser" if (o[0] == "P" or (o[0] == "X" and o[1] in ("compile", "program"))) else ("error-instead-of-value" if o[0] == "E" else "wrong-value")
            return False, k, f"{text!r} on {res!r}: expected {shown}, observed {outcome.short(o)}"
    return True, "ok", ""


def literal_skip(position, s):
    """strings that are not plain strings in that position (the key mini-language, boolean/presence words)"""
    if position == "key":
        return "." in s or s.startswith("tag:") or "(" in s
    if position == "tag":
        return "." in s
    if position == "value":
        return s in ("true", "false", "present", "absent", "not-null", "empty")
    return False


def minimal_failing(position, s):
    """Shortest subsequence of s (first in a fixed order) that still fails in that position."""
    best = s
    for n in range(1, len(s)):
        for idx in itertools.combinations(range(len(s)), n):
            t = "".join(s[i] for i in idx)
            if not literal_skip(position, t) and literal_ok(position, t)[0] is False:
                return t
    return best


def char_class(s):
    if "\\" in s:
        return "backslash"
    if "\n" in s:
        return "newline"
    return "+".join(CHAR_NAME.get(c, hex(ord(c))) for c in s) or "empty"


def shard_literals(task):
    tier, position, lo, hi = task
    part = runner.Part()
    ss = strings(tier)
    for s in ss[lo:hi]:
        if literal_skip(position, s):
            part.case(nontrivial=False)
            part.outcome("not-a-plain-string-here")
            continue
        ok, kind, detail = literal_ok(position, s)
        if ok is None:
            part.case(nontrivial=False)
            part.outcome("untranslatable")
            continue
        part.case()
        part.outcome("round-trips" if ok else kind)
        if not ok:
            m = minimal_failing(position, s)
            cls = char_class(m)
            pos = position
            if position != "q" and literal_ok("q", m)[0] is False:
                pos = "q"                           # the shared quoting routine already fails on it
            part.violation(kind, f"literal:{pos}:{cls}", {"space": "literals", "position": position, "string": s, "minimal": m},
                           f"{position} {s!r} (minimal {m!r}): {detail}")
    part.space(f"literals:{position}", 0, hi - lo)
    if lo == 0:
        part.sample({"space": "literals", "position": position, "alphabet": ALPHABET, "max_length": max_len(tier)})
    return part


# ---------------------------------------------------------------------------------------------------
# Sub-space "durations"
# ---------------------------------------------------------------------------------------------------
def duration_counts(tier):
    if tier == "thorough":
        days = sorted(set([0, 0.011, 0.084, 0.5, 1, 1.5, 2, 7, 30, 365, 400]) | set(range(0, 401)) | {n / 8 for n in range(0, 81)})
        secs = sorted(set(range(0, 7201)) | {86399, 86400, 86401, 90061, 172800, 31536000})
    else:
        days = sorted(set([0, 0.011, 0.084, 0.5, 1, 1.5, 2, 7, 30, 365, 400]) | set(range(0, 61)))
        secs = sorted(set(range(0, 121)) | {3599, 3600, 3601, 86399, 86400, 86401, 90061})
    return days, secs


def duration_case(unit, count):
    from xlate.c7n_to_cel import C7N_Rewriter
    exp = c7nrel.duration_seconds(days=count) if unit == "days" else c7nrel.duration_seconds(seconds=count)
    try:
        lit = C7N_Rewriter.age_to_duration(count) if unit == "days" else C7N_Rewriter.seconds_to_duration(count)
    except Exception as ex:  # noqa
        return "untranslatable", exp, None, f"{type(ex).__name__}: {ex}"
    text = f"duration({lit})"
    o = prog(text).eval({})
    if o[0] == "V" and o[1] == "duration" and o[2] == exp * 1000000:
        return "ok", exp, o, text
    k = "wrong-length" if o[0] == "V" and o[1] == "duration" else ("error-instead-of-value" if o[0] == "E" else ("rejected-by-parser" if o[0] == "P" else "other-outcome"))
    return "violation:" + k, exp, o, text


def shard_durations(task):
    tier = task
    part = runner.Part()
    days, secs = duration_counts(tier)
    n = 0
    for unit, counts in (("seconds", secs), ("days", days)):
        for c in counts:
            status, exp, o, text = duration_case(unit, c)
            n += 1
            part.case(nontrivial=status != "untranslatable")
            part.outcome("zero-length" if exp == 0 else ("<1h" if exp < 3600 else ("<1d" if exp < 86400 else ">=1d")))
            if status.startswith("violation"):
                kind = status.split(":", 1)[1]
                sig = f"duration:zero-length:{kind}" if exp == 0 else f"duration:{unit}:nonzero:{kind}"
                if unit == "days" and exp != 0 and duration_case("seconds", exp)[0] == status:
                    sig = f"duration:seconds:nonzero:{kind}"
                part.violation(kind, sig, {"space": "durations", "unit": unit, "count": c},
                               f"{unit}={c}: emitted {text!r}; expected a duration of {exp} s, observed {outcome.short(o)}")
    part.space("durations", 0, n)
    part.sample({"space": "durations", "days": [days[0], days[-1], len(days)], "seconds": [secs[0], secs[-1], len(secs)]})
    return part


# ---------------------------------------------------------------------------------------------------
# Sub-space "tables"
# ---------------------------------------------------------------------------------------------------
TABLE_CLAUSES = {
    "type_age_rewrite": {"type": "age", "days": 21, "op": "gt"},
    "type_security_group_rewrite": {"type": "security-group", "key": "GroupName", "op": "eq", "value": "x"},
    "type_vpc_rewrite": {"type": "vpc", "key": "VpcId", "op": "eq", "value": "vpc-1"},
    "type_kms_key_rewrite": {"type": "kms-key", "key": "c7n:AliasName", "op": "eq", "value": "alias/x"},
    "cross_account_rewrite": {"type": "cross-account", "whitelist": ["123456789012"]},
    "used_rewrite": {"type": "used"},
    "unused_rewrite": {"type": "unused"},
    "is_logging_rewrite": {"type": "is-logging"},
    "is_not_logging_rewrite": {"type": "is-not-logging"},
    "shield_enabled_rewrite": {"type": "shield-enabled", "state": False},
}
TABLE_SOURCE = {"unused_rewrite": "used_rewrite", "is_not_logging_rewrite": "is_logging_rewrite"}


def table_keys(method):
    """Resource types a rewriter knows: keys of its ``attribute_map`` / ``resource_type_map`` dict literal, plus every
    string literal it compares ``resource`` with -- read from the source of the tree under test."""
    from xlate.c7n_to_cel import C7N_Rewriter
    fn = getattr(C7N_Rewriter, TABLE_SOURCE.get(method, method))
    tree = ast.parse(textwrap.dedent(inspect.getsource(fn)))
    keys = []
    for node in ast.walk(tree):
        if isinstance(node, ast.Assign) and isinstance(node.value, ast.Dict) and any(
                isinstance(t, ast.Name) and t.id in ("attribute_map", "resource_type_map") for t in node.targets):
            keys.extend(k.value for k in node.value.keys if isinstance(k, ast.Constant) and isinstance(k.value, str))
        if isinstance(node, ast.Compare) and isinstance(node.left, ast.Name) and node.left.id == "resource":
            keys.extend(c.value for c in node.comparators if isinstance(c, ast.Constant) and isinstance(c.value, str))
    if method == "shield_enabled_rewrite":
        keys.append("elb")                      # the "every other resource type" arm
    return keys


def table_entries():
    return [(m, k) for m in TABLE_CLAUSES for k in table_keys(m)]


def shard_tables(task):
    part = runner.Part()
    import celpy
    n = 0
    for method, rtype in table_entries():
        n += 1
        st, text = translate(dict(TABLE_CLAUSES[method]), rtype)
        if st != "ok":
            part.case(nontrivial=False)
            part.outcome("untranslatable")
            part.extra[f"untranslatable:{method}:{rtype}"] += 1
            continue
        part.case()
        o = outcome.run(lambda: celpy.CELParser().parse(text) and True, "parse")
        part.outcome("parses" if o[0] == "V" else outcome.label(o))
        if o[0] != "V":
            part.violation("rejected-by-parser", f"table:{TABLE_SOURCE.get(method, method)}:{rtype}",
                           {"space": "tables", "method": method, "rtype": rtype},
                           f"{method}[{rtype!r}] emits {text!r}: CELParser says {outcome.short(o)}")
    part.space("tables", 0, n)
    part.sample({"space": "tables", "entries": n})
    return part


# expected number of table entries, counted from the source text independently of ast (dict-literal key lines)
def count_table_entries():
    from xlate.c7n_to_cel import C7N_Rewriter
    import re
    total = 0
    for m in TABLE_CLAUSES:
        src = inspect.getsource(getattr(C7N_Rewriter, TABLE_SOURCE.get(m, m)))
        # strip the docstring, then count `"name": (` / `"name": "` entries inside the table and `resource == "x"` tests
        body = src.split('"""')[-1]
        if "attribute_map = {" in body or "resource_type_map = {" in body:
            table = body.split("_map = {", 1)[1].split("\n        }", 1)[0]
            total += len(re.findall(r'^\s{12}"[^"\n]+":', table, flags=re.M))
        total += len(re.findall(r'resource == "[^"]+"', body))
        if m == "shield_enabled_rewrite":
            total += 1
    return total


# ---------------------------------------------------------------------------------------------------
# Sub-space "histories": a clause translated after other clauses in the same process
# ---------------------------------------------------------------------------------------------------
H_KEYS = ["k", "a.b", "tag:Name", "GroupName", "VpcId"]


def hist_alphabet():
    """(resource type, clause): value clauses over 5 keys x 3 forms, the key-carrying related-resource clauses over the
    3 keys they share with them, and one clause per other rewriter."""
    out = []
    for key in H_KEYS:
        out.append(("ec2", {"type": "value", "key": key, "op": "eq", "value": "x"}))
        out.append(("ec2", {"type": "value", "key": key, "value": "present"}))
        out.append(("ec2", {"type": "value", "key": key, "op": "gt", "value": 3, "value_type": "size"}))
    # value clauses that differ only in a value which == / hash confuse (1, true, 1.0; 0, false) or in its spelling as text
    for op in ("eq", "ne"):
        for v in (1, True, 1.0, 0, False, "1", "true"):
            out.append(("ec2", {"type": "value", "key": H_KEYS[0], "op": op, "value": v}))
    for typ, rtype in (("security-group", "ec2"), ("vpc", "ec2"), ("kms-key", "efs"), ("subnet", "asg")):
        for key in H_KEYS[2:]:
            out.append((rtype, {"type": typ, "key": key, "op": "eq", "value": "x"}))
    out.append(("ebs-snapshot", {"type": "age", "days": 21, "op": "gt"}))
    out.append(("ec2", {"type": "image-age", "days": 30, "op": "ge"}))
    out.append(("ec2", {"type": "marked-for-op", "op": "stop", "tag": "c7n"}))
    out.append(("ec2", {"type": "tag-count", "count": 8, "op": "gte"}))
    out.append(("ec2", {"type": "metrics", "name": "CPUUtilization", "days": 4, "period": 86400, "value": 30, "op": "less-than"}))
    out.append(("s3", {"type": "cross-account", "whitelist": ["123456789012"]}))
    out.append(("ebs", {"type": "used"}))
    out.append(("ebs", {"type": "unused"}))
    out.append(("elb", {"type": "is-logging"}))
    out.append(("elb", {"type": "shield-enabled", "state": False}))
    return out


def hist_count():
    n = len(hist_alphabet())
    return n * n + 2 * n          # every ordered pair; each clause at the end of the whole alphabet read forwards / backwards


_H_SNAP = []


def _pristine():
    """The worker's library state as first seen by the history shard; every history starts from it."""
    from ..explore import procstate
    if not _H_SNAP:
        import celpy.c7nlib  # noqa: F401  -- everything the snapshot is to cover must be loaded before it is taken
        import xlate.c7n_to_cel  # noqa: F401
        _H_SNAP.append(procstate.snapshot())
    procstate.restore(_H_SNAP[0])


def hist_run(history, last):
    _pristine()
    for rtype, clause in history:
        translate(copy.deepcopy(clause), rtype)
    return translate(copy.deepcopy(last[1]), last[0])


def hist_sig(history, last, alone, after):
    a = history[-1][1]
    same = "same-key" if a.get("key") is not None and a.get("key") == last[1].get("key") else "other-key"
    what = "raises" if after[0] != "ok" else ("no-longer-raises" if alone[0] != "ok" else "text-differs")
    return f"history:{last[1]['type']}-after-{a['type']}:{same}:{what}"


def shard_histories(task):
    lo, hi = task
    part = runner.Part()
    alpha = hist_alphabet()
    n = len(alpha)
    alone = [hist_run([], b) for b in alpha]
    idx = done = 0

    def judge(history, b, j):
        after = hist_run(history, b)
        part.case()
        part.outcome("history:" + ("same" if after == alone[j] else "differs"))
        if after != alone[j]:
            part.violation("history-dependent-translation", hist_sig(history, b, alone[j], after),
                           {"space": "histories", "history": [list(h) for h in history], "clause": list(b), "alone": list(alone[j]), "after": list(after)},
                           f"{b[1]} ({b[0]}) translates to {alone[j][1]!r} in a fresh state but to {after[1]!r} after translating {[h[1] for h in history]}")
    for i in range(n):
        for j in range(n):
            if lo <= idx < hi:
                judge([alpha[i]], alpha[j], j)
                done += 1
            idx += 1
    for order in (list(range(n)), list(range(n))[::-1]):
        for pos, j in enumerate(order):
            if lo <= idx < hi:
                judge([alpha[k] for k in order[:pos]] or [alpha[j]], alpha[j], j)
                done += 1
            idx += 1
    part.space("histories", 0, done)
    if lo == 0:
        part.sample({"space": "histories", "clauses": n, "first": list(alpha[0]), "last": list(alpha[-1])})
        part.extra["history_clauses_translatable"] += sum(1 for a in alone if a[0] == "ok")
    return part


# ---------------------------------------------------------------------------------------------------
def run(ctx):
    c7nrel.selftest()
    tier = ctx.tier
    Prog("true")    # build the (interpreted-kind) parser once in the parent; forked workers inherit it
    ctx.rule = (
        "ops: every (op, literal v, value_type, attribute value r, key form) of the block table (ops " + ", ".join(c7nrel.OPS) + "; value kinds int/string/bool/"
        "list of strings/list of ints; value_type none/size/integer/normalize/swap/unique_size/age/expiration where meaningful; r on both sides of the "
        "comparison boundary; key forms k, a.b, tag:Name, tag:app.owner); presence: present/absent/not-null/empty x {missing, null, '', [], 0, false, 'x', ['x'], 5, true} x key forms; "
        f"literals: every string over {[CHAR_NAME[c] for c in ALPHABET]} of length <= {max_len(tier)} in each of the positions {POSITIONS}; "
        "durations: every day count and second count of the bound; tables: every (rewriter, resource type) entry; "
        f"histories: every ordered pair of a {len(hist_alphabet())}-clause alphabet (value clauses and related-resource clauses sharing keys, one clause per other rewriter), and the "
        "whole alphabet forwards and backwards, translated in one process state: the last translation must equal the one from the pristine state. "
        "A case is non-trivial iff the translator emits text and the reference (c7nrel) is not UNSPEC; every case is distinct by construction")
    ctx.assumptions = [
        "reference = Custodian's ValueFilter semantics as quoted in mc/ref/c7nrel.py; operands of different kinds, ordering of lists/bools, non-numeric "
        "text under integer, bracket globs are UNSPEC and not enumerated",
        "ordinary relations are only evaluated on resources that have the attribute; missing/null/empty attributes only for the four presence tests",
        "fractions of a second in a day count are dropped (pinned by tests/test_c7n_to_cel.py::test_age_to_duration)",
        "value_from is stubbed (returns [url]) for the URL literal round trip; regex, cidr, cidr_size, date, version, value_from semantics are outside the property",
        "table entries are checked for syntax only (CELParser), as the property states",
    ]
    n_ops = count_ops(tier)
    ctx.run_shards(shard_ops, [(tier, "ops", lo, hi) for lo, hi in runner.shards(n_ops, 32)])
    n_pres = len(c7nrel.PRESENCE) * len(PRESENCE_R) * len(KEYFORMS)
    ctx.run_shards(shard_ops, [(tier, "presence", 0, n_pres)])
    n_str = count_strings(tier)
    tasks = [(tier, pos, lo, hi) for pos in POSITIONS for lo, hi in runner.shards(n_str, 16)]
    ctx.run_shards(shard_literals, tasks)
    ctx.run_shards(shard_durations, [tier])
    ctx.run_shards(shard_tables, [tier])
    ctx.run_shards(shard_histories, runner.shards(hist_count(), 8))
    sp = ctx.part.spaces
    sp["histories"]["cardinality"] = hist_count()
    if ctx.part.extra.get("history_clauses_translatable", 0) < 0.8 * len(hist_alphabet()):
        raise runner.HarnessError(f"only {ctx.part.extra.get('history_clauses_translatable', 0)} of {len(hist_alphabet())} history clauses translate at all")
    sp["ops"]["cardinality"] = n_ops
    sp["presence"]["cardinality"] = n_pres
    for pos in POSITIONS:
        sp[f"literals:{pos}"]["cardinality"] = n_str
        sp[f"literals:{pos}"]["bound"] = f"length<={max_len(tier)} over {len(ALPHABET)} characters"
    d, s = duration_counts(tier)
    sp["durations"]["cardinality"] = len(d) + len(s)
    sp["tables"]["cardinality"] = count_table_entries()
    if sp["tables"]["enumerated"] < 60:
        raise runner.HarnessError(f"only {sp['tables']['enumerated']} table entries found in the translator's source")


def replay(w):
    return bigframe.call(_replay, w)


def _replay(w):
    wit = w["witness"]
    c7nrel.selftest()
    space = wit["space"]
    print("replaying", wit)
    bad = False
    if space in ("ops", "presence"):
        case = wit["case"]
        status, exp, o, text = run_case(case)
        clause, res = clause_of(case)
        print(f"clause   : {clause}\nresource : {res}\nemitted  : {text}\nexpected : {exp}   (c7nrel.decide)\nobserved : {outcome.short(o) if o else status}")
        bad = status.startswith("violation")
    elif space == "literals":
        for s in (wit["string"], wit["minimal"]):
            ok, kind, detail = literal_ok(wit["position"], s)
            print(f"{wit['position']} {s!r}: {'round-trips' if ok else kind + ' -- ' + detail}")
        bad = literal_ok(wit["position"], wit["string"])[0] is False
    elif space == "durations":
        status, exp, o, text = duration_case(wit["unit"], wit["count"])
        print(f"{wit['unit']}={wit['count']}: emitted {text!r}; expected {exp} s; observed {outcome.short(o) if o else status}")
        bad = status.startswith("violation")
    elif space == "histories":
        b = tuple(wit["clause"])
        alone = hist_run([], b)
        after = hist_run([tuple(h) for h in wit["history"]], b)
        print(f"clause   : {b}\npristine : {alone}\nafter {len(wit['history'])} earlier translation(s): {after}")
        bad = alone != after
    elif space == "tables":
        import celpy
        st, text = translate(dict(TABLE_CLAUSES[wit["method"]]), wit["rtype"])
        o = outcome.run(lambda: celpy.CELParser().parse(text) and True, "parse")
        print(f"{wit['method']}[{wit['rtype']!r}] emits {text!r}\nCELParser: {'accepted' if o[0] == 'V' else outcome.short(o)}")
        bad = o[0] != "V"
    print("REPRODUCED" if bad else "not reproduced")
    return 1 if bad else 0
