"""C15 JSON documents convert to CEL values and back without loss (DESIGN.md section 3, C15).

Bounded-exhaustive: every JSON document of a term space (scalars S, arrays of length <= 2, objects
with <= 2 keys, by exact depth) is (a) converted with json_to_cel and with CELJSONDecoder and compared
position by position with the expected class/value tree, (b) encoded back with CELJSONEncoder and
compared type-strictly with the original, (c) navigated: every valid path, in every spelling
(`["k"]`, `[i]`, and `.k` for identifier keys), is evaluated as a CEL expression over the bound
variable `doc` under each runner and compared with the element the reference path walk reaches.
Separately timestamps, durations and byte strings go through the encoder and are compared with
RFC 3339 / "<n>s" / RFC 4648 base64 readings made by the reference model.
"""
import datetime
import io
import itertools
import json
import re

from .. import celrun, outcome, runner
from ..ref import jsonref

LEVEL = "exploration"

I_MAX, I_MIN = 2 ** 63 - 1, -(2 ** 63)
S_FULL = [None, True, False, 0, 1, -1, I_MAX, I_MIN, 0.5, -0.0, 0.0, 1e300, 5e-324, 1.0, "", "a", "\u00e9", "\U0001F600", "\u0000", "a.b", "1"]
K_FULL = ["", "a", "\u00e9", "a.b", "0"]
# json.dump() reaches the encoder through iterencode(), json.dumps() through encode(); both are
# "serialising with the library's JSON encoder".  Drop "dump" here to restrict the oracle to DESIGN's json.dumps.
ENCODE_ROUTES = ("dumps", "dump")
IDENT = re.compile(r"^[_a-zA-Z][_a-zA-Z0-9]*$")
RESERVED = {"true", "false", "null", "in", "as", "break", "const", "continue", "else", "for", "function", "if", "import",
            "let", "loop", "package", "namespace", "return", "var", "void", "while"}
A_B = [0x00, 0x0A, 0x22, 0x27, 0x41, 0x5C, 0x7F, 0x80, 0xC3, 0xFF]
DOCS_PER_TASK = 600


def strata_for(tier):
    """(name, exact depth, scalars, keys).  Depth <= 1 uses the full alphabets; deeper strata reduce them
    to the values that can be confused with one another (null/true/1/1.0, identifier / dotted / digit keys)."""
    if tier == "thorough":
        return [("d0:S20", 0, S_FULL, K_FULL), ("d1:S20,K5", 1, S_FULL, K_FULL),
                ("d2:S5,K3", 2, [None, True, 1, 1.0, "a"], ["a", "a.b", "0"]),
                ("d3:S2,K2", 3, [True, 1], ["a", "0"])]
    return [("d0:S20", 0, S_FULL, K_FULL), ("d1:S20,K5", 1, S_FULL, K_FULL),
            ("d2:S4,K3", 2, [None, True, 1, 1.0], ["a", "a.b", "0"])]


# ---- harness plumbing -----------------------------------------------------------------------------
KEEP_PER_SIG = 3


def viol(part, kind, sig, witness, detail):
    """Record a violation; per shard only the first KEEP_PER_SIG witnesses of a signature are kept (all are counted)."""
    seen = part.__dict__.setdefault("_c15_seen", {})
    seen[sig] = seen.get(sig, 0) + 1
    if seen[sig] <= KEEP_PER_SIG:
        part.violation(kind, sig, witness, detail)
    else:
        part.violation_count += 1


# ---- the document space ---------------------------------------------------------------------------
def is_ident(k):
    return bool(IDENT.match(k)) and k not in RESERVED


def containers(inner, keys):
    out = [[]] + [[x] for x in inner] + [[x, y] for x in inner for y in inner]
    out += [{}] + [{k: x} for k in keys for x in inner]
    out += [{k1: x, k2: y} for k1, k2 in itertools.combinations(keys, 2) for x in inner for y in inner]
    return out


def docs_upto(depth, scalars, keys):
    if depth < 0:
        return []
    if depth == 0:
        return list(scalars)
    return list(scalars) + containers(docs_upto(depth - 1, scalars, keys), keys)


def depth_of(doc):
    if type(doc) is list:
        return 1 + max([depth_of(x) for x in doc], default=0)
    if type(doc) is dict:
        return 1 + max([depth_of(x) for x in doc.values()], default=0)
    return 0


class Stratum:
    """Documents of depth exactly `depth` over (scalars, keys); children are all documents of depth < depth."""

    def __init__(self, name, depth, scalars, keys):
        self.name, self.depth, self.scalars, self.keys = name, depth, scalars, keys
        self.inner = docs_upto(depth - 1, scalars, keys)
        self.top = [depth_of(x) == depth - 1 for x in self.inner]
        self.pairs = list(itertools.combinations(keys, 2))

    def tasks(self):
        """(shape, lo, hi): ranges of the FIRST child index, about DOCS_PER_TASK documents each."""
        if self.depth == 0:
            return [("scalars", 0, len(self.scalars))]
        n = len(self.inner)
        step = max(1, DOCS_PER_TASK // max(1, n))
        out = [("small", 0, n)]
        for shape in ["arr2"] + [f"obj2:{i}" for i in range(len(self.pairs))]:
            out += [(shape, lo, min(n, lo + step)) for lo in range(0, n, step)]
        return out

    def docs(self, shape, lo, hi):
        inner, top = self.inner, self.top
        if shape == "scalars":
            yield from self.scalars[lo:hi]
        elif shape == "small":
            if self.depth == 1:
                yield []
            yield from ([x] for x, t in zip(inner, top) if t)
            if self.depth == 1:
                yield {}
            for k in self.keys:
                yield from ({k: x} for x, t in zip(inner, top) if t)
        else:
            k1, k2 = self.pairs[int(shape[5:])] if shape != "arr2" else (None, None)
            for i in range(lo, hi):
                for j in range(len(inner)):
                    if top[i] or top[j]:
                        yield [inner[i], inner[j]] if shape == "arr2" else {k1: inner[i], k2: inner[j]}

    # closed forms, independent of docs(): N(d) documents of depth <= d, W(d) (path, spelling) pairs in them
    def _nw(self, d):
        s, k = len(self.scalars), len(self.keys)
        m1 = sum(2 if is_ident(key) else 1 for key in self.keys)
        n, w = (s, 0) if d >= 0 else (0, 0)
        for _ in range(d):
            cn = 2 + n + n * n + k * n + (k * (k - 1) // 2) * n * n
            cw = (n + w) + (2 * n * n + 2 * n * w) + m1 * (n + w) + (k - 1) * m1 * (n * n + n * w)
            n, w = s + cn, cw
        return n, w

    def cardinality(self):
        (n, w), (n0, w0) = self._nw(self.depth), self._nw(self.depth - 1)
        return n - n0, w - w0


_STRATA = {}


def stratum(tier, name):
    if (tier, name) not in _STRATA:
        _STRATA[(tier, name)] = {s[0]: Stratum(*s) for s in strata_for(tier)}[name]
    return _STRATA[(tier, name)]


# ---- observing the library ------------------------------------------------------------------------
def describe(v):
    """Neutral (class name, payload) tree of an observed value; container dunders are called on the base
    classes so that overridden methods of ListType / MapType cannot colour the observation."""
    if isinstance(v, list):
        return (type(v).__name__, [describe(x) for x in list.__iter__(v)])
    if isinstance(v, dict):
        return (type(v).__name__, [(describe(k), describe(dict.__getitem__(v, k))) for k in dict.keys(v)])
    return (type(v).__name__, outcome.plain(v))


def call(fn):
    """('ok', value) or ('exc', class name)"""
    try:
        return ("ok", fn())
    except RecursionError:
        return ("exc", "RecursionError")
    except Exception as ex:  # noqa
        return ("exc", type(ex).__name__)


def coarse(desc):
    return desc.split(":", 1)[0].split("(", 1)[0].split("[", 1)[0]


def cel_key(k):
    return '"' + k.replace("\\", "\\\\").replace('"', '\\"') + '"'


def spellings(path):
    """Every CEL text for a path: [i] for indices, ["k"] for keys and additionally .k for identifier keys."""
    alts = []
    for step in path:
        if type(step) is int:
            alts.append([("idx", f"[{step}]")])
        else:
            a = [("key", f"[{cel_key(step)}]")]
            if is_ident(step):
                a.append(("dot", f".{step}"))
            alts.append(a)
    for combo in itertools.product(*alts):
        yield "doc" + "".join(t for _, t in combo), combo


def key_class(k):
    if k == "":
        return "empty"
    if is_ident(k):
        return "ident"
    if k.isdigit():
        return "digits"
    if "." in k:
        return "dotted"
    return "ascii" if k.isascii() else "nonascii"


# ---- (a)+(b) conversion and round trip ------------------------------------------------------------
def conv_checks(part, doc, adapter, witness_base):
    """Four cases per document: classmap via json_to_cel, classmap via CELJSONDecoder, round trip via each
    encode route.  Returns nothing; records into part."""
    exp = jsonref.expected_desc(doc)
    root = jsonref.kind(doc)
    text_in = json.dumps(doc)
    if not jsonref.strict_equal(json.loads(text_in), doc):
        raise runner.HarnessError(f"stdlib json does not round-trip the generated document {doc!r}")
    conv = call(lambda: adapter.json_to_cel(doc))
    # (third route: converting the converted value once more -- helper functions do that to sub-documents -- changes nothing)
    routes = [("json_to_cel", conv), ("decoder", call(lambda: json.loads(text_in, cls=adapter.CELJSONDecoder))),
              ("json_to_cel-twice", call(lambda: adapter.json_to_cel(adapter.json_to_cel(doc))))]
    for route, res in routes:
        part.case()
        part.outcome(f"classmap:{root}")
        if res[0] == "exc":
            viol(part, "conversion-raised", f"convert:{route}:raised:{res[1]}", dict(witness_base, check="classmap", route=route, doc=doc),
                           f"{route}({doc!r}) raised {res[1]}")
            continue
        d = jsonref.desc_diff(exp, describe(res[1]))
        if d:
            where, e, g = d
            what = f"{e}->{g}" if coarse(e) != coarse(g) else f"{coarse(e)}:payload"
            viol(part, "wrong-class" if coarse(e) != coarse(g) else "wrong-value", f"classmap:{route}:{'key' if where == 'key' else 'value'}:{what}",
                           dict(witness_base, check="classmap", route=route, doc=doc), f"{route}({doc!r}): at {where} expected {e}, got {g}")
    for route in ENCODE_ROUTES:
        part.case()
        part.outcome(f"roundtrip:{root}")
        wit = dict(witness_base, check="roundtrip", route=route, doc=doc)
        if conv[0] == "exc":
            viol(part, "conversion-raised", f"convert:json_to_cel:raised:{conv[1]}", wit, f"json_to_cel({doc!r}) raised {conv[1]}")
            continue
        enc = call(lambda: encode(adapter, conv[1], route))
        if enc[0] == "exc":
            viol(part, "encoder-raised", f"roundtrip:{route}:encoder-raised:{enc[1]}", wit, f"encoding json_to_cel({doc!r}) via json.{route} raised {enc[1]}")
            continue
        back = call(lambda: json.loads(enc[1]))
        if back[0] == "exc":
            viol(part, "not-json", f"roundtrip:{route}:not-json", wit, f"json.{route} of json_to_cel({doc!r}) produced unparsable text {enc[1]!r}")
            continue
        d = jsonref.first_diff(doc, back[1])
        if d:
            p, e, g = d
            if coarse(e) != coarse(g):
                what = f"{coarse(e)}->{coarse(g)}"
            elif coarse(e) == "float" and doc_at(doc, p) == 0:
                what = "float:zero-sign"
            else:
                what = f"{coarse(e)}:value-changed"
            viol(part, "lossy-round-trip", f"roundtrip:{route}:{what}", wit,
                           f"json.{route}(json_to_cel({doc!r}), cls=CELJSONEncoder) = {enc[1]!r}: at path {list(p)!r} expected {e}, got {g}")


def doc_at(doc, p):
    return jsonref.walk(doc, p)


def encode(adapter, value, route):
    if route == "dumps":
        return json.dumps(value, cls=adapter.CELJSONEncoder)
    buf = io.StringIO()
    json.dump(value, buf, cls=adapter.CELJSONEncoder)
    return buf.getvalue()


def conv_shard(task):
    tier, sname, shape, lo, hi = task
    import celpy.adapter as adapter

    st = stratum(tier, sname)
    part = runner.Part()
    n = 0
    for doc in st.docs(shape, lo, hi):
        n += 1
        conv_checks(part, doc, adapter, {})
        if n == 1 and lo == 0 and shape in ("scalars", "small", "arr2"):
            part.sample({"check": "conversion", "stratum": sname, "shape": shape, "first_doc": doc}, limit=1)
    part.space(f"docs:{sname}:conv", 0, n)
    return part


# ---- (c) navigation -------------------------------------------------------------------------------
_PROGS = {}


def prog(rk, text):
    p = _PROGS.get((rk, text))
    if p is None:
        p = _PROGS[(rk, text)] = celrun.Prog(rk, text)
    return p


def nav_expected(doc, path):
    return ("V",) + jsonref.canon(jsonref.walk(doc, path))


def nav_agrees(o, exp):
    return o[0] == "V" and o[1] == exp[1] and o[2] == exp[2]


def nav_blame(rk, doc, path, steps, adapter):
    """Shortest prefix of this spelling that already misses its element (each prefix on a fresh environment):
    (prefix length, its outcome).  The signature names that step, so one broken step kind gives one signature
    however long the paths that contain it."""
    for n in range(1, len(path) + 1):
        text = "doc" + "".join(t for _, t in steps[:n])
        o = celrun.Prog(rk, text).eval({"doc": adapter.json_to_cel(doc)})
        if not nav_agrees(o, nav_expected(doc, path[:n])):
            return n, o
    return len(path), None


def nav_sig(rk, path, steps, n, o):
    last = path[n - 1]
    kc = key_class(last) if type(last) is str else "idx"
    got = "wrong-element" if o[0] == "V" else outcome.label(o)
    if o[0] == "P" or (o[0] == "X" and o[1] != "evaluate"):  # failed before any document was seen: the key is irrelevant
        return f"nav:{rk}:{steps[n - 1][0]}:{got}"
    return f"nav:{rk}:{steps[n - 1][0]}:{kc}:{got}"


def nav_shard(task):
    tier, sname, shape, lo, hi, rk = task
    import celpy.adapter as adapter

    st = stratum(tier, sname)
    part = runner.Part()
    ndocs = ncases = 0
    for doc in st.docs(shape, lo, hi):
        ndocs += 1
        conv = call(lambda: adapter.json_to_cel(doc))
        for path in jsonref.positions(doc):
            exp = nav_expected(doc, path)
            label = "nav:" + exp[1]
            for text, steps in spellings(path):
                ncases += 1
                part.case()
                part.outcome(label)
                if conv[0] == "ok":
                    o = prog(rk, text).eval({"doc": conv[1]})
                    if nav_agrees(o, exp):
                        continue
                wit = {"check": "nav", "runner": rk, "doc": doc, "path": list(path), "text": text}
                if conv[0] == "exc":
                    viol(part, "conversion-raised", f"convert:json_to_cel:raised:{conv[1]}", wit, f"json_to_cel({doc!r}) raised {conv[1]}")
                    continue
                # reproduce from fresh objects before reporting (DESIGN 0, rule 3): fresh environment, program, conversion
                o2 = celrun.Prog(rk, text).eval({"doc": adapter.json_to_cel(doc)})
                if nav_agrees(o2, exp):
                    part.extra["state_dependent_mismatch"] += 1
                    part.notes.append(f"{rk} {text} over {doc!r}: reused program gave {outcome.short(o)}, fresh program agrees with the reference")
                    continue
                sub = call(lambda: outcome.V(adapter.json_to_cel(jsonref.walk(doc, path))))
                if sub[0] == "ok" and outcome.same_value(o2, sub[1]):
                    # navigation reached the element; the element differs from the model because the CONVERSION differs
                    # (root cause reported per document by the classmap cases): one signature, whatever the path
                    viol(part, "converted-element-differs", "nav:element-reached-but-converted-differently", wit,
                         f"runner {rk}: {text} over doc={doc!r} gives {outcome.short(o2)} = the library's conversion of the element, expected {outcome.short(exp)}")
                    continue
                n, on = nav_blame(rk, doc, path, steps, adapter)
                on = on or o2
                kind = "error-instead-of-element" if o2[0] == "E" else ("wrong-element" if o2[0] == "V" else "other-exception")
                viol(part, kind, nav_sig(rk, path, steps, n, on), wit,
                     f"runner {rk}: {text} over doc={doc!r}: expected {outcome.short(exp)}, got {outcome.short(o2)}"
                     + (f" (first step that misses: #{n} {steps[n - 1][1]} giving {outcome.short(on)})" if n < len(path) else ""))
        if ndocs == 1 and lo == 0 and shape == "arr2":
            part.sample({"check": "nav", "runner": rk, "stratum": sname, "doc": doc, "paths": [t for p in jsonref.positions(doc) for t, _ in spellings(p)]}, limit=1)
    part.space(f"docs:{sname}:nav-{rk}", 0, ndocs)
    part.space(f"paths:{sname}:nav-{rk}", 0, ncases)
    return part


# ---- timestamps, durations, bytes through the encoder ---------------------------------------------
T10_YEARS = [1, 2, 99, 100, 999, 1000, 1582, 1969, 1970, 2000, 2038, 9999]
LEAP_YEARS = [4, 1600, 2000, 2024]
OFFSETS_MIN = [0, 330, -330, 840, -840]
CONTEXTS = ["bare", "in-list", "in-map", "via-json_to_cel"]
DUR_SECONDS = [0, 1, 59, 60, 3599, 3600, 86399, 86400, 315575999999, 315576000000]


def instants(tier):
    years = range(1, 10000) if tier == "thorough" else T10_YEARS
    out = []
    for y in years:
        out.append((y, 1, 1, 0, 0, 0))
        out.append((y, 12, 31, 23, 59, 59))
    for y in (range(4, 10000, 4) if tier == "thorough" else LEAP_YEARS):
        if y % 100 != 0 or y % 400 == 0:
            out.append((y, 2, 29, 12, 34, 56))
    return [(civil, off, us) for civil in out for off in OFFSETS_MIN for us in (0,)] + \
           [((y, 6, 30, 12, 34, 56), off, us) for y in (1970, 2000) for off in OFFSETS_MIN for us in (1, 500000, 999999)]


def durations(tier):
    secs = set(DUR_SECONDS)
    if tier == "thorough":
        secs |= set(range(0, 3701))
        for k in range(1, 39):
            secs |= {v for v in (2 ** k - 1, 2 ** k, 2 ** k + 1) if v <= 315576000000}
        secs |= {10 ** k for k in range(12)}
    whole = sorted({s for s in secs} | {-s for s in secs}, key=lambda v: (abs(v), v))
    return [(n, 0) for n in whole] + [(0, 500000), (1, 500000), (-1, 500000), (0, 1), (-1, 999999), (59, 999999)]


def byte_strings(tier):
    for n in range(0, 5 if tier == "thorough" else 4):
        for t in itertools.product(A_B, repeat=n):
            yield bytes(t)


def wrap(ct, adapter, kind, value, ctx, raw):
    """The object handed to the encoder and the function that digs the text out of the decoded JSON."""
    if ctx == "in-list":
        return ct.ListType([value]), (lambda j: j[0] if type(j) is list and len(j) == 1 else ("shape", j))
    if ctx == "in-map":
        return ct.MapType({ct.StringType("k"): value}), (lambda j: j["k"] if type(j) is dict and list(j) == ["k"] else ("shape", j))
    if ctx == "via-json_to_cel":
        return adapter.json_to_cel(raw), (lambda j: j)
    return value, (lambda j: j)


def enc_text(ct, adapter, kind, make, ctx, raw):
    def go():
        obj, dig = wrap(ct, adapter, kind, make(), ctx, raw)
        return dig(json.loads(json.dumps(obj, cls=adapter.CELJSONEncoder)))
    return call(go)


def ts_reason(text):
    if type(text) is not str:
        return "not-a-string"
    m = re.match(r"^(\d+)-\d\d-\d\d[Tt]\d\d:\d\d:\d\d(\.\d+)?(.*)$", text)
    if not m:
        return "date-time-format"
    if len(m.group(1)) != 4:
        return "year-not-4-digits"
    return "offset-format"


def check_ts(part, ct, adapter, civil, off, us, ctx):
    y, mo, d, h, mi, s = civil
    tz = datetime.timezone(datetime.timedelta(minutes=off))
    raw = datetime.datetime(y, mo, d, h, mi, s, us, tzinfo=tz)
    wit = {"check": "enc-timestamp", "civil": list(civil), "offset_minutes": off, "microsecond": us, "ctx": ctx}
    got = enc_text(ct, adapter, "ts", lambda: ct.TimestampType(raw), ctx, raw)
    if us:
        part.case(nontrivial=False)
        part.outcome("ts:fraction-unspec")
        return
    part.case()
    offc = "Z" if off == 0 else ("+off" if off > 0 else "-off")
    part.outcome(f"ts:{offc}")
    name = f"{y:04d}-{mo:02d}-{d:02d}T{h:02d}:{mi:02d}:{s:02d} offset {off:+d}min"
    if got[0] == "exc":
        viol(part, "encoder-raised", f"enc:timestamp:raised:{got[1]}:{ctx}", wit, f"encoding timestamp {name} ({ctx}) raised {got[1]}")
        return
    parsed = jsonref.parse_rfc3339(got[1])
    if parsed is None:
        viol(part, "not-rfc3339", f"enc:timestamp:not-rfc3339:{ts_reason(got[1])}", wit, f"timestamp {name} ({ctx}) encoded as {got[1]!r}, which is not RFC 3339 date-time text")
        return
    want = jsonref.instant(y, mo, d, h, mi, s, off * 60)
    if parsed[0] != want or parsed[1].strip(".0"):
        viol(part, "wrong-instant", f"enc:timestamp:wrong-instant:{offc}", wit,
                       f"timestamp {name} ({ctx}) encoded as {got[1]!r}: denotes epoch second {parsed[0]}{parsed[1]}, expected {want}")


def check_dur(part, ct, adapter, n, us, route, ctx):
    td = datetime.timedelta(seconds=n, microseconds=us)
    wit = {"check": "enc-duration", "seconds": n, "microseconds": us, "route": route, "ctx": ctx}
    make = (lambda: ct.DurationType(td)) if route == "timedelta" else (lambda: ct.DurationType(n, us * 1000))
    got = enc_text(ct, adapter, "dur", make, ctx, td)
    if us:
        part.case(nontrivial=False)
        part.outcome("dur:fraction-unspec")
        return
    part.case()
    sgn = "zero" if n == 0 else ("neg" if n < 0 else "pos")
    part.outcome(f"dur:{sgn}")
    if got[0] == "exc":
        viol(part, "encoder-raised", f"enc:duration:raised:{got[1]}:{route}:{ctx}", wit, f"encoding duration {n}s ({route}, {ctx}) raised {got[1]}")
    elif jsonref.seconds_text_value(got[1]) != n:
        fmt = "format" if jsonref.seconds_text_value(got[1]) is None else "value"
        viol(part, "wrong-seconds-text", f"enc:duration:{fmt}:{sgn}", wit, f"duration of {n} s ({route}, {ctx}) encoded as {got[1]!r}, expected '{n}s'")


def check_bytes(part, ct, adapter, data, ctx):
    wit = {"check": "enc-bytes", "hex": data.hex(), "ctx": ctx}
    want = jsonref.b64(data)
    got = enc_text(ct, adapter, "bytes", lambda: ct.BytesType(data), ctx, None)
    part.case()
    special = "needs+/" if ("+" in want or "/" in want) else "alnum"
    part.outcome(f"bytes:pad{(3 - len(data) % 3) % 3}:{special}")
    if got[0] == "exc":
        viol(part, "encoder-raised", f"enc:bytes:raised:{got[1]}:{ctx}", wit, f"encoding bytes {data.hex()} ({ctx}) raised {got[1]}")
    elif type(got[1]) is not str or got[1] != want:
        viol(part, "wrong-base64", f"enc:bytes:{special}:len%3={len(data) % 3}", wit, f"bytes {data.hex()} ({ctx}) encoded as {got[1]!r}, expected {want!r}")


def enc_shard(task):
    tier, what, lo, hi = task
    import celpy.adapter as adapter
    import celpy.celtypes as ct

    part = runner.Part()
    n = 0
    if what == "timestamp":
        for civil, off, us in instants(tier)[lo:hi]:
            for ctx in CONTEXTS:
                n += 1
                check_ts(part, ct, adapter, civil, off, us, ctx)
    elif what == "duration":
        for secs, us in durations(tier)[lo:hi]:
            for route in ("timedelta", "int"):
                for ctx in CONTEXTS:
                    if ctx == "via-json_to_cel" and route == "int":
                        continue
                    n += 1
                    check_dur(part, ct, adapter, secs, us, route, ctx)
    else:
        for data in itertools.islice(byte_strings(tier), lo, hi):
            for ctx in CONTEXTS[:3]:
                n += 1
                check_bytes(part, ct, adapter, data, ctx)
    part.space(f"enc:{what}", 0, n)
    if lo == 0:
        part.sample({"check": "enc-" + what, "tier": tier, "contexts": CONTEXTS if what != "bytes" else CONTEXTS[:3]}, limit=1)
    return part


# ---- histories on ONE reused encoder / decoder object ---------------------------------------------
H_DOCS = ["s", True, 1, 1.0, None, [True, 1], {"a": False, "b": [0, True]}]
H_METHODS = ("encode", "iterencode")
H_MAXLEN = 3


def hist_ops():
    return [(m, i) for i in range(len(H_DOCS)) for m in H_METHODS]


def hist_count():
    n = len(hist_ops())
    return sum(n ** k for k in range(1, H_MAXLEN + 1))


def run_history(adapter, hist):
    """Outputs (text or ('exc', name)) of each step of a history on one fresh CELJSONEncoder and one fresh CELJSONDecoder."""
    enc = adapter.CELJSONEncoder()
    dec = adapter.CELJSONDecoder()
    out = []
    for m, i in hist:
        value = adapter.json_to_cel(H_DOCS[i])
        r = call(lambda: enc.encode(value) if m == "encode" else "".join(enc.iterencode(value)))
        d = call(lambda: dec.decode(json.dumps(H_DOCS[i])))
        out.append((r, d))
    return out


def hist_shard(task):
    lo, hi = task
    import celpy.adapter as adapter
    part = runner.Part()
    ops = hist_ops()
    idx = n = 0
    for k in range(1, H_MAXLEN + 1):
        for hist in itertools.product(ops, repeat=k):
            if lo <= idx < hi:
                n += 1
                m, i = hist[-1]
                doc = H_DOCS[i]
                r, d = run_history(adapter, hist)[-1]          # the last step is judged; every prefix is its own history
                part.case()
                part.outcome(f"history:{m}:{jsonref.kind(doc)}")
                wit = {"check": "history", "history": [[mm, H_DOCS[ii]] for mm, ii in hist]}
                after = "-after-".join(reversed([mm + ":" + jsonref.kind(H_DOCS[ii]) for mm, ii in hist[-2:]]))
                if r[0] == "exc":
                    viol(part, "encoder-raised", f"history:{after}:encoder-raised:{r[1]}", wit, f"step {len(hist)} of {wit['history']} on one CELJSONEncoder raised {r[1]}")
                else:
                    back = call(lambda: json.loads(r[1]))
                    diff = ("root", "json", "unparsable") if back[0] == "exc" else jsonref.first_diff(doc, back[1])
                    if diff:
                        viol(part, "lossy-round-trip", f"history:{after}:{coarse(diff[1])}->{coarse(diff[2])}", wit,
                             f"step {len(hist)} of {wit['history']} on one CELJSONEncoder gave {r[1]!r}: at {list(diff[0]) if diff[0] != 'root' else 'root'} expected {diff[1]}, got {diff[2]}")
                if d[0] == "exc":
                    viol(part, "conversion-raised", f"history:{after}:decoder-raised:{d[1]}", wit, f"step {len(hist)} of {wit['history']} on one CELJSONDecoder raised {d[1]}")
                else:
                    dd = jsonref.desc_diff(jsonref.expected_desc(doc), describe(d[1]))
                    if dd:
                        viol(part, "wrong-class", f"history:{after}:decoder:{coarse(dd[1])}->{coarse(dd[2])}", wit,
                             f"step {len(hist)} of {wit['history']} on one CELJSONDecoder: at {dd[0]} expected {dd[1]}, got {dd[2]}")
            idx += 1
    part.space("histories:encoder-decoder-reuse", n, n)
    return part


def plain_shard(task):
    """Shards that create no CEL environment (conversion, encoding): one pool for both."""
    return conv_shard(task[1]) if task[0] == "conv" else hist_shard(task[1]) if task[0] == "hist" else enc_shard(task[1])


# ---- model validation against the repository's pinned expectations ---------------------------------
def validate_model():
    """Soundness rule 2: the reference reading must agree with the literals pinned by /repo/tests (no library call)."""
    jsonref.selftest()
    # tests/test_package.py test_json_to_cel: the expected tree, transcribed
    doc = [{"bool": True}, {"numbers": [2.71828, 42]}, {"null": None}, {"string": 'embedded "quote"'}]
    s = "StringType"
    pinned = ("ListType", [("MapType", [((s, "bool"), ("BoolType", True))]),
                           ("MapType", [((s, "numbers"), ("ListType", [("DoubleType", jsonref.fbits(2.71828)), ("IntType", 42)]))]),
                           ("MapType", [((s, "null"), ("NoneType", None))]),
                           ("MapType", [((s, "string"), (s, 'embedded "quote"'))])])
    if jsonref.desc_diff(jsonref.expected_desc(doc), pinned) is not None or jsonref.expected_desc(1) != ("IntType", 1):  # test_decoder: {"bool": 1} -> IntType(1)
        raise runner.HarnessError("jsonref class mapping disagrees with tests/test_package.py::test_json_to_cel")
    # tests/test_package.py test_encoder: "Ynl0ZXM=", "2009-02-13T23:31:30Z", "42s"
    if jsonref.b64(bytes([0x62, 0x79, 0x74, 0x65, 0x73])) != "Ynl0ZXM=" or jsonref.seconds_text_value("42s") != 42 \
            or jsonref.parse_rfc3339("2009-02-13T23:31:30Z") != (1234567890, "", 0):
        raise runner.HarnessError("jsonref text formats disagree with tests/test_package.py::test_encoder")
    # tests/test_adapter.py: 2020-09-10T11:12:13Z from datetime(2020, 9, 10, 11, 12, 13, utc)
    if jsonref.parse_rfc3339("2020-09-10T11:12:13Z")[0] != jsonref.instant(2020, 9, 10, 11, 12, 13, 0):
        raise runner.HarnessError("jsonref calendar disagrees with itself")
    # the canonical form of the model must be the one mc.outcome produces (checked on plain Python values only)
    v = [True, 1, 1.0, -0.0, None, "1", {"a": [], "0": {"": 5e-324}}]
    if ("V",) + jsonref.canon(v) != outcome.V(v)[:3]:
        raise runner.HarnessError("jsonref.canon and mc.outcome.plain disagree on the canonical form")
    # stdlib datetime agrees with the model's calendar on the instants enumerated (trusted data cross-check)
    epoch = datetime.datetime(1970, 1, 1, tzinfo=datetime.timezone.utc)
    for (y, mo, d, h, mi, sec), off, us in instants("quick"):
        if 2 <= y <= 9998:
            dt = datetime.datetime(y, mo, d, h, mi, sec, tzinfo=datetime.timezone(datetime.timedelta(minutes=off)))
            delta = dt - epoch
            if delta.days * 86400 + delta.seconds != jsonref.instant(y, mo, d, h, mi, sec, off * 60):
                raise runner.HarnessError(f"jsonref.instant disagrees with datetime for {(y, mo, d, h, mi, sec, off)}")


# ---- pair histories of conversions: json_to_cel(d) alone and after json_to_cel of every other document -----------
# (documents that a table keyed by ``==`` / ``hash`` confuses: 1, 1.0, true; 0, 0.0, -0.0, false; equal texts)
PH_DOCS = [0.0, -0.0, 0, False, 1, 1.0, True, -1, -1.0, "1", "", None, [1], [1.0], [True], [0.0], [-0.0], {"a": 1}, {"a": 1.0}, {"a": True}, {"a": -0.0}, {"a": 0}, 2 ** 53, float(2 ** 53),
           I_MAX, float(2 ** 63), [0.0, -0.0], [-0.0, 0.0], [1, True, 1.0], [True, 1.0, 1]]


def ph_terms():
    return list(range(len(PH_DOCS)))


def ph_step(term):
    import celpy.adapter as adapter
    doc = PH_DOCS[term]
    try:
        v = adapter.json_to_cel(doc)
    except Exception as ex:  # noqa
        return ("X", type(ex).__name__)
    try:
        back = json.dumps(v, cls=adapter.CELJSONEncoder)
    except Exception as ex:  # noqa
        back = "raises-" + type(ex).__name__
    return ("V", repr(jsonref.class_tree(v)) if hasattr(jsonref, "class_tree") else _ph_tree(v), back)


def _ph_tree(v):
    if isinstance(v, dict):
        return (type(v).__name__, tuple((_ph_tree(k), _ph_tree(x)) for k, x in v.items()))
    if isinstance(v, (list, tuple)):
        return (type(v).__name__, tuple(_ph_tree(x) for x in v))
    return (type(v).__name__, repr(float(v)) if isinstance(v, float) else repr(v))


def ph_expected(term):
    doc = PH_DOCS[term]

    def tree(d):
        if d is None:
            return ("NoneType", "None")
        if isinstance(d, bool):
            return ("BoolType", f"BoolType(source={d})")
        return None
    return None


def ph_label(term):
    return json.dumps(PH_DOCS[term])


def ph_outcome_label(o):
    return o[0]


# ---- driver ---------------------------------------------------------------------------------------
def run(ctx):
    validate_model()
    strata = [Stratum(*s) for s in strata_for(ctx.tier)]
    ctx.rule = ("documents: every JSON term of exact depth d over arrays of length <= 2 and objects with <= 2 keys, per stratum "
                + "; ".join(f"{s.name} (depth {s.depth}, {len(s.scalars)} scalars, keys {s.keys!r})" for s in strata)
                + ". Per document 5 conversion cases (class/value tree via json_to_cel, via CELJSONDecoder, via json_to_cel applied twice; type-strict round trip via json.dumps and via json.dump "
                "with CELJSONEncoder) and, per runner, one navigation case per (valid non-empty path, spelling) with [i], [\"k\"] and .k for identifier keys. "
                "Encoder cases: whole-second instants x 5 offsets x 4 contexts, whole-second durations x 2 constructors x contexts, every byte string over A_b "
                "up to length " + ("4" if ctx.thorough else "3") + " x 3 contexts. Histories: every sequence of <= %d operations (encode | iterencode of one of %d documents) on ONE CELJSONEncoder "
                "object (and decode on ONE CELJSONDecoder object), the last step judged. A case is non-trivial unless it has fractional seconds (UNSPEC); "
                "cases are distinct by construction (strata are disjoint by depth)") % (H_MAXLEN, len(H_DOCS))
    ctx.assumptions = ["values, keys and shapes outside the alphabets are not explored; integers stay within int64",
                       "deeper strata use reduced scalar/key alphabets (listed in the rule); object key order is the alphabet's order only",
                       "json.dump (iterencode route) is read as 'serialising with the library's JSON encoder' alongside json.dumps",
                       "a zero UTC offset may be written Z or +00:00, and the offset of the text is free as long as the instant is the same",
                       "one program per distinct path text is reused across documents; a mismatch is re-run on a fresh environment before it is reported"]
    conv_tasks, nav_tasks = [], []
    for s in strata:
        for shape, lo, hi in s.tasks():
            conv_tasks.append((ctx.tier, s.name, shape, lo, hi))
            if s.depth >= 1:
                nav_tasks.append((ctx.tier, s.name, shape, lo, hi))
    n_years, n_leap = (9999, 9999 // 4 - 9999 // 100 + 9999 // 400) if ctx.thorough else (len(T10_YEARS), len(LEAP_YEARS))
    n_ts = (2 * n_years + n_leap) * len(OFFSETS_MIN) + 2 * len(OFFSETS_MIN) * 3      # whole-second instants + the UNSPEC fractional ones
    n_du = len(durations(ctx.tier))                                                   # a set union: counted, not closed-form
    n_by = sum(len(A_B) ** n for n in range(0, 5 if ctx.thorough else 4))
    if n_ts != len(instants(ctx.tier)):
        raise runner.HarnessError(f"instant alphabet has {len(instants(ctx.tier))} members, closed form says {n_ts}")
    enc_tasks = [(ctx.tier, what, lo, hi) for what, n in (("timestamp", n_ts), ("duration", n_du), ("bytes", n_by)) for lo, hi in runner.shards(n, 16)]
    ctx.run_shards(plain_shard, [("conv", t) for t in conv_tasks] + [("enc", t) for t in enc_tasks]
                   + [("hist", (lo, hi)) for lo, hi in runner.shards(hist_count(), 8)])
    # interpreter-kind and compiled-kind environments never share a process (DESIGN 2.6)
    for rk in ("I", "C"):
        ctx.run_shards(nav_shard, [t + (rk,) for t in nav_tasks])
    # cardinalities, computed independently of the enumeration loops
    spaces = ctx.part.spaces
    expected_cases = 0
    for s in strata:
        nd, nw = s.cardinality()
        spaces[f"docs:{s.name}:conv"]["cardinality"] = nd
        expected_cases += nd * (3 + len(ENCODE_ROUTES))
        if s.depth >= 1:
            for rk in ("I", "C"):
                spaces[f"docs:{s.name}:nav-{rk}"]["cardinality"] = nd
                spaces[f"paths:{s.name}:nav-{rk}"]["cardinality"] = nw
                expected_cases += nw
    spaces["enc:timestamp"]["cardinality"] = n_ts * 4
    spaces["enc:duration"]["cardinality"] = n_du * 7
    spaces["enc:bytes"]["cardinality"] = n_by * 3
    expected_cases += n_ts * 4 + n_du * 7 + n_by * 3
    spaces["histories:encoder-decoder-reuse"]["cardinality"] = hist_count()
    expected_cases += hist_count()
    from .. import pairhist
    expected_cases += pairhist.run(ctx, __name__)
    ctx.rule += (" Pair histories: json_to_cel + encode of each of %d documents that a table keyed by == / hash would confuse (0, 0.0, -0.0, false; 1, 1.0, true; ...) alone and after every "
                 "other one in the same process, started from the pristine process state: class tree, value reprs (sign of zero) and encoded text must be what the document gives alone." % len(PH_DOCS))
    ctx.coverage_extra["expected_cases"] = expected_cases
    ctx.coverage_extra["documents"] = sum(s.cardinality()[0] for s in strata)
    bad = {k: v for k, v in spaces.items() if v["cardinality"] != v["enumerated"]}
    if bad or ctx.part.evaluations != expected_cases:
        raise runner.HarnessError(f"enumerated {ctx.part.evaluations} cases, cardinality is {expected_cases}; spaces off: {bad}")


def replay(w):
    wit = w["witness"]
    if wit.get("space") == "pairhist":
        from .. import pairhist
        return pairhist.replay(w)
    import celpy.adapter as adapter
    import celpy.celtypes as ct

    validate_model()
    part = runner.Part()
    print("replaying", json.dumps(wit))
    chk = wit["check"]
    if chk in ("classmap", "roundtrip"):
        conv_checks(part, wit["doc"], adapter, {})
        hits = [v for v in part.violations if v["witness"]["check"] == chk and v["witness"]["route"] == wit["route"]]
    elif chk == "nav":
        doc, path, rk, text = wit["doc"], tuple(wit["path"]), wit["runner"], wit["text"]
        exp = nav_expected(doc, path)
        o = celrun.Prog(rk, text).eval({"doc": adapter.json_to_cel(doc)})
        print(f"runner {rk}: {text} with doc = json_to_cel({doc!r})\n  expected {outcome.short(exp)}\n  observed {outcome.short(o)}")
        hits = [] if nav_agrees(o, exp) else [{"detail": "navigation does not reach the element"}]
    elif chk == "history":
        hist = [(m, H_DOCS.index(d) if d in H_DOCS and type(H_DOCS[H_DOCS.index(d)]) is type(d) else [i for i, x in enumerate(H_DOCS) if jsonref.strict_equal(x, d)][0]) for m, d in wit["history"]]
        steps = run_history(adapter, hist)
        r, d = steps[-1]
        doc = H_DOCS[hist[-1][1]]
        print("  last step:", r, "decoded:", d[0])
        hits = []
        if r[0] == "exc" or jsonref.first_diff(doc, json.loads(r[1])):
            hits.append({"detail": f"encoder output {r[1]!r} for {doc!r}"})
        if d[0] == "exc" or jsonref.desc_diff(jsonref.expected_desc(doc), describe(d[1])):
            hits.append({"detail": f"decoder result for {doc!r}"})
    elif chk == "enc-timestamp":
        check_ts(part, ct, adapter, tuple(wit["civil"]), wit["offset_minutes"], wit["microsecond"], wit["ctx"])
        hits = part.violations
    elif chk == "enc-duration":
        check_dur(part, ct, adapter, wit["seconds"], wit["microseconds"], wit["route"], wit["ctx"])
        hits = part.violations
    elif chk == "enc-bytes":
        check_bytes(part, ct, adapter, bytes.fromhex(wit["hex"]), wit["ctx"])
        hits = part.violations
    else:
        raise runner.HarnessError(f"unknown witness check {chk!r}")
    for v in hits:
        print("  " + v["detail"])
    print("REPRODUCED" if hits else "not reproduced")
    return 1 if hits else 0
