"""C02 Logical operators absorb errors commutatively; conditionals are lazy (DESIGN.md section 3, C02).

Every assignment of {true, false, error (one leaf per failing mechanism), non-boolean} to the
operand positions of every nesting of ! && || ?: up to two operator levels, both runners and the
celtypes.logical_* functions, against a three-valued reference; plus every list of outcomes of
length <= 4 fed to all() / exists() under four predicate families.
"""
import itertools

from .. import celrun, gen, outcome, runner
from ..ref import UNSPEC, kleene

LEVEL = "exploration"

LEAVES = [("T", "true", "T"), ("F", "false", "F")] + [(f"E[{n}]", e, "E") for n, e in gen.ERROR_LEAVES] + [("N[1]", "1", ("N", "1")), ('N["s"]', '"s"', ("N", "s"))] + [
    # non-boolean values that Python calls falsy
    ("N[0]", "0", ("N", "0")), ('N[""]', '""', ("N", "")),
    # boolean operands that are a field selected from a parenthesised conditional / logical / macro expression
    ("T[sel-cond]", '(true ? {"ok": true} : {"ok": false}).ok', "T"), ("F[sel-or]", '(false || false ? {"ok": true} : {"ok": false}).ok', "F"),
    ("T[sel-macro]", '[{"ok": true}].map(m, m)[0].ok', "T"), ("E[sel-cond]", '(true ? {"ok": true} : {"ok": false}).nope', "E")]
REDUCED = [l for l in LEAVES if l[0] in ("T", "F", "E[ZeroDivisionError]", "N[1]")]


def leaf(l):
    return ("leaf", l[0], l[1], l[2])


def text(t):
    k = t[0]
    if k == "leaf":
        s = t[2]
        return s if s in ("true", "false", "1", '"s"', "nope", "0", '""') else f"({s})"
    if k == "not":
        return "!" + ptext(t[1])
    if k == "and":
        return f"{ptext(t[1])} && {ptext(t[2])}"
    if k == "or":
        return f"{ptext(t[1])} || {ptext(t[2])}"
    if k == "cond":
        return f"{ptext(t[1])} ? {ptext(t[2])} : {ptext(t[3])}"
    raise ValueError(t)


def ptext(t):
    s = text(t)
    return s if t[0] == "leaf" else f"({s})"


def ref(t):
    k = t[0]
    if k == "leaf":
        return t[3]
    if k == "not":
        return kleene.not_(ref(t[1]))
    if k == "and":
        return kleene.and_(ref(t[1]), ref(t[2]))
    if k == "or":
        return kleene.or_(ref(t[1]), ref(t[2]))
    if k == "cond":
        return kleene.cond(ref(t[1]), ref(t[2]), ref(t[3]))


def cls(t):
    """operand class for signatures"""
    if t[0] == "leaf":
        return t[1]
    r = ref(t)
    return "?" if r is UNSPEC else (r if isinstance(r, str) else "N")


def depth1(leaves):
    out = [("not", leaf(a)) for a in leaves]
    for op in ("and", "or"):
        out += [(op, leaf(a), leaf(b)) for a in leaves for b in leaves]
    out += [("cond", leaf(c), leaf(a), leaf(b)) for c in leaves for a in leaves for b in leaves]
    return out


def terms(tier):
    out = [leaf(l) for l in LEAVES] + depth1(LEAVES)
    sub = [leaf(l) for l in REDUCED] + depth1(REDUCED)   # 4 + 4 + 32 + 64 = 104
    d2 = [("not", a) for a in sub if a[0] != "leaf"]
    for op in ("and", "or"):
        d2 += [(op, a, b) for a in sub for b in sub if not (a[0] == "leaf" and b[0] == "leaf")]
    if tier == "thorough":
        br = [s for s in sub if s[0] in ("leaf", "not", "and", "or")]   # 40
        d2 += [("cond", c, a, b) for c in sub for a in br for b in br if not (c[0] == a[0] == b[0] == "leaf")]
    else:
        br = [s for s in sub if s[0] == "leaf"] + [s for s in sub if s[0] in ("and", "or")][:8]   # 12
        d2 += [("cond", c, a, b) for c in sub for a in br for b in br if not (c[0] == a[0] == b[0] == "leaf")]
    return out + d2


# ---- un-parenthesised chains: a || b || c (|| d), a && b && c (&& d) and the mixed forms, printed flat --------------
# The grammar nests them to the left; an evaluator is free to walk such a chain with a loop, and must then still
# absorb two adjacent errors before a deciding operand.
CHAIN_LEAVES = [l for l in LEAVES if l[0] in ("T", "F", "E[ZeroDivisionError]", "E[IndexError]", "N[1]", "N[0]")]


def chain_terms():
    """(tree, flat text) pairs"""
    import itertools
    lv = [leaf(l) for l in CHAIN_LEAVES]
    out = []
    for op, sym in (("or", "||"), ("and", "&&")):
        for n in (3, 4):
            for combo in itertools.product(lv, repeat=n):
                t = combo[0]
                for x in combo[1:]:
                    t = (op, t, x)
                out.append((t, f" {sym} ".join(text(x) for x in combo)))
    for a, b, c in itertools.product(lv, repeat=3):
        out.append((("or", a, ("and", b, c)), f"{text(a)} || {text(b)} && {text(c)}"))
        out.append((("or", ("and", a, b), c), f"{text(a)} && {text(b)} || {text(c)}"))
        out.append((("cond", a, b, ("or", c, a)), f"{text(a)} ? {text(b)} : {text(c)} || {text(a)}"))
    return out


def chain_shard(task):
    rk, lo, hi = task
    part = runner.Part()
    ts = chain_terms()[lo:hi]
    for t, e in ts:
        o = celrun.evaluate(rk, e)
        judge(part, f"chain{rk}", t, abstract(o), e)
    part.space(f"flat chains:{rk}", 0, len(ts))
    return part


def abstract(o):
    """Implementation outcome -> abstract outcome (X stays as is)."""
    if o[0] == "E":
        return "E"
    if o[0] == "V":
        if o[1] == "bool":
            return "T" if o[2] else "F"
        tag = {("int", 1): "1", ("string", "s"): "s", ("int", 0): "0", ("string", ""): ""}.get((o[1], o[2]), f"{o[1]}:{o[2]!r}")
        return ("N", tag)
    return ("X",) + tuple(o[1:])


def judge(part, path, t, got, expr):
    exp = ref(t)
    if exp is UNSPEC:
        part.case(nontrivial=False)
        part.outcome("UNSPEC")
        return
    part.case()
    part.outcome(exp if isinstance(exp, str) else "N")
    if got == exp:
        return
    root = t[0]
    ops = ",".join(cls(x) for x in t[1:]) if root != "leaf" else t[1]
    g = got if isinstance(got, str) else (":".join(map(str, got)))
    e = exp if isinstance(exp, str) else "N"
    kind = "other-exception" if (isinstance(got, tuple) and got[0] == "X") else "wrong-outcome"
    part.violation(kind, f"{path}:{root}:{ops}:expected={e}:got={g}", {"expr": expr, "path": path},
                   f"{path}: {expr!r}: expected {exp}, got {got}")


def expr_shard(task):
    rk, lo, hi, tier = task
    part = runner.Part()
    ts = terms(tier)[lo:hi]
    for t in ts:
        e = text(t)
        o = celrun.evaluate(rk, e)
        judge(part, f"expr{rk}", t, abstract(o), e)
    part.space(f"terms:{rk}", 0, len(ts))
    return part


def direct_shard(task):
    """depth-1 table straight through celtypes.logical_and / or / not / condition."""
    import celpy
    import celpy.celtypes as ct

    part = runner.Part()
    vals = {"T": ct.BoolType(True), "F": ct.BoolType(False), "E": celpy.CELEvalError("boom"), "N1": ct.IntType(1), "Ns": ct.StringType("s")}
    absv = {"T": "T", "F": "F", "E": "E", "N1": ("N", "1"), "Ns": ("N", "s")}

    def run(fn, *args):
        try:
            r = fn(*args)
        except TypeError:
            return "E"
        except Exception as ex:  # noqa
            return ("X", "direct", type(ex).__name__)
        if isinstance(r, celpy.CELEvalError):
            return "E"
        return abstract(outcome.V(r))

    n = 0
    for a in vals:
        t = ("not", ("leaf", a, a, absv[a]))
        judge(part, "direct", t, run(ct.logical_not, vals[a]), f"logical_not({a})")
        n += 1
        for b in vals:
            for op, fn in (("and", ct.logical_and), ("or", ct.logical_or)):
                t = (op, ("leaf", a, a, absv[a]), ("leaf", b, b, absv[b]))
                judge(part, "direct", t, run(fn, vals[a], vals[b]), f"logical_{op}({a}, {b})")
                n += 1
            for c in vals:
                t = ("cond", ("leaf", a, a, absv[a]), ("leaf", b, b, absv[b]), ("leaf", c, c, absv[c]))
                # the selected branch only: an error object in the other branch is ignored
                judge(part, "direct", t, run(ct.logical_condition, vals[a], vals[b], vals[c]), f"logical_condition({a}, {b}, {c})")
                n += 1
    part.space("direct:celtypes.logical_*", 5 + 2 * 25 + 125, n)
    return part


FAMILIES = [
    ("1 / x == 1", {"T": "1", "F": "2", "E": "0"}),
    ("{1: true, 2: false}[x]", {"T": "1", "F": "2", "E": "3"}),
    ("[true, false][x]", {"T": "0", "F": "1", "E": "5"}),
    ("x == 1 ? true : (x == 2 ? false : 1 / 0 > 0)", {"T": "1", "F": "2", "E": "3"}),
]
# element outcomes that are not boolean: Z a value Python calls falsy, N one it calls truthy (x itself is the predicate)
NB_FAMILY = ("x == 1 ? dyn(true) : (x == 2 ? dyn(false) : (x == 3 ? dyn(1 / 0 > 0) : (x == 4 ? dyn(0) : dyn(7))))", {"T": "1", "F": "2", "E": "3", "Z": "4", "N": "5"})
NB_ABS = {"T": "T", "F": "F", "E": "E", "Z": ("N", "0"), "N": ("N", "int:7")}


def macro_shard(task):
    rk, maxlen = task
    part = runner.Part()
    n = 0
    for fam, (pred, enc) in enumerate(FAMILIES):
        for k in range(0, maxlen + 1):
            for seq in itertools.product("TFE", repeat=k):
                lst = "[" + ", ".join(enc[s] for s in seq) + "]"
                for macro, fold in (("all", kleene.fold_all), ("exists", kleene.fold_exists)):
                    e = f"{lst}.{macro}(x, {pred})"
                    got = abstract(celrun.evaluate(rk, e))
                    exp = fold(list(seq))
                    part.case()
                    part.outcome("macro:" + exp)
                    n += 1
                    if got != exp:
                        g = got if isinstance(got, str) else ":".join(map(str, got))
                        # signature by the shape class of the list: what decides and what precedes it
                        shape = "".join(seq)
                        shape_cls = ("two-consecutive-errors-then-decider" if ("EE" in shape) else "errors-and-decider" if "E" in shape else "no-error")
                        part.violation("wrong-outcome", f"macro{rk}:{macro}:family{fam}:{shape_cls}:expected={exp}:got={g}", {"expr": e, "path": f"expr{rk}"},
                                       f"runner {rk}: {e!r}: expected {exp}, got {got}")
    part.space(f"macro-lists:{rk}", sum(3 ** k for k in range(maxlen + 1)) * len(FAMILIES) * 2, n)
    # lists that also hold non-boolean outcomes: a deciding element still decides; otherwise the property is silent
    pred, enc = NB_FAMILY
    m = 0
    for k in range(0, maxlen + 1):
        for seq in itertools.product("TFEZN", repeat=k):
            if not (set(seq) & {"Z", "N"}):
                continue
            lst = "[" + ", ".join(enc[s] for s in seq) + "]"
            for macro, fold in (("all", kleene.fold_all), ("exists", kleene.fold_exists)):
                e = f"{lst}.{macro}(x, {pred})"
                exp = fold([NB_ABS[s] for s in seq])
                m += 1
                if exp is UNSPEC:
                    part.case(nontrivial=False)
                    part.outcome("macro-nonbool:UNSPEC")
                    continue
                got = abstract(celrun.evaluate(rk, e))
                part.case()
                part.outcome("macro-nonbool:" + exp)
                if got != exp:
                    g = got if isinstance(got, str) else ":".join(map(str, got))
                    first = next(s for s in seq if s in "ZN")
                    part.violation("wrong-outcome", f"macro{rk}:{macro}:non-boolean-element:{'falsy' if first == 'Z' else 'truthy'}-first:expected={exp}:got={g}", {"expr": e, "path": f"expr{rk}"},
                                   f"runner {rk}: {e!r}: expected {exp}, got {got}")
    part.space(f"macro-lists-nonbool:{rk}", sum(5 ** k - 3 ** k for k in range(maxlen + 1)) * 2, m)
    return part


def commut_shard(task):
    """outcome(a OP b) == outcome(b OP a) on every pair of depth<=1 terms whose outcomes are in {T,F,E}."""
    rk, tier = task
    part = runner.Part()
    sub = [leaf(l) for l in LEAVES] + depth1(REDUCED)
    sub = [s for s in sub if ref(s) in ("T", "F", "E")]
    n = 0
    cache = {}

    def ev(e):
        if e not in cache:
            cache[e] = abstract(celrun.evaluate(rk, e))
        return cache[e]

    for i, a in enumerate(sub):
        for b in sub[i + 1:]:
            for op, sym in (("and", "&&"), ("or", "||")):
                e1, e2 = f"{ptext(a)} {sym} {ptext(b)}", f"{ptext(b)} {sym} {ptext(a)}"
                g1, g2 = ev(e1), ev(e2)
                part.case()
                part.outcome("commut:" + (g1 if isinstance(g1, str) else "N/X"))
                n += 1
                if g1 != g2:
                    part.violation("not-commutative", f"commut{rk}:{op}:{cls(a)},{cls(b)}", {"expr": e1, "swapped": e2, "path": f"expr{rk}"},
                                   f"runner {rk}: {e1!r} -> {g1} but {e2!r} -> {g2}")
    m = len(sub)
    part.space(f"commutativity:{rk}", m * (m - 1), n)
    return part


def run(ctx):
    kleene.selftest()
    ts = terms(ctx.tier)
    for rk in ("I", "C"):
        ctx.run_shards(expr_shard, [(rk, lo, hi, ctx.tier) for lo, hi in runner.shards(len(ts), 32)])
        ctx.part.spaces[f"terms:{rk}"]["cardinality"] = len(ts)
        nch = len(chain_terms())
        ctx.run_shards(chain_shard, [(rk, lo, hi) for lo, hi in runner.shards(nch, 16)])
        ctx.part.spaces[f"flat chains:{rk}"]["cardinality"] = nch
        ctx.run_shards(macro_shard, [(rk, 4 if not ctx.thorough else 5)])
        ctx.run_shards(commut_shard, [(rk, ctx.tier)])
    ctx.run_shards(direct_shard, [None])
    ctx.part.sample({"leaves": [(n, e) for n, e, _a in LEAVES]})
    ctx.part.sample({"examples": [text(ts[i]) for i in (20, 500, len(ts) // 2, len(ts) - 1)]})
    ctx.part.sample({"macro_families": [p for p, _e in FAMILIES]})
    ctx.rule = ("every term over {!, &&, ||, ?:} with <= 2 operator levels: level 1 over 22 leaves (true, false, one error leaf per failing mechanism x12, four non-boolean values incl. 0 and "", four operands selected as a field of a parenthesised conditional/logical/macro), "
                "level 2 over level-<=1 terms on the reduced leaf set {T, F, E, N}" + (" including all ternary roots" if ctx.thorough else " (ternary roots with a reduced branch set)") +
                "; every un-parenthesised chain a || b || c (|| d), a && b && c (&& d) and the mixed forms a || b && c, a && b || c, a ? b : c || a over six leaves (T, F, two different errors, two non-booleans), judged as the left-nested tree the grammar gives"
                "; every {T,F,E} list of length <= " + ("5" if ctx.thorough else "4") + " under four predicate families for all()/exists(), and every list over {T,F,E,falsy non-boolean,truthy non-boolean} of that length holding a non-boolean; the swap differential on every pair; each under both runners, "
                "level 1 also through celtypes.logical_*; a case whose reference outcome is UNSPEC (e.g. true && 1, !1) is counted but not compared")
    ctx.assumptions = ["nesting deeper than two operator levels is not explored", "host-function error leaves are C14's"]


def replay(w):
    wit = w["witness"]
    path = wit["path"]
    if path == "direct":
        print("direct celtypes path: re-run ./check C02 to reproduce", wit)
        return 1
    rk = path[-1]
    o = celrun.evaluate(rk, wit["expr"])
    print(wit["expr"], "runner", rk, "->", outcome.short(o))
    if "swapped" in wit:
        o2 = celrun.evaluate(rk, wit["swapped"])
        print(wit["swapped"], "->", outcome.short(o2))
        bad = abstract(o) != abstract(o2)
    else:
        print(w.get("detail", ""))
        exp = w["sig"].split("expected=")[1].split(":")[0] if "expected=" in w["sig"] else None
        g = abstract(o)
        bad = (g if isinstance(g, str) else "N") != exp
    print("REPRODUCED" if bad else "not reproduced")
    return 1 if bad else 0
