"""C14 Host functions bind uniformly as functions or methods and override built-ins
(DESIGN.md section 3, C14).

Every call shape x supplying style (list / dict) x callable kind x behaviour x runner; a recording
wrapper logs every invocation; oracle: call log (once per call site reached, with CEL-value
arguments equal to the evaluated argument terms) and program outcome computed by this module.
"""
import functools
import itertools
import sys

from .. import celrun, outcome, repo, runner

LEVEL = "exploration"

LOG = []
BEHAVIOUR = ["value"]


def _impl(*args):
    """The host function's behaviour (selected by BEHAVIOUR[0]); logs its arguments first."""
    import celpy
    import celpy.celtypes as ct
    LOG.append(tuple(outcome.V(a) if not isinstance(a, celpy.CELEvalError) else ("ERROR-OBJECT",) for a in args))
    b = BEHAVIOUR[0]
    if b == "value":
        return ct.IntType(100 + sum(int(a) for a in args if isinstance(a, int)))
    if b == "returns-error":
        return celpy.CELEvalError("host says no")
    if b == "raises-ValueError":
        raise ValueError("host value error")
    if b == "raises-TypeError":
        raise TypeError("host type error")
    if b == "raises-CELEvalError":
        raise celpy.CELEvalError("host raises the CEL error instead of returning it")
    if b == "raises-KeyError":
        raise KeyError("host key error")
    if b == "raises-ValueError-subclass":      # a ValueError all the same: json.loads, bytes.decode, int() of the host's own classes
        if len(args) % 2:
            raise UnicodeDecodeError("utf-8", b"\xff", 0, 1, "host decode error")
        import json
        json.loads("{bad")
    if b == "raises-TypeError-subclass":
        raise HostBadArgument("host type error of the host's own class")
    raise AssertionError(b)


class HostBadArgument(TypeError):
    pass


def f(*args):                      # module-level def in the harness module
    return _impl(*args)


class CallableObject:
    __name__ = "f"

    def __call__(self, *args):
        return _impl(*args)


class Holder:
    def f(self, *args):
        return _impl(*args)


def undecorated(*args):            # module-level; what a functools.wraps wrapper below is named after.  Must never be called.
    LOG.append(("UNDECORATED-FUNCTION-CALLED",))
    import celpy.celtypes as ct
    return ct.IntType(-1)


def make_callable(kind):
    if kind == "module-def":
        return globals()["f"]
    if kind == "wraps-wrapper":
        # a decorated host function: the wrapper carries __module__ / __qualname__ of the function it wraps
        @functools.wraps(undecorated)
        def wrapper(*args):
            return _impl(*args)
        wrapper.__name__ = "f"      # the name it is listed under; __qualname__ stays that of the wrapped function
        return wrapper
    if kind == "exec-defined":
        ns = {"__name__": "module_that_cannot_be_imported", "_impl": _impl}
        exec("def f(*args):\n    return _impl(*args)\n", ns)
        return ns["f"]
    if kind == "main-def":
        main = sys.modules["__main__"]

        def f_main(*args):
            return _impl(*args)
        f_main.__name__ = f_main.__qualname__ = "f"
        f_main.__module__ = "__main__"
        setattr(main, "f", f_main)
        return f_main
    if kind == "nested-def":
        return _closure()
    if kind == "lambda":
        return lambda *args: _impl(*args)
    if kind == "callable-object":
        return CallableObject()
    if kind == "partial":
        p = functools.partial(_impl)
        return p
    if kind == "bound-method":
        return Holder().f
    raise ValueError(kind)


def _closure():
    def f(*args):  # a closure named f
        return _impl(*args)
    return f


KINDS = ["module-def", "main-def", "nested-def", "lambda", "callable-object", "partial", "bound-method", "wraps-wrapper", "exec-defined"]
STYLES = ["dict", "list"]
BEHAVIOURS = ["value", "returns-error", "raises-ValueError", "raises-TypeError", "raises-CELEvalError", "raises-KeyError", "raises-ValueError-subclass", "raises-TypeError-subclass"]

# shape: (text, [call sites...]) ; a call site = (args as python ints or nested site index, reach)
# variables a=1, b=2, c=3, t=true
SHAPES = [
    ("f()", "call0"), ("f(a)", "call1"), ("f(a, b)", "call2"), ("f(a, b, c)", "call3"),
    ("a.f()", "meth0"), ("a.f(b)", "meth1"), ("a.f(b, c)", "meth2"),
    ("f(f(a))", "nested"), ("f(a) + f(b)", "sum"), ("[1, 2].map(v, f(v))", "map"),
    ("f(a) || true", "or-true"), ("false && f(a)", "and-false"), ("t ? f(a) : f(b)", "cond"),
    ("f(a) || false", "or-false"),
    # a host call inside the range of every macro (evaluated exactly once), also nested in another macro
    ("[f(a)].map(v, v)", "range-map"), ("[f(a)].filter(v, true)", "range-filter"), ("[f(a)].all(v, v > 0)", "range-all"),
    ("[f(a)].exists(v, v > 0)", "range-exists"), ("[f(a)].exists_one(v, v > 0)", "range-exists_one"),
    ("[2, 3].map(k, [f(k)].filter(x, x > 0))", "range-filter-nested"), ("[2, 3].map(k, [k.f()].map(x, x))", "range-map-nested"),
    # a variable (binding or macro variable) that merely shares the function's name: calls still reach the function
    ("f(a) + f", "var-call"), ("a.f() + f", "var-meth"), ("[1, 2].map(f, f(f))", "macro-var-call"), ("[1, 2].map(f, f.f())", "macro-var-meth"),
]
EXTRA_BINDINGS = {"var-call": {"f": 7}, "var-meth": {"f": 7}}


def expected(shape, behaviour):
    """-> (outcome spec, call-log spec).  outcome spec: ('int', n) | ('bool', b) | ('list', ..) | 'E'
    log spec: list of (args tuple, min count, max count)."""
    def val(*args):
        return 100 + sum(args)
    ok = behaviour == "value"
    if shape in ("call0",):
        return (("int", val()) if ok else "E"), [((), 1, 1)]
    if shape in ("call1", "meth0"):
        return (("int", val(1)) if ok else "E"), [((1,), 1, 1)]
    if shape in ("call2", "meth1"):
        return (("int", val(1, 2)) if ok else "E"), [((1, 2), 1, 1)]
    if shape in ("call3", "meth2"):
        return (("int", val(1, 2, 3)) if ok else "E"), [((1, 2, 3), 1, 1)]
    if shape == "nested":
        if ok:
            return ("int", val(val(1))), [((1,), 1, 1), ((val(1),), 1, 1)]
        return "E", [((1,), 1, 1)]                    # the outer call must not run on an error argument
    if shape == "sum":
        if ok:
            return ("int", val(1) + val(2)), [((1,), 1, 1), ((2,), 1, 1)]
        return "E", [((1,), 0, 1), ((2,), 0, 1)]      # evaluation order / early exit is not specified
    if shape == "map":
        if ok:
            return ("list", (("int", val(1)), ("int", val(2)))), [((1,), 1, 1), ((2,), 1, 1)]
        return "E", [((1,), 0, 1), ((2,), 0, 1)]
    if shape == "or-true":
        return ("bool", True), [((1,), 0, 1)]
    if shape == "and-false":
        return ("bool", False), [((1,), 0, 1)]
    if shape == "cond":
        return (("int", val(1)) if ok else "E"), [((1,), 1, 1), ((2,), 0, 0)]
    if shape in ("range-map", "range-filter"):
        return (("list", (("int", val(1)),)) if ok else "E"), [((1,), 1, 1)]
    if shape in ("range-all", "range-exists", "range-exists_one"):
        return (("bool", True) if ok else "E"), [((1,), 1, 1)]
    if shape in ("range-filter-nested", "range-map-nested"):
        if ok:
            return ("list", (("list", (("int", val(2)),)), ("list", (("int", val(3)),)))), [((2,), 1, 1), ((3,), 1, 1)]
        return "E", [((2,), 0, 1), ((3,), 0, 1)]
    if shape in ("var-call", "var-meth"):
        return (("int", val(1) + 7) if ok else "E"), [((1,), 1, 1)]
    if shape in ("macro-var-call", "macro-var-meth"):
        if ok:
            return ("list", (("int", val(1)), ("int", val(2)))), [((1,), 1, 1), ((2,), 1, 1)]
        return "E", [((1,), 0, 1), ((2,), 0, 1)]
    if shape == "or-false":
        # int || false: the property is silent for a non-boolean next to false; an error next to false is an error
        return (None if ok else "E"), [((1,), 1, 1)]
    raise ValueError(shape)


def bindings(shape=None):
    import celpy.celtypes as ct
    b = {"a": ct.IntType(1), "b": ct.IntType(2), "c": ct.IntType(3), "t": ct.BoolType(True)}
    b.update({k: ct.IntType(v) for k, v in EXTRA_BINDINGS.get(shape, {}).items()})
    return b


def check_log(log, spec):
    """log: list of arg tuples (canonical outcomes); spec: [(args ints, lo, hi)]"""
    problems = []
    for entry in log:
        if any(a == ("ERROR-OBJECT",) for a in entry):
            problems.append("called-with-an-error-object")
    plain = []
    for entry in log:
        plain.append(tuple((a[1], a[2]) if a[0] == "V" else a for a in entry))
    remaining = list(plain)
    for args, lo, hi in spec:
        want = tuple(("int", x) for x in args)
        n = sum(1 for e in remaining if e == want)
        if not (lo <= n <= hi):
            problems.append(f"call{args}-count={n}-expected-{lo}..{hi}")
        remaining = [e for e in remaining if e != want]
    if remaining:
        problems.append(f"unexpected-calls={len(remaining)}")
    for entry in log:
        for a in entry:
            if a[0] == "V" and a[3] not in ("IntType",):
                problems.append(f"argument-class={a[3]}")
    return problems


def shard(task):
    rk = task
    part = runner.Part()
    n = 0
    for (text, shape), style, kind, beh in itertools.product(SHAPES, STYLES, KINDS, BEHAVIOURS):
        if style == "list" and kind in ("lambda", "partial"):
            continue  # a list entry needs a usable __name__
        BEHAVIOUR[0] = beh
        fn = make_callable(kind)
        functions = {"f": fn} if style == "dict" else [fn]
        del LOG[:]
        prog = celrun.Prog(rk, text, functions=functions)
        o = prog.eval(bindings(shape))
        log = list(LOG)
        exp_o, exp_log = expected(shape, beh)
        n += 1
        if exp_o is None:
            part.case(nontrivial=False)
            part.outcome("UNSPEC")
            continue
        part.case()
        part.outcome("E" if exp_o == "E" else exp_o[0])
        got = "E" if o[0] == "E" else ((o[1], o[2]) if o[0] == "V" else ("X",) + tuple(o[1:]))
        base = f"{rk}:{style}:{kind}"
        if rk == "C" and beh == "returns-error" and (any(a == ("ERROR-OBJECT",) for e in log for a in e) or (o[0] == "V" and "CELEvalError" in repr(o[2]))):
            # one root cause: under the compiled runner a CELEvalError *returned* by a host function
            # travels on as an ordinary value (argument of the next call, element of a list)
            part.violation("returned-error-used-as-value", "C:returned-error-object-used-as-value",
                           {"runner": rk, "expr": text, "shape": shape, "style": style, "kind": kind, "behaviour": beh},
                           f"runner C: {text!r} ({style}/{kind}): the CELEvalError returned by f is used as a value: outcome {outcome.short(o)}, calls {log}")
            continue
        if got != exp_o:
            k = "other-exception" if (isinstance(got, tuple) and got[0] == "X") else ("error-instead-of-value" if got == "E" else ("value-instead-of-error" if exp_o == "E" else "wrong-value"))
            part.violation(k, f"{base}:{k}:{shape if k != 'other-exception' else got[1] + ':' + got[2]}:{beh if beh != 'value' else 'value'}",
                           {"runner": rk, "expr": text, "shape": shape, "style": style, "kind": kind, "behaviour": beh},
                           f"runner {rk}: {text!r} with f supplied as {style}/{kind}, behaviour {beh}: expected {exp_o}, got {outcome.short(o)}; calls logged {log}")
            continue
        probs = check_log(log, exp_log)
        if probs and shape == "cond" and probs == ["call(2,)-count=1-expected-0..0"]:
            part.violation("unselected-branch-evaluated", f"{rk}:conditional-evaluates-unselected-branch",
                           {"runner": rk, "expr": text, "shape": shape, "style": style, "kind": kind, "behaviour": beh},
                           f"runner {rk}: {text!r} ({style}/{kind}/{beh}): the host function of the unselected branch was invoked: call log {log}")
        elif probs:
            part.violation("call-log", f"{base}:call-log:{shape}:{beh}:{probs[0].split('=')[0]}", {"runner": rk, "expr": text, "shape": shape, "style": style, "kind": kind, "behaviour": beh},
                           f"runner {rk}: {text!r} ({style}/{kind}/{beh}): call log {log}: {probs}")
    part.space(f"call-shapes:{rk}", n, n)
    # built-in override: for this program only, in every order
    import celpy.celtypes as ct

    def my_size(x):
        return ct.IntType(99)
    my_size.__name__ = "size"
    for order in (("A", "B"), ("B", "A"), ("A", "B", "A"), ("B", "A", "B")):
        for form in ('size("abc")', '"abc".size()'):
            env = celrun.make_env(rk)
            progs = {}
            res = []
            for which in order:
                try:
                    if which not in progs:
                        progs[which] = env.program(env.compile(form), functions={"size": my_size} if which == "A" else None)
                    res.append(outcome.run(lambda: progs[which].evaluate({})))
                except Exception as ex:  # noqa
                    res.append(outcome.of_exception(ex, "program"))
            exp = [("int", 99) if w == "A" else ("int", 3) for w in order]
            part.case()
            part.outcome("override")
            got = [(o[1], o[2]) if o[0] == "V" else o[0] + ":" + ":".join(map(str, o[1:])) for o in res]
            if got != exp:
                part.violation("override-scope", f"{rk}:override:{form.split('(')[0] if form.startswith('size') else 'method'}:{'-'.join(order)}:{'/'.join(str(g) for g in got if not isinstance(g, tuple)) or 'wrong-value'}",
                               {"runner": rk, "order": list(order), "form": form}, f"runner {rk}: programs {order} for {form}: expected {exp}, got {got}")
    # unbound names
    for text in ("g(a)", "a.g()", "a.g(b)", "g()"):
        o = celrun.evaluate(rk, text, bindings())
        part.case()
        part.outcome("unbound")
        if o[0] != "E":
            part.violation("unbound-not-an-error", f"{rk}:unbound:{text}:{outcome.label(o)}", {"runner": rk, "expr": text, "shape": "unbound", "style": None, "kind": None, "behaviour": None},
                           f"runner {rk}: {text!r} with no function g: expected an evaluation error, got {outcome.short(o)}")
    part.space(f"override-and-unbound:{rk}", 12, 12)
    return part


# ---- two programs in one process: the second program's host function must be the one IT was given ----------------
# (whatever an earlier program -- built with another kind of callable that may carry the same module / qualified name,
# e.g. the very function a functools.wraps wrapper wraps -- left behind in the process)
H_SHAPES = [("f(a)", "call1"), ("a.f(b)", "meth1"), ("[1, 2].map(v, f(v))", "map")]
H_FIRST = KINDS + ["wrapped-itself"]


def hist_shard(rk):
    from ..explore import procstate
    part = runner.Part()
    repo.memoise_lark()
    snap = procstate.snapshot()
    n = 0
    left = set()
    for k1, k2, style, (text, shape) in itertools.product(H_FIRST, KINDS, STYLES, H_SHAPES):
        if style == "list" and (k2 in ("lambda", "partial") or k1 in ("lambda", "partial")):
            continue
        left.update(procstate.restore(snap))
        BEHAVIOUR[0] = "value"
        fn1 = undecorated if k1 == "wrapped-itself" else make_callable(k1)
        celrun.Prog(rk, "f(a)", functions={"f": fn1} if style == "dict" else ({"f": fn1} if k1 == "wrapped-itself" else [fn1])).eval(bindings("call1"))
        fn2 = make_callable(k2)
        del LOG[:]
        o = celrun.Prog(rk, text, functions={"f": fn2} if style == "dict" else [fn2]).eval(bindings(shape))
        log = list(LOG)
        exp_o, exp_log = expected(shape, "value")
        n += 1
        part.case()
        part.outcome("two-programs:" + outcome.label(o))
        got = "E" if o[0] == "E" else ((o[1], o[2]) if o[0] == "V" else ("X",) + tuple(o[1:]))
        probs = [] if got != exp_o else check_log(log, exp_log)
        if got != exp_o or probs:
            part.violation("second-program-host-function", f"{rk}:{style}:two-programs:{k1}-then-{k2}:{shape}:{'outcome' if got != exp_o else 'call-log'}",
                           {"runner": rk, "history": True, "first_kind": k1, "kind": k2, "style": style, "expr": text, "shape": shape},
                           f"runner {rk}: after a program whose f was supplied as {k1}, {text!r} with f supplied as {style}/{k2}: expected {exp_o}, got {outcome.short(o)}; calls logged {log} {probs}")
    part.space(f"two-program histories:{rk}", n, n)
    for name in sorted(left):
        part.extra[f"left_behind:{name}"] += 1
    return part


def run(ctx):
    for rk in ("I", "C"):
        ctx.run_shards(shard, [rk])
    for rk in ("I", "C"):
        ctx.run_shards(hist_shard, [rk])
    ctx.part.sample({"shapes": [s for s, _ in SHAPES], "styles": STYLES, "callable_kinds": KINDS, "behaviours": BEHAVIOURS})
    ctx.rule = ("every call shape (0-3 arguments, function and method form, nested, in +, in map, beside || / &&, in ?:, in the range of each macro, beside a variable or macro variable of the same name) x supplying style (dict, list) x callable kind (module-level def, def in __main__, closure, lambda, "
                "callable object, functools.partial, bound method, functools.wraps wrapper of another function, function defined by exec in a namespace that is no module) x behaviour (value, returned CELEvalError, raised ValueError / TypeError / CELEvalError / KeyError) x runner; plus built-in override scope in every program order and unbound names; plus two-program histories: a program whose f is any kind of callable (or the very function the wraps-wrapper wraps) followed, from the pristine process state, by a program with every other kind, judged by outcome and call log; "
                "a case is one program evaluation whose outcome AND call log are compared; `int || false` is counted, not compared")
    ctx.assumptions = ["arguments are small ints; evaluation order between sibling call sites is not asserted (counts only)"]


def replay(w):
    wit = w["witness"]
    if wit.get("history"):
        BEHAVIOUR[0] = "value"
        k1, style = wit["first_kind"], wit["style"]
        fn1 = undecorated if k1 == "wrapped-itself" else make_callable(k1)
        celrun.Prog(wit["runner"], "f(a)", functions={"f": fn1} if (style == "dict" or k1 == "wrapped-itself") else [fn1]).eval(bindings("call1"))
        fn2 = make_callable(wit["kind"])
        del LOG[:]
        o = celrun.Prog(wit["runner"], wit["expr"], functions={"f": fn2} if style == "dict" else [fn2]).eval(bindings(wit["shape"]))
        exp_o, exp_log = expected(wit["shape"], "value")
        got = "E" if o[0] == "E" else ((o[1], o[2]) if o[0] == "V" else ("X",) + tuple(o[1:]))
        print("after a program with f as", k1, ":", wit["expr"], style, wit["kind"], "->", outcome.short(o), "expected", exp_o, "log", LOG)
        bad = got != exp_o or bool(check_log(list(LOG), exp_log))
        print("REPRODUCED" if bad else "not reproduced")
        return 1 if bad else 0
    if wit.get("shape") in (None, "unbound") or "order" in wit:
        print("re-run ./check C14 to reproduce", wit)
        return 1
    BEHAVIOUR[0] = wit["behaviour"]
    fn = make_callable(wit["kind"])
    functions = {"f": fn} if wit["style"] == "dict" else [fn]
    del LOG[:]
    o = celrun.Prog(wit["runner"], wit["expr"], functions=functions).eval(bindings(wit["shape"]))
    exp_o, exp_log = expected(wit["shape"], wit["behaviour"])
    got = "E" if o[0] == "E" else ((o[1], o[2]) if o[0] == "V" else ("X",) + tuple(o[1:]))
    print(wit["expr"], wit["style"], wit["kind"], wit["behaviour"], "->", outcome.short(o), "expected", exp_o, "log", LOG)
    bad = got != exp_o or bool(check_log(list(LOG), exp_log))
    print("REPRODUCED" if bad else "not reproduced")
    return 1 if bad else 0
