"""C01 Numeric operators are exact (DESIGN.md section 3, C01).

Bounded-exhaustive: every ordered pair over the int64 / uint64 boundary alphabets and the
double alphabet, every operator, four access paths (dunder, reflected dunder, parsed
expression with bound variables under both runners, literal spelling under both runners),
against exact integer arithmetic / rational-rounded binary64.
"""
import itertools
import math

from .. import celrun, outcome, runner
from ..ref import ieee, intarith
from ..ref.intarith import ERR

LEVEL = "exploration"
OPS = ["+", "-", "*", "/", "%"]
DUNDER = {"+": "add", "-": "sub", "*": "mul", "/": "truediv", "%": "mod"}
DOPS = ["+", "-", "*", "/"]
ERRS = (ValueError, TypeError, ZeroDivisionError, OverflowError)

D_VALUES = [0.0, 5e-324, 2.2250738585072014e-308, 0.5, 1.0, 1.5, 3.0, 2.0 ** 53, 1e308,
            1.7976931348623157e308, math.inf]
D_VALUES = D_VALUES + [-v for v in D_VALUES]
D_EXTRA = [0.1, 0.2, 0.3, 1e-320, 4.9e-324 * 3, 2.0 ** -1022, 2.0 ** 1023, 9007199254740993.0, 1 / 3]


def alphabets(tier):
    if tier == "thorough":
        ks = range(1, 64)
        d = D_VALUES + D_EXTRA + [-v for v in D_EXTRA]
    else:
        ks = (7, 8, 15, 16, 31, 32, 53, 62)
        d = D_VALUES
    bi = intarith.boundary("int", ks)
    bu = intarith.boundary("uint", list(ks) + [63])
    return bi, bu, d


def iclass(kind, v):
    lo, hi = (intarith.I_MIN, intarith.I_MAX) if kind == "int" else (0, intarith.U_MAX)
    if v == lo and kind == "int":
        return "MIN"
    if v == hi:
        return "MAX"
    return "neg" if v < 0 else ("zero" if v == 0 else "pos")


def dclass(v):
    if v != v:
        return "nan"
    s = "-" if math.copysign(1, v) < 0 else "+"
    if math.isinf(v):
        return s + "inf"
    if v == 0:
        return s + "0"
    return s + "fin"


def judge_int(part, kind, op, a, b, path, got):
    """got: ('val', int) | ('err',) | ('other', text)"""
    exp = intarith.binop(kind, op, a, b) if b is not None else intarith.neg(kind, a)
    part.outcome("err" if exp == ERR else "val")
    ok = (got == ("err",)) if exp == ERR else (got == ("val", exp))
    if ok:
        return
    if got[0] == "other":
        k = "other-exception"
    elif exp == ERR:
        k = "value-instead-of-error"
    elif got == ("err",):
        k = "error-instead-of-value"
    else:
        k = "wrong-value"
    sig = f"{kind}:{op}:{path}:{k}:{iclass(kind, a)},{iclass(kind, b) if b is not None else '-'}"
    part.violation(k, sig, {"domain": kind, "op": op, "a": a, "b": b, "path": path},
                   f"{kind} {a} {op} {b} via {path}: expected {exp}, got {got}")


def lit(kind, v):
    return f"{v}u" if kind == "uint" else f"{v}"


def int_shard(task):
    kind, rk, path, pairs_lo, pairs_hi, tier = task
    import celpy.celtypes as ct

    cls = ct.IntType if kind == "int" else ct.UintType
    bi, bu, _ = alphabets(tier)
    alpha = bi if kind == "int" else bu
    n = len(alpha)
    part = runner.Part()
    progs = {}
    if path == "bound":
        for op in OPS:
            progs[op] = celrun.Prog(rk, f"x {op} y")
        progs["neg"] = celrun.Prog(rk, "-x")
    for idx in range(pairs_lo, pairs_hi):
        a, b = alpha[idx // n], alpha[idx % n]
        for op in OPS:
            part.case()
            if path == "dunder" or path == "reflected":
                try:
                    A, B = cls(a), cls(b)
                    if path == "dunder":
                        r = getattr(A, f"__{DUNDER[op]}__")(B)
                    else:
                        r = getattr(B, f"__r{DUNDER[op]}__")(A)
                    got = ("val", int(r)) if isinstance(r, int) and not isinstance(r, bool) else ("other", repr(r))
                except ERRS:
                    got = ("err",)
                except Exception as ex:  # noqa
                    got = ("other", type(ex).__name__)
            else:
                if path == "bound":
                    o = progs[op].eval({"x": cls(a), "y": cls(b)})
                else:
                    o = celrun.evaluate(rk, f"({lit(kind, a)}) {op} ({lit(kind, b)})")
                if o[0] == "V" and o[1] in ("int", "uint"):
                    got = ("val", o[2])
                elif o[0] == "E":
                    got = ("err",)
                else:
                    got = ("other", outcome.short(o))
            judge_int(part, kind, op, a, b, f"{path}{rk or ''}", got)
        if idx % n == 0 and path in ("bound", "literal"):  # two adjacent unary minus signs: the inner one must still overflow / have no overload
            for form, txt in (("neg-neg", "- - x" if path == "bound" else f"- - ({lit(kind, a)})"), ("neg-paren-neg", "-(-x)" if path == "bound" else f"-(-({lit(kind, a)}))")):
                part.case()
                inner = intarith.neg(kind, a)
                exp2 = ERR if inner == ERR else intarith.neg(kind, inner)
                o = celrun.evaluate(rk, txt, {"x": cls(a)}) if path == "bound" else celrun.evaluate(rk, txt)
                got = ("val", o[2]) if (o[0] == "V" and o[1] in ("int", "uint")) else (("err",) if o[0] == "E" else ("other", outcome.short(o)))
                part.outcome("err" if exp2 == ERR else "val")
                if not ((got == ("err",)) if exp2 == ERR else (got == ("val", exp2))):
                    k2 = "value-instead-of-error" if exp2 == ERR else ("error-instead-of-value" if got == ("err",) else "wrong-value")
                    part.violation(k2, f"{kind}:{form}:{path}{rk}:{k2}:{iclass(kind, a)}", {"domain": kind, "op": form, "a": a, "b": None, "path": f"{path}{rk}"},
                                   f"{kind} {txt} with x={a} via {path}{rk}: expected {exp2}, got {got}")
        if idx % n == 0:  # unary minus once per a
            part.case()
            if path in ("dunder", "reflected"):
                try:
                    r = cls(a).__neg__()
                    got = ("val", int(r))
                except ERRS:
                    got = ("err",)
                except Exception as ex:  # noqa
                    got = ("other", type(ex).__name__)
            else:
                o = progs["neg"].eval({"x": cls(a)}) if path == "bound" else celrun.evaluate(rk, f"-({lit(kind, a)})")
                got = ("val", o[2]) if (o[0] == "V" and o[1] in ("int", "uint")) else (("err",) if o[0] == "E" else ("other", outcome.short(o)))
            judge_int(part, kind, "neg", a, None, f"{path}{rk or ''}", got)
    part.space(f"{kind}-pairs:{path}{rk or ''}", 0, pairs_hi - pairs_lo)
    if pairs_lo == 0:
        part.sample({"domain": kind, "path": path, "runner": rk, "first_pair": [alpha[0], alpha[0]], "last_pair": [alpha[-1], alpha[-1]], "ops": OPS + ["neg"]})
    return part


def dlit(v):
    return repr(float(v))


def judge_dbl(part, op, a, b, path, got):
    exp = ieee.canon(ieee.OPS[op](a, b)) if b is not None else ieee.canon(ieee.neg(a))
    part.outcome("d:" + ("nan" if exp == "nan" else dclass(outcome.unfloat(exp))))
    if got == ("val", exp):
        return
    k = "wrong-value" if got[0] == "val" else ("error-instead-of-value" if got[0] == "err" else "other-exception")
    sig = f"double:{op}:{path}:{k}:{dclass(a)},{dclass(b) if b is not None else '-'}"
    shown = outcome.unfloat(got[1]) if got[0] == "val" else got
    part.violation(k, sig, {"domain": "double", "op": op, "a": dlit(a), "b": dlit(b) if b is not None else None, "path": path},
                   f"double {a!r} {op} {b!r} via {path}: expected {outcome.unfloat(exp)!r}, got {shown!r}")


def dbl_shard(task):
    rk, path, tier = task
    import celpy.celtypes as ct

    _, _, dv = alphabets(tier)
    part = runner.Part()
    progs = {op: celrun.Prog(rk, f"x {op} y") for op in DOPS} if path == "bound" else {}
    if path == "bound":
        progs["neg"] = celrun.Prog(rk, "-x")

    def fold_o(o):
        if o[0] == "V" and o[1] == "double":
            return ("val", o[2])
        return ("err",) if o[0] == "E" else ("other", outcome.short(o))

    def fold_v(fn):
        try:
            r = fn()
        except ERRS:
            return ("err",)
        except Exception as ex:  # noqa
            return ("other", type(ex).__name__)
        if isinstance(r, float):
            return ("val", "nan" if r != r else ieee.bits(r))
        return ("other", repr(r))

    for a in dv:
        for b in dv:
            for op in DOPS:
                if path == "literal" and (math.isinf(a) or math.isinf(b)):
                    continue
                part.case()
                if path == "dunder":
                    got = fold_v(lambda: getattr(ct.DoubleType(a), f"__{DUNDER[op]}__")(ct.DoubleType(b)))
                elif path == "reflected":
                    got = fold_v(lambda: getattr(ct.DoubleType(b), f"__r{DUNDER[op]}__")(ct.DoubleType(a)))
                elif path == "pyfloat-left":
                    import operator
                    fn = {"+": operator.add, "-": operator.sub, "*": operator.mul, "/": operator.truediv}[op]
                    got = fold_v(lambda: fn(float(a), ct.DoubleType(b)))
                elif path == "bound":
                    got = fold_o(progs[op].eval({"x": ct.DoubleType(a), "y": ct.DoubleType(b)}))
                else:
                    got = fold_o(celrun.evaluate(rk, f"({dlit(a)}) {op} ({dlit(b)})"))
                judge_dbl(part, op, a, b, f"{path}{rk or ''}", got)
        if path == "literal" and math.isinf(a):
            continue
        part.case()
        if path in ("dunder", "reflected", "pyfloat-left"):
            got = fold_v(lambda: ct.DoubleType(a).__neg__())
        elif path == "bound":
            got = fold_o(progs["neg"].eval({"x": ct.DoubleType(a)}))
        else:
            got = fold_o(celrun.evaluate(rk, f"-({dlit(a)})"))
        judge_dbl(part, "neg", a, None, f"{path}{rk or ''}", got)
    part.space(f"double-pairs:{path}{rk or ''}", 0, 0)
    if path == "dunder":
        part.sample({"domain": "double", "alphabet": [dlit(v) for v in dv]})
    return part


def run(ctx):
    intarith.selftest()
    ieee.selftest()
    bi, bu, dv = alphabets(ctx.tier)
    ctx.rule = ("every ordered pair over the int64 boundary alphabet (MIN, MAX, 0, +-1..3, +-2^k, +-2^k+-1; k in "
                + ("1..63" if ctx.thorough else "{7,8,15,16,31,32,53,62}") + f"; {len(bi)} values), the uint64 alphabet ({len(bu)} values) and the double alphabet "
                f"({len(dv)} values incl. +-0, subnormal, max, +-inf) x every operator (+ - * / %, unary -) x access path (dunder, reflected dunder, "
                "bound variables under each runner, literal spelling under each runner); a case is (domain, a, b, op, path); every case is "
                "non-trivial (compared with exact arithmetic), distinct by construction")
    ctx.assumptions = ["operands outside the alphabets are not explored", "double reference: Fraction arithmetic rounded once by CPython's int/int true division"]
    tasks = []
    for kind, alpha in (("int", bi), ("uint", bu)):
        n2 = len(alpha) ** 2
        for path, rks in (("dunder", [None]), ("reflected", [None]), ("bound", ["I", "C"]), ("literal", ["I", "C"])):
            for rk in rks:
                if path == "literal" and not ctx.thorough:
                    # quick: literal spelling for every a against a reduced b-set is done by striding rows
                    pass
                k = 8 if path in ("dunder", "reflected") else 16
                for lo, hi in runner.shards(n2, k):
                    tasks.append((kind, rk, path, lo, hi, ctx.tier))
    # interpreter-kind and compiled-kind environments never share a process (DESIGN 2.6)
    for group in (None, "I", "C"):
        ctx.run_shards(int_shard, [t for t in tasks if t[1] == group])
    dtasks = [(None, "dunder", ctx.tier), (None, "reflected", ctx.tier), (None, "pyfloat-left", ctx.tier)]
    ctx.run_shards(dbl_shard, dtasks)
    for rk in ("I", "C"):
        ctx.run_shards(dbl_shard, [(rk, "bound", ctx.tier), (rk, "literal", ctx.tier)])
    # cardinalities: computed independently of the loops above
    npaths = 6
    for kind, alpha in (("int", bi), ("uint", bu)):
        for name, s in ctx.part.spaces.items():
            if name.startswith(kind + "-pairs"):
                s["cardinality"] = len(alpha) ** 2
    exp_int = sum((len(a) ** 2 * 5 + len(a)) * npaths + len(a) * 2 * 4 for a in (bi, bu))
    fin = [v for v in dv if not math.isinf(v)]
    exp_dbl = (len(dv) ** 2 * 4 + len(dv)) * 5 + (len(fin) ** 2 * 4 + len(fin)) * 2
    n_ph = _pairhist.run(ctx, __name__)
    ctx.rule += (f" Pair histories: each of {len(PH_TEXTS)} literal operations (integer boundary cases with known results, divisions by zero of both signs, signed zeros; both runners) alone and "
                 "after every operation including itself in one process, started from the pristine process state: the exact result and the result alone.")
    ctx.coverage_extra["expected_cases"] = exp_int + exp_dbl + n_ph
    if ctx.part.evaluations != exp_int + exp_dbl + n_ph:
        raise runner.HarnessError(f"enumerated {ctx.part.evaluations} cases, cardinality is {exp_int + exp_dbl + n_ph}")
    for name, s in ctx.part.spaces.items():
        if name.startswith("double"):
            s["cardinality"] = s["enumerated"] = len(dv) ** 2 if "literal" not in name else len(fin) ** 2


# ---- pair histories (mc/pairhist.py): an operation alone and after every other one in the same process ----------
PH_EXPECTED = {"7 % -2": ("V", "int", 1), "-7 % 2": ("V", "int", -1), "7 / -2": ("V", "int", -3), "-7 / 2": ("V", "int", -3), "7 % 2": ("V", "int", 1), "-7 % -2": ("V", "int", -1),
               "9223372036854775807 + 1": ("E",), "-9223372036854775807 - 1": ("V", "int", -9223372036854775808), "-9223372036854775807 - 2": ("E",), "4611686018427387904 * 2": ("E",),
               "-4611686018427387904 * 2": ("V", "int", -9223372036854775808), "1u - 2u": ("E",), "5u / 2u": ("V", "uint", 2), "5u % 2u": ("V", "uint", 1), "18446744073709551615u + 1u": ("E",),
               "1 / 0": ("E",), "1 % 0": ("E",), "1u / 0u": ("E",), "2 * 3": ("V", "int", 6), "3 - 5": ("V", "int", -2), "1 + 2": ("V", "int", 3), "1u + 2u": ("V", "uint", 3),
               "(-9223372036854775807 - 1) / -1": ("E",), "(-9223372036854775807 - 1) % -1": ("V", "int", 0), "-(-9223372036854775807 - 1)": ("E",), "9223372036854775807 % 9223372036854775806": ("V", "int", 1)}
# NaN operands from different sources (each a different float object): NaN op anything is NaN, also over a zero divisor
_NAN = ("V", "double", "nan")
PH_EXPECTED.update({t: _NAN for t in ["0.0 / 0.0", "(0.0 / 0.0) / 0.0", "(0.0 / 0.0) / -0.0", "(1.0 / 0.0 - 1.0 / 0.0) / 0.0", "(1.0 / 0.0 - 1.0 / 0.0) / -0.0", "(1.0 / 0.0 * 0.0) / 0.0",
                                      "(-1.0 / 0.0 + 1.0 / 0.0) / 0.0", "(0.0 / 0.0) * 0.0", "(1.0 / 0.0 - 1.0 / 0.0) + 1.0", "1.0 / (0.0 / 0.0)", "0.0 / (1.0 / 0.0 - 1.0 / 0.0)", "-(0.0 / 0.0)",
                                      "(0.0 / 0.0) - (0.0 / 0.0)", "(1.0 / 0.0 - 1.0 / 0.0) * (1.0 / 0.0)", "1.0 / 0.0 - 1.0 / 0.0", "(1.0 / 0.0) * 0.0"]})
PH_TEXTS = list(PH_EXPECTED) + ['double("NaN") / 0.0', 'double("nan") / -0.0', 'double("NaN") + 1.0', "1.5 / 0.0", "1.5 / -0.0", "-1.5 / 0.0", "-1.5 / -0.0", "0.0 / -0.0", "1.0 / 3.0", "1e308 * 10.0", "-1e308 * 10.0", "2.0 * 3.0", "3.0 - 5.0", "0.1 + 0.2",
                                "5e-324 / 2.0", "-0.0 + 0.0", "0.0 + -0.0", "-0.0 * 1.0", "1.0 / (-0.0 + 0.0)", "1.0 / (0.0 * -1.0)"]
from .. import pairhist as _pairhist  # noqa: E402

_pairhist.install(globals(), PH_TEXTS, PH_EXPECTED)


def replay(w):
    wit = w["witness"]
    if wit.get("space") == "pairhist":
        from .. import pairhist
        return pairhist.replay(w)
    part = runner.Part()
    kind, op, path = wit["domain"], wit["op"], wit["path"]
    print("replaying", wit)
    if kind == "double":
        import celpy.celtypes as ct
        a = float(wit["a"])
        b = float(wit["b"]) if wit["b"] is not None else None
        exp = ieee.OPS[op](a, b) if b is not None else ieee.neg(a)
        rk = path[-1] if path[-1] in "IC" and path[:-1] in ("bound", "literal") else "I"
        o = celrun.evaluate(rk, f"x {op} y" if b is not None else "-x", {"x": ct.DoubleType(a), "y": ct.DoubleType(b if b is not None else 0.0)})
        print("expected", exp, "runner", rk, "gives", outcome.short(o), "=", outcome.unfloat(o[2]) if o[0] == "V" and o[1] == "double" else o)
        bad = not (o[0] == "V" and o[1] == "double" and o[2] == ieee.canon(exp))
    else:
        import celpy.celtypes as ct
        cls = ct.IntType if kind == "int" else ct.UintType
        a, b = wit["a"], wit["b"]
        exp = intarith.binop(kind, op, a, b) if b is not None else intarith.neg(kind, a)
        rk = path[-1] if path[-1] in "IC" and path[:-1] in ("bound", "literal") else "I"
        o = celrun.evaluate(rk, f"x {op} y" if b is not None else "-x", {"x": cls(a), "y": cls(b if b is not None else 0)})
        print("expected", exp, "runner", rk, "gives", outcome.short(o))
        bad = not ((exp == ERR and o[0] == "E") or (o[0] == "V" and o[2] == exp))
    print("REPRODUCED" if bad else "not reproduced through the bound-variable path (witness path: %s)" % path)
    return 1 if bad else 0
