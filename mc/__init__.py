"""Model-checking machinery for cloud-custodian/cel-python (see /verif/DESIGN.md)."""
