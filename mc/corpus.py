"""The repository's conformance corpus: every ``When CEL expression ... is evaluated`` of
features/*.feature with its scenario's bindings / container where they are plain celpy values."""
import ast
import glob
import os
import re

from . import repo

_WHEN = re.compile(r"^\s*When CEL expression (.*) is evaluated\s*$")
_BIND = re.compile(r"^\s*Given bindings parameter (\S+) is (.*)$")
_CONT = re.compile(r"^\s*Given container is (.*)$")
_THEN_V = re.compile(r"^\s*Then value is (.*)$")
_THEN_E = re.compile(r"^\s*Then eval_error is (.*)$")


def scenarios():
    """-> list of dict(feature, scenario, tags, expr, bindings_src, container, expect)"""
    out = []
    for path in sorted(glob.glob(os.path.join(repo.REPO, "features", "*.feature"))):
        feat = os.path.basename(path)[:-8]
        cur = None
        tags = []
        pending_tags = []
        for line in open(path, encoding="utf-8"):
            s = line.strip()
            if s.startswith("@"):
                pending_tags = s.split()
                continue
            if s.startswith("Scenario:"):
                cur = {"feature": feat, "scenario": s[9:].strip(), "tags": pending_tags, "bindings_src": {}, "container": None, "expr": None, "expect": None}
                pending_tags = []
                out.append(cur)
                continue
            if s.startswith("Feature:"):
                pending_tags = []
                continue
            if cur is None:
                continue
            m = _BIND.match(line)
            if m:
                try:
                    cur["bindings_src"][ast.literal_eval(m.group(1))] = m.group(2).strip()
                except Exception:  # noqa
                    pass
                continue
            m = _CONT.match(line)
            if m:
                try:
                    cur["container"] = ast.literal_eval(m.group(1))
                except Exception:  # noqa
                    pass
                continue
            m = _WHEN.match(line)
            if m:
                try:
                    cur["expr"] = ast.literal_eval(m.group(1))
                except Exception:  # noqa
                    cur["expr"] = None
                continue
            m = _THEN_V.match(line)
            if m:
                cur["expect"] = ("value", m.group(1).strip())
                continue
            m = _THEN_E.match(line)
            if m:
                cur["expect"] = ("error", m.group(1).strip())
    return [s for s in out if isinstance(s["expr"], str)]


def build_bindings(srcs):
    """Evaluate the scenario's binding sources (the repository's own notation) if they are plain
    celpy values; otherwise None (caller then uses empty bindings)."""
    import celpy  # noqa
    import celpy.celtypes  # noqa
    import datetime  # noqa
    ns = {"celpy": celpy, "datetime": datetime}
    out = {}
    for k, src in srcs.items():
        try:
            out[k] = eval(src, ns)  # noqa: S307 - repository's own fixture notation
        except Exception:  # noqa
            return None
    return out


def expected_value(src):
    import celpy  # noqa
    import celpy.celtypes  # noqa
    import datetime  # noqa
    return eval(src, {"celpy": celpy, "datetime": datetime})  # noqa: S307
