"""Pair histories: a small explicit-history explorer shared by several property modules.

A property module supplies a finite alphabet of *terms* (``ph_terms()``: JSON-able values), the real
step ``ph_step(term) -> outcome`` that drives the library, optionally the reference outcome
``ph_expected(term)`` (``None`` = the property does not rule on it) and a label ``ph_label(term)``.
Every term alone and every ordered pair (a, b) is run as the history [a, b] in one process: the
library's process-wide state is first put back to the worker's pristine snapshot
(``mc/explore/procstate.py``: module- and class-level names and containers, functools caches,
containers carried by functions in defaults / closures / attributes, lark's lazily built lexers), then
``a`` and ``b`` are executed.  Oracle per history: the outcome of ``b`` equals its reference outcome
(when given) and equals the outcome of ``b`` alone.  Nothing is sampled: n + n*n histories.

Soundness: a deviation seen in a worker is reported only after it reproduced in fresh forks of the
pristine parent (the history alone in one fork, the term alone in another); if it only reproduces
after everything that worker ran before, that whole log is the witness; if it reproduces in neither
way the run is a harness error.
"""
import importlib

from . import repo, runner
from .explore import procstate, sched

SPACE = "pair-histories"


def count(modname):
    n = len(importlib.import_module(modname).ph_terms())
    return n + n * n


def _label(mod, term):
    f = getattr(mod, "ph_label", None)
    return f(term) if f else str(term)


def _norm(o):
    """Outcomes cross pipes and JSON files: compare them in one canonical shape."""
    if isinstance(o, (list, tuple)):
        return tuple(_norm(x) for x in o)
    return o


def _judge(exp, alone, got):
    if exp is not None and _norm(got) != _norm(exp):
        return "wrong-outcome"
    if _norm(got) != _norm(alone):
        return "history-dependent"
    return None


def shard(task):
    modname, lo, hi = task
    mod = importlib.import_module(modname)
    repo.load()
    terms = mod.ph_terms()
    expected = getattr(mod, "ph_expected", None)
    n = len(terms)
    part = runner.Part()
    repo.memoise_lark()        # every history starts with no published parser: without the memo each would pay ~80 ms per Environment()
    if hasattr(mod, "ph_prepare"):
        mod.ph_prepare()
    snap = procstate.snapshot()
    alone = {}
    log = []
    left = set()

    def run_hist(hist):
        left.update(procstate.restore(snap))
        o = None
        for t in hist:
            o = mod.ph_step(terms[t])
        log.append(list(hist))
        return o

    done = 0
    for idx in range(lo, hi):
        if idx < n:
            hist = [idx]
        else:
            a, b = divmod(idx - n, n)
            hist = [a, b]
        b = hist[-1]
        if b not in alone:
            alone[b] = run_hist([b])
        got = alone[b] if len(hist) == 1 else run_hist(hist)
        exp = expected(terms[b]) if expected else None
        part.case(nontrivial=True)
        part.outcome("pairhist:" + (mod.ph_outcome_label(got) if hasattr(mod, "ph_outcome_label") else str(got)[:40]))
        kind = _judge(exp, alone[b], got)
        if kind:
            la, lb = (_label(mod, terms[hist[0]]) if len(hist) > 1 else "nothing"), _label(mod, terms[b])
            w = {"space": "pairhist", "module": modname, "history": [terms[h] for h in hist[:-1]], "term": terms[b], "hist_idx": list(hist)}
            if part.violation_count < 3:
                w["worker_log"] = [list(h) for h in log]
            part.violation(f"pairhist:{kind}", f"pairhist:{kind}:{lb}:after:{la}", w,
                           f"{lb} after [{la}] in one process gave {got!r}; alone {alone[b]!r}; reference {exp!r}")
        done += 1
    if lo == 0:
        part.sample({"space": SPACE, "n_terms": n, "first_terms": [_label(mod, t) for t in terms[:6]], "histories": n + n * n})
    part.space(SPACE, 0, done)
    for name in sorted(left):
        part.extra[f"pairhist_left_behind:{name}"] += 1
    return part


def _fresh(modname, hists):
    """In a fresh fork of the (library-free) parent: run each history after restoring the pristine snapshot; last outcomes."""
    mod = importlib.import_module(modname)
    repo.load()
    terms = mod.ph_terms()
    repo.memoise_lark()
    if hasattr(mod, "ph_prepare"):
        mod.ph_prepare()
    snap = procstate.snapshot()
    out = []
    for hist in hists:
        procstate.restore(snap)
        o = None
        for t in hist:
            o = mod.ph_step(terms[t])
        out.append(o)
    return out


def _fork(modname, hists):
    status, res = sched.run_in_fork(_fresh, modname, hists)
    if status != "ok":
        raise runner.HarnessError(f"pair-history confirmation crashed: {res}")
    return res


def run(ctx, modname, nshards=16):
    """Enumerate the module's pair histories into ctx, then confirm what was seen (soundness rule 3)."""
    mod = importlib.import_module(modname)
    total = count(modname)
    before = len(ctx.part.violations)
    ctx.run_shards(shard, [(modname, lo, hi) for lo, hi in runner.shards(total, nshards)])
    ctx.part.spaces[SPACE]["cardinality"] = total
    mine = [v for v in ctx.part.violations[before:] if v["witness"].get("space") == "pairhist"]
    first = {}
    for v in mine:
        first.setdefault(v["sig"], v)
    expected = getattr(mod, "ph_expected", None)
    drop = set()
    confirmed_any = False
    budget = 12                                              # confirmations are forks (seconds each): the first dozen signatures
    unconfirmed = []
    for sig, v in first.items():
        if budget <= 0:
            break
        budget -= 1
        w = v["witness"]
        hist = w["hist_idx"]
        b = hist[-1]
        exp = expected(w["term"]) if expected else None
        alone = _fork(modname, [[b]])[0]
        got = _fork(modname, [hist])[0] if len(hist) > 1 else alone
        if _judge(exp, alone, got):
            confirmed_any = True
            continue
        log = w.get("worker_log")
        if log:
            got2 = _fork(modname, log)[-1]
            if _judge(exp, alone, got2):
                w["history_is_worker_log"] = True
                confirmed_any = True
                continue
        unconfirmed.append(sig)
    if unconfirmed:
        if not confirmed_any:
            raise runner.HarnessError(f"{modname}: pair-history deviation did not reproduce from a fresh process: {unconfirmed[:3]}")
        drop.update(unconfirmed)
        ctx.part.violations[:] = [v for v in ctx.part.violations if v["sig"] not in drop]
        ctx.part.notes.append(f"pair histories: {len(unconfirmed)} signature(s) seen in a worker did not reproduce alone and were dropped in favour of the reproducible ones")
    for v in ctx.part.violations:
        v["witness"].pop("worker_log", None) if not v["witness"].get("history_is_worker_log") else None
    return total


def replay(w):
    wit = w["witness"]
    modname = wit["module"]
    mod = importlib.import_module(modname)
    expected = getattr(mod, "ph_expected", None)
    hist = wit["hist_idx"]
    exp = expected(wit["term"]) if expected else None
    alone = _fork(modname, [[hist[-1]]])[0]
    got = _fork(modname, wit["worker_log"] if wit.get("history_is_worker_log") else [hist])[-1]
    print("history:", [_label(mod, t) for t in wit["history"]], "then", _label(mod, wit["term"]))
    print("alone:", alone, " after history:", got, " reference:", exp)
    bad = _judge(exp, alone, got)
    print("REPRODUCED" if bad else "not reproduced")
    return 1 if bad else 0


def cel_step(rk, text, bindings=None):
    """Common step: compile + program + evaluate ``text`` under runner kind ``rk`` (fresh Environment); outcome without
    the Python class component."""
    from . import celrun
    o = celrun.Prog(rk, text).eval(bindings or {})
    return tuple(o[:3]) if o and o[0] == "V" else tuple(o)


def install(g, texts, expected=None, with_class=False, runners=("I", "C")):
    """Define the ph_* functions of a property module (``g`` = its globals()) for an alphabet of CEL texts evaluated under
    both runners.  ``expected``: text -> outcome (or absent = differential against the term alone only)."""
    from . import outcome as _oc
    expected = expected or {}

    def ph_terms():
        return [[rk, t] for rk in runners for t in texts]

    def ph_step(term):
        from . import celrun
        o = celrun.Prog(term[0], term[1]).eval({})
        return tuple(o) if (with_class or not o or o[0] != "V") else tuple(o[:3])

    def ph_expected(term):
        e = expected.get(term[1])
        return None if e is None else tuple(e)

    def ph_label(term):
        return f"[{term[0]}] {term[1]}"

    def ph_outcome_label(o):
        return _oc.label(o) if o and o[0] in "VEPX" else str(o)[:30]
    g.update(ph_terms=ph_terms, ph_step=ph_step, ph_expected=ph_expected, ph_label=ph_label, ph_outcome_label=ph_outcome_label)
