"""Bind the harness to the tree under test.

``VERIF_REPO`` (default /repo) names the working tree; ``$VERIF_REPO/src`` is put first on
``sys.path`` so a fresh Python process always sees the current sources ("rebuild" for a pure
Python project).  ``load()`` imports celpy and verifies that it really came from that tree.
"""
import os
import sys

REPO = os.path.realpath(os.environ.get("VERIF_REPO", "/repo"))
SRC = os.path.join(REPO, "src")
GUARD = "CELPY_VERIF"

_loaded = False


def load():
    """Import celpy from $VERIF_REPO/src; idempotent."""
    global _loaded
    if _loaded:
        return
    if sys.path[0] != SRC:
        sys.path.insert(0, SRC)
    os.environ.setdefault(GUARD, "1")
    import logging

    logging.disable(logging.CRITICAL)  # the library logs every absorbed error at ERROR level
    import celpy  # noqa

    origin = os.path.realpath(celpy.__file__)
    if not origin.startswith(SRC + os.sep):
        raise RuntimeError(f"celpy imported from {origin}, expected under {SRC}")
    _loaded = True


LARK_MEMO = {}     # the harness's parser cache; procstate puts the lazily built lexer state of these objects back between executions


def memoise_lark():
    """Make ``lark.Lark(grammar, tree_class=...)`` cheap (80 ms -> 0) by caching one parser per
    tree class.  The check-then-create logic of CELParser.__init__ stays the library's own."""
    load()
    import celpy.celparser as cp

    real = cp.Lark
    if getattr(real, "_verif_memo", False):
        return
    cache = LARK_MEMO

    def Lark(grammar, **kw):
        key = (grammar, kw.get("tree_class"), tuple(sorted((k, repr(v)) for k, v in kw.items() if k not in ("tree_class", "lexer_callbacks"))))
        if key not in cache:
            cache[key] = real(grammar, **kw)
        return cache[key]

    Lark._verif_memo = True
    cp.Lark = Lark


def prebuild_parsers():
    """Populate the Lark memo for both tree classes using the library's own constructor
    arguments, then restore the cold state (CEL_PARSER None).  Used by zygotes whose children
    run under sys.settrace, where building the LALR tables would cost seconds."""
    memoise_lark()
    import celpy.celparser as cp
    import lark
    from celpy.evaluation import TranspilerTree

    saved = cp.CELParser.CEL_PARSER
    for tc in (lark.Tree, TranspilerTree):
        cp.CELParser.CEL_PARSER = None
        cp.CELParser(tree_class=tc)
    cp.CELParser.CEL_PARSER = saved
