"""Grammar- and type-directed generator of CEL terms (shared by C03, C04, C13).

A term is a nested tuple; ``text(t)`` prints it with every non-primary operand parenthesised;
``typeof(t)`` is a small reference type checker (None = ill-typed or not decided by this model).
All enumerations are deterministic lists in simplest-first order.
"""
import itertools

KINDS = ["int", "uint", "double", "bool", "string", "bytes", "list", "map", "null_type", "timestamp", "duration"]

LITS = {
    "int": ["1", "-2"],
    "uint": ["1u", "2u"],
    "double": ["1.5", "-0.5"],
    "bool": ["true", "false"],
    "string": ['"a"', '""'],
    "bytes": ['b"a"', 'b""'],
    "list": ["[1, 2]", "[]"],
    "map": ['{"a": 1}', "{}"],
    "null_type": ["null"],
    "timestamp": ['timestamp("2020-01-01T00:00:00Z")', 'timestamp("1999-12-31T23:59:59.5+05:30")'],
    "duration": ['duration("1h")', 'duration("-1.5s")'],
}
VARS = {"int": "vi", "uint": "vu", "double": "vd", "bool": "vb", "string": "vs", "bytes": "vy", "list": "vl", "map": "vm",
        "null_type": "vn", "timestamp": "vt", "duration": "vr"}

BINOPS = ["||", "&&", "<", "<=", ">", ">=", "==", "!=", "in", "+", "-", "*", "/", "%"]
UNOPS = ["!", "-"]
ACCESSORS = ["getDate", "getDayOfMonth", "getDayOfWeek", "getDayOfYear", "getFullYear", "getMonth", "getHours", "getMilliseconds",
             "getMinutes", "getSeconds"]
CONVERSIONS = ["bool", "bytes", "double", "duration", "int", "string", "timestamp", "uint", "type", "dyn", "list", "map", "null_type"]
STRFUNCS2 = ["contains", "startsWith", "endsWith", "matches"]
MACROS = ["all", "exists", "exists_one", "map", "filter"]
PREDICATES = ["v", "v > 1", 'v == "a"', "1 / v > 0", "true", "1"]

EXTREME_RECEIVERS = [("lit", "timestamp", 'timestamp("9999-12-31T23:59:59Z")'), ("lit", "timestamp", 'timestamp("0001-01-01T00:00:00Z")'),
                     ("raw", "double", "1.0 / 0.0"), ("raw", "double", "-1.0 / 0.0"), ("lit", "double", "1e400"), ("lit", "int", "9223372036854775807")]

# error leaves, one per failing mechanism (DESIGN C02)
ERROR_LEAVES = [
    ("ZeroDivisionError", "1 / 0 > 0"),
    ("KeyError-select", "{}.k"),
    ("KeyError-index", '{"a": 1}["b"]'),
    ("IndexError", "[1][5] > 0"),
    ("ValueError", 'int("x") > 0'),
    ("TypeError", '"a" < 1'),
    ("Overflow", "9223372036854775807 + 1 > 0"),
    ("Undeclared", "nope"),
    ("ValueError-subclass", 'timestamp("bad") == timestamp("bad")'),
    ("OverflowError", "int(1e400) > 0"),
    ("MacroBody", "[1].map(v, 1 / 0) == []"),
    ("ErrorValue", '"a".matches("(")'),
]


def lit(kind, i=0):
    return ("lit", kind, LITS[kind][i])


def var(kind):
    return ("var", kind, VARS[kind])


UNBOUND = ("var", None, "nope")


def leaves():
    out = []
    for k in KINDS:
        for i in range(len(LITS[k])):
            out.append(lit(k, i))
    for k in KINDS:
        out.append(var(k))
    out.append(UNBOUND)
    out.append(("lit", "type", "int"))
    return out


def is_primary(t):
    return t[0] in ("lit", "var", "call", "meth", "idx", "sel", "has", "macro", "raw")


def text(t):
    k = t[0]
    if k in ("lit", "var"):
        return t[2]
    if k == "raw":  # ("raw", typ, text): pre-rendered text, treated as needing parentheses
        return t[2]

    def p(x):
        s = text(x)
        if x[0] == "lit" and x[1] in ("int", "uint", "double") or (x[0] == "raw"):
            return f"({s})"  # "1.f" would lex as a float
        if x[0] in ("lit", "var") and not s.startswith("-"):
            return s
        if x[0] in ("call", "has") or (x[0] in ("meth", "idx", "sel", "macro")):
            return s
        return f"({s})"

    if k == "bin":
        return f"{p(t[2])} {t[1]} {p(t[3])}"
    if k == "un":
        return f"{t[1]}{p(t[2])}"
    if k == "idx":
        return f"{p(t[1])}[{text(t[2])}]"
    if k == "sel":
        return f"{p(t[1])}.{t[2]}"
    if k == "has":
        return f"has({p(t[1])}.{t[2]})"
    if k == "call":
        return f"{t[1]}({', '.join(text(a) for a in t[2:])})"
    if k == "meth":
        return f"{p(t[1])}.{t[2]}({', '.join(text(a) for a in t[3:])})"
    if k == "macro":
        return f"{p(t[1])}.{t[2]}({t[3]}, {t[4]})"
    if k == "cond":
        return f"{p(t[1])} ? {p(t[2])} : {p(t[3])}"
    raise ValueError(t)


# ------------------------------------------------------------------------------------------ typing
NUM = ("int", "uint", "double")
ORDERED = ("int", "uint", "double", "string", "bytes", "bool", "timestamp", "duration")


def typeof(t):
    """CEL type of a well-typed term of this signature, else None (ill-typed, dynamic, or an
    evaluation error is possible for reasons this model does not track)."""
    k = t[0]
    if k == "lit":
        return t[1]
    if k == "var":
        return t[1]
    if k == "raw":
        return t[1]
    if k == "un":
        a = typeof(t[2])
        if t[1] == "!":
            return "bool" if a == "bool" else None
        return a if a in ("int", "double") else None
    if k == "bin":
        op, a, b = t[1], typeof(t[2]), typeof(t[3])
        if a is None or b is None:
            return None
        if op in ("||", "&&"):
            return "bool" if a == b == "bool" else None
        if op in ("==", "!="):
            return "bool" if a == b and a != "type" else None
        if op in ("<", "<=", ">", ">="):
            return "bool" if a == b and a in ORDERED else None
        if op == "in":
            return None  # element types are not tracked
        if op == "+":
            if a == b and a in NUM + ("string", "bytes", "list", "duration"):
                return a
            if (a, b) in (("timestamp", "duration"), ("duration", "timestamp")):
                return "timestamp"
            return None
        if op == "-":
            if a == b and a in NUM + ("duration",):
                return a
            if (a, b) == ("timestamp", "duration"):
                return "timestamp"
            if (a, b) == ("timestamp", "timestamp"):
                return "duration"
            return None
        if op in ("*", "/"):
            return a if a == b and a in NUM else None
        if op == "%":
            return a if a == b and a in ("int", "uint") else None
    if k == "cond":
        c, a, b = typeof(t[1]), typeof(t[2]), typeof(t[3])
        return a if c == "bool" and a == b and a is not None else None
    if k == "has":
        return "bool" if typeof(t[1]) == "map" else None
    if k == "call" or k == "meth":
        if k == "call":
            name, args = t[1], t[2:]
        else:
            name, args = t[2], (t[1],) + tuple(t[3:])
        at = [typeof(a) for a in args]
        if any(x is None for x in at):
            return None
        if name == "size" and len(at) == 1 and at[0] in ("string", "bytes", "list", "map"):
            return "int"
        if name in ("startsWith", "endsWith", "matches") and at == ["string", "string"] and k == "meth":
            return "bool"
        if name == "contains" and at == ["string", "string"] and k == "meth":
            return "bool"
        if name in ACCESSORS and k == "meth" and at[0] == "timestamp" and (len(at) == 1):
            return "int"
        if name in ("getHours", "getMinutes", "getSeconds", "getMilliseconds") and k == "meth" and at == ["duration"]:
            return "int"
        if name == "type" and k == "call" and len(at) == 1:
            return "type"
        if name == "dyn" and k == "call" and len(at) == 1:
            return at[0]
        if k == "call" and len(at) == 1:
            src = at[0]
            ok = {
                "int": ("int", "uint", "double", "timestamp"),   # string needs a parsable text: not tracked
                "uint": ("uint",),                               # int/double may be negative: value-dependent
                "double": ("int", "uint", "double"),
                "string": ("int", "uint", "double", "string", "bool", "timestamp", "duration"),
                "bytes": ("bytes", "string"),
                "bool": ("bool",),
                "timestamp": ("timestamp",),
                "duration": ("duration",),
            }.get(name)
            if ok and src in ok:
                return name
        return None
    if k == "macro":
        return None  # decided in C13 by dedicated cases
    return None


# ------------------------------------------------------------------------------------------ spaces
def level1(leafset=None, reduced=None):
    """Every operator / function / macro applied to every leaf tuple."""
    L = leafset or leaves()
    R = reduced or [lit("bool", 0), lit("bool", 1), lit("int", 0), lit("string", 0), var("bool"), var("int"), UNBOUND, ("raw", None, "1 / 0 > 0")]
    out = []
    for op in BINOPS:
        for a in L:
            for b in L:
                out.append(("bin", op, a, b))
    for op in UNOPS:
        for a in L:
            out.append(("un", op, a))
    for a in L:
        for b in (lit("int", 0), lit("int", 1), lit("uint", 0), lit("double", 0), lit("string", 0), lit("bool", 0), var("int"), var("string"), ("lit", "int", "0"), ("lit", "int", "-1")):
            out.append(("idx", a, b))
        for f in ("a", "nope"):
            out.append(("sel", a, f))
            out.append(("has", a, f))
    for a in L:
        out.append(("call", "size", a))
        out.append(("meth", a, "size"))
        for f in CONVERSIONS:
            out.append(("call", f, a))
        for f in ACCESSORS:
            out.append(("meth", a, f))
            out.append(("meth", a, f, lit("string", 0)))
            out.append(("meth", a, f, ("lit", "string", '"+05:30"')))
        for b in L:
            for f in STRFUNCS2:
                out.append(("meth", a, f, b))
        for m in MACROS:
            for pr in PREDICATES:
                out.append(("macro", a, m, "v", pr))
    for c in R:
        for a in R:
            for b in R:
                out.append(("cond", c, a, b))
    # receivers at the edge of the representable range, in method form (accessors with a zone that
    # pushes the local date out of years 1..9999; conversions written as methods)
    # lists whose elements make a predicate fail twice in a row before a deciding element
    for recv in (("lit", "list", "[0, 0, 1]"), ("lit", "list", "[0, 0, 2]"), ("lit", "list", "[0, 1, 0]")):
        for m in MACROS:
            for pr in PREDICATES + ["1 / v == 1"]:
                out.append(("macro", recv, m, "v", pr))
    for recv in EXTREME_RECEIVERS:
        for f in ACCESSORS:
            for z in ('"+01:00"', '"-00:01"', '"Europe/Paris"', '"+14:00"', '"-14:00"'):
                out.append(("meth", recv, f, ("lit", "string", z)))
        for f in ("int", "uint", "string", "size", "double"):
            out.append(("meth", recv, f))
    return out


def typed_results():
    """One well-typed level-1 term per result kind (operands of level 2)."""
    return [
        ("bin", "+", lit("int"), var("int")),
        ("bin", "*", lit("uint"), var("uint")),
        ("bin", "/", lit("double"), var("double")),
        ("bin", "<", var("int"), lit("int")),
        ("bin", "+", lit("string"), var("string")),
        ("bin", "+", lit("bytes"), var("bytes")),
        ("bin", "+", lit("list"), var("list")),
        ("macro", var("list"), "map", "v", "v"),
        ("bin", "+", lit("timestamp"), var("duration")),
        ("bin", "-", lit("timestamp"), var("timestamp")),
        ("has", var("map"), "a"),
        ("meth", var("string"), "startsWith", lit("string")),
        ("call", "size", var("list")),
        ("idx", var("map"), lit("string")),
        ("macro", var("list"), "exists", "v", "v > 1"),
        ("call", "type", var("int")),
    ]


SPELLINGS = ["007", "-007", "007u", "0x1F", "-0x1f", "0xFFu", "1e3", "1E+3", ".5", "5.", "1.0e-3", "'a'", '"""a"""', "'''a'''", 'r"a\\n"', "R'a'",
             'b"\\xff"', "b'\\377'", '"\\u00e9"', '"\\U0001F600"', 'b"\\u00e9"', '"\\x41"', '"\\101"', '"\\a\\b\\f\\n\\r\\t\\v\\\\\\"\\\'"', "9223372036854775807",
             "-9223372036854775808", "18446744073709551615u", "9223372036854775808", "18446744073709551616u", "1e400"]


def level2(full=False):
    ops = typed_results() + [("raw", None, e) for _n, e in ERROR_LEAVES] + [("raw", None, s) for s in SPELLINGS] + [lit("bool", 0), lit("bool", 1), lit("int", 0), lit("null_type", 0)]
    out = []
    roots_bin = BINOPS if full else ["||", "&&", "==", "!=", "in", "+", "<"]
    for op in roots_bin:
        for a in ops:
            for b in ops:
                out.append(("bin", op, a, b))
    for op in UNOPS:
        for a in ops:
            out.append(("un", op, a))
    conds = ops if full else [o for o in ops if o[0] != "raw" or o[2] in dict((e, n) for n, e in ERROR_LEAVES)][:16]
    for c in conds:
        for a in (ops if full else ops[:12] + ops[16:24]):
            for b in (ops if full else ops[:6] + ops[16:20]):
                out.append(("cond", c, a, b))
    # field selection / has / index on results that are maps (also maps with a null entry), at the TOP of the expression
    maps = [("raw", "map", '{"a": null, "b": 1}'), ("cond", var("bool"), lit("map", 0), var("map")), ("raw", "map", 'true || false ? {"a": 1} : {"a": 2}'),
            ("raw", "map", '[{"a": 1}, {"a": null}].filter(e, true)[1]'), ("raw", "map", 'vm.a > 0 || true ? vm : {"a": null}'), var("map"), lit("map", 0)]
    for mterm in maps:
        for f in ("a", "b", "zz"):
            out.append(("sel", mterm, f))
            out.append(("has", mterm, f))
            out.append(("bin", "==", ("sel", mterm, f), lit("null_type", 0)))
            out.append(("bin", "+", ("sel", mterm, f), lit("int", 0)))
            out.append(("idx", mterm, ("lit", "string", f'"{f}"')))
            out.append(("sel", ("sel", ("raw", "map", '{"m": ' + text(mterm) + "}"), "m"), f))
    for a in ops:
        ta = text(a)
        out.append(("raw", None, f"[{ta}]"))
        out.append(("raw", None, f'{{"k": {ta}}}'))
        out.append(("raw", None, f"{{{ta}: 1}}"))
        out.append(("raw", None, f"[[{ta}], 1]"))
        out.append(("has", a, "a"))
        out.append(("call", "size", a))
        out.append(("call", "type", a))
        out.append(("call", "string", a))
        out.append(("call", "int", a))
        for m in MACROS:
            for pr in PREDICATES + ["has(v.a)", "v || true", "!v", "[v].exists(w, w == v)"]:
                out.append(("macro", a, m, "v", pr))
        for b in (ops if full else ops[:16]):
            out.append(("idx", a, b))
            out.append(("meth", a, "contains", b))
    return out


def limits_family():
    """Each repeating / recursive construct at sizes up to CEL's stated minimum limits."""
    out = []
    for n in range(1, 33):
        out.append(("raw", None, " || ".join(["false"] * (n - 1) + ["vb"])))
        out.append(("raw", None, " && ".join(["true"] * (n - 1) + ["vb"])))
    for n in range(1, 25):
        out.append(("raw", None, " + ".join(["1"] * n)))
        out.append(("raw", None, " * ".join(["1"] * n)))
        out.append(("raw", None, " < ".join(["1"] * n)))
        out.append(("raw", None, "".join(["vb ? 1 : "] * n) + "0"))
        out.append(("raw", None, " == ".join(["vi"] * n)))
    for n in range(1, 13):
        out.append(("raw", None, "(" * n + "1" + ")" * n))
        out.append(("raw", None, "size(" * n + "vl" + ")" * n))
        out.append(("raw", None, "[" * n + "1" + "]" * n))
        out.append(("raw", None, "!" * n + "vb"))
        out.append(("raw", None, "-" * n + "vi"))
        out.append(("raw", None, "vm" + ".a" * n))
        out.append(("raw", None, "vl" + "[0]" * n))
        out.append(("raw", None, "dyn(" * n + "1" + ")" * n))
    # odd but parseable shapes: escapes that denote nothing, macros and macro-like functions with the wrong
    # argument shape, heterogeneous min(), message literals, zone names that are not zones, huge double indexes
    odd = ['"\\UFFFFFFFF"', 'b"\\U0001F431"', '"\\U00110000"', "b'\\UFFFFFFFF'", '"\\uD800"', "has()", "dyn()", "has(vm.a, 1)", "dyn(1, 2)", "has(1)", "has(vm)",
           '[1, "a"].min()', "[].min()", "[null].min()", "[1].min(x)", "[1].map(1, 2)", "[1].map(x + y, 2)", "[1].all()", "[1].exists(x)", "[1].map(x, y, z)", "[1].reduce(r, i, 0)",
           "vl.map(vl, vl)", "[1].filter(1, true)", "Msg{a: 1, a: 2}", "Msg{a: 1}", "Msg{}", "vm{a: 1}", "vi{}", '"a"{b: 1}', "x - in", "class + 1", "is", "lambda.a", "[1].map(class, class)",
           'vt.getHours("America")', 'vt.getHours("Europe")', 'vt.getHours("")', 'vt.getHours("+25:00")', 'vt.getHours("UTC+1")', 'vt.getDate("Etc")', 'vr.getHours("UTC")',
           "vl[1e19]", "vl[-1e19]", "vl[1e300]", "vl[0.0]", "vl[1u]", "vm[1e19]", 'duration("s")', 'duration(".s")', 'duration("-h")', 'duration("1h.m")', 'duration("")', 'timestamp("America")',
           'timestamp("")', "int(\"\")", 'double("")', "uint(\"-\")", "bytes(1)", "string([1])", "type()", "type(1, 2)", "size()", "size(1, 2)", "vs.contains()", "vs.startsWith(1, 2)", "matches()",
           'vs.matches("(")', 'vs.matches("\\\\")', "-vs", "!vi", "-vn", "-vb", "vl + vm", "vm in vm", "vn in vn", "vl[vl]", "vm[vm]", "vm[vl]", "{vl: 1}", "{vm: 1}", "{1.5: 1}", "{null: 1}", "[1][true]"]
    # every macro with every shape of a first argument that contains exactly one name but is not an identifier
    # (plus the parenthesised identifier, which is one), with a body that does and does not mention the name
    for mac, body in (("map", "2"), ("map", "x"), ("filter", "true"), ("all", "true"), ("exists", "true"), ("exists", "x == 1"), ("exists_one", "true")):
        for var in ("(x)", "((x))", "x.y", "x[0]", "-x", "!x", "f(x)", "[x]", "{x: 1}", '{"k": x}', "x ? 1 : 2", "x.f()", "x + x", "x()", "x || true", "x in [1]", ".x", "x.y.z", "vl[0]", "dyn(x)", "(dyn(x))", "dyn((x))", "int(x)"):
            odd.append(f"[1].{mac}({var}, {body})")
    # identifiers that are legal CEL names but attribute names of Python objects the evaluators use, as macro
    # variables and as bound / unbound variables; leading-dot (root-scope) calls and names
    for name in AWKWARD_NAMES:
        odd += [f"[1, 2].map({name}, {name})", f"[1, 2].filter({name}, {name} > 1)", f"[1].exists({name}, {name} == 1)", f"{name}", f"{name} == 7", f"{name}.x"]
    odd += ["-0x0u", "-0x0", "-0x1u", "-0u", "- 0u", "-(0u)", "1u + -0u", 'google.protobuf.Struct{a: 1}.b', 'has(google.protobuf.Struct{a: 1}.b)', 'google.protobuf.Struct{a: 1}.b == 1 || true',
            'google.protobuf.Struct{a: 1}.a']
    # message literals and conversions of messages (every failure mode of the constructor), string %, long chains of
    # failing && / || terms (the CEL minimum is 32), reduce() variables
    odd += ["google.protobuf.Int64Value{valu: 1}", "google.protobuf.Int32Value{value: 1e999}", "getDate{}", "size{}", "vi{a: 1}", "int(google.protobuf.Struct{a: 1})",
            "google.protobuf.Struct{a: 1}.bool()", "double(google.protobuf.Struct{a: 1})", "uint(google.protobuf.Struct{})", "google.protobuf.Struct{self: 1}", "google.protobuf.Struct{cls: 1, args: 2}",
            '"%(k)s" % {"j": 1}', '"%s" % "a"', '"%d" % 1', '1 % "a"', "[1].reduce(r, 1, 0, r)", "[1, 2].reduce(r, i + j, 0, r)", "[1].reduce(1, i, 0, r)",
            " && ".join(f"vm.k{i}" for i in range(32)), " || ".join(f"vm.k{i}" for i in range(32)), " && ".join(["(1 / 0 > 0)"] * 32), "[" + ", ".join(["1"] * 32) + "].all(v, v.x)",
            "[" + ", ".join(["1"] * 32) + "].exists(v, v.x)", "[" + ", ".join(["1"] * 32) + "].all(v, v)"]
    odd += ['.size("abc")', ".string(1)", '.int("1")', ".size([1, 2]) + 1", ".vi", ".vi + 1", ".vm.a", ".nope", ".f(1)", '[1].map(v, .size("ab"))']
    # non-finite doubles (computed: they have no literal) in every position that takes a number
    for x in ("(1.0 / 0.0)", "(-1.0 / 0.0)", "(0.0 / 0.0)"):
        odd += [t.replace("X", x) for t in ("vl[X]", "vm[X]", "vs[X]", "[1, 2, 3][X]", "{X: 1}", "{X: 1}[X]", "X in vl", "X in vm", "X in [X]", "int(X)", "uint(X)", "string(X)", "double(X)", "bool(X)", "bytes(X)",
                                            "duration(X)", "timestamp(X)", "type(X)", "X + vi", "vi + X", "X * vd", "X % X", "X / X", "X - X", "X == X", "X < X", "X < vi", "vi < X", "vu < X", "-X", "!X", "X ? 1 : 2",
                                            "size(X)", "X.size()", "vt + X", "vr * X", "vt.getHours(X)", "vs.matches(X)", "vs.contains(X)", "[X].map(v, vl[v])", "[X].exists(v, v > 1.0)", "vb && vl[X] == 1", "false && vl[X] == 1", "true || vl[X] == 1",
                                            "vl[int(X)]", "vl[uint(X)]", "string(int(X))")]
    for o in odd:
        out.append(("raw", None, o))
        out.append(("raw", None, f"({o}) == 1 || true"))
        out.append(("raw", None, f"[1].map(v, {o})"))
    for n in (1, 2, 16, 32, 64):
        out.append(("raw", None, "[" + ", ".join(str(i) for i in range(n)) + "]"))
        out.append(("raw", None, "{" + ", ".join(f"{i}: {i}" for i in range(n)) + "}"))
        out.append(("raw", None, "size([" + ", ".join(str(i) for i in range(n)) + "])"))
    return out


# ------------------------------------------------------------------------------------------ activations
def activations():
    """name -> dict kind -> python constructor spec; built inside workers (needs celpy)."""
    import datetime

    import celpy.celtypes as ct

    right = {
        "int": ct.IntType(3), "uint": ct.UintType(4), "double": ct.DoubleType(2.5), "bool": ct.BoolType(True), "string": ct.StringType("ab"),
        "bytes": ct.BytesType(b"ab"), "list": ct.ListType([ct.IntType(1), ct.IntType(2), ct.IntType(3)]),
        "map": ct.MapType({ct.StringType("a"): ct.IntType(7)}), "null_type": None,
        "timestamp": ct.TimestampType(datetime.datetime(2021, 3, 4, 5, 6, 7, tzinfo=datetime.timezone.utc)),
        "duration": ct.DurationType(datetime.timedelta(seconds=90)),
    }
    acts = {"empty": {}, "right": {VARS[k]: v for k, v in right.items()}}
    rot = KINDS[1:] + KINDS[:1]
    acts["wrong"] = {VARS[k]: right[k2] for k, k2 in zip(KINDS, rot)}
    # variables whose names are attribute names of the evaluator's own objects (see AWKWARD_NAMES)
    # (no dotted names here: a macro variable that is also the head of a dotted binding is C12's known finding)
    acts["right"].update({"package": ct.IntType(7), "functions": ct.IntType(8), "get": ct.StringType("g")})
    acts["wrong"].update({"package": ct.StringType("p"), "functions": ct.ListType([]), "get": ct.IntType(1)})
    acts["partial"] = {VARS[k]: right[k] for k in ("int", "bool", "string", "list", "timestamp")}
    acts["partial"]["get"] = ct.StringType("g")
    acts["empty-again"] = {}
    return acts


# The activations are applied in this order to ONE program object per term: "partial" (a proper subset of the names bound
# just before) and "empty-again" come after the full ones, so a runner that lets a binding of an earlier evaluate() survive
# answers differently from one that does not.
ACT_NAMES = ["empty", "right", "wrong", "partial", "empty-again"]


def activation_sequence(upto):
    """The activations a program has seen when it is evaluated under ``upto`` (for replays)."""
    return ACT_NAMES[:ACT_NAMES.index(upto) + 1] if upto in ACT_NAMES else [upto]
AWKWARD_NAMES = ["functions", "package", "get", "clone", "identifiers", "resolve_variable", "resolve_function", "nested_activation", "__class__", "__dict__",
                 "__init__", "self", "activation", "celpy", "result", "logger", "CEL", "ex_1", "ex_10"]
