"""Harness-only performance helper (no effect on what is computed).

CPython 3.11+ keeps interpreter frames on a per-thread "data stack" made of 16 KiB chunks that are
mmap'ed when the recursion crosses a chunk boundary and munmap'ed as soon as it returns below it.  The
library's tree-walking evaluator recurses ~10 Python frames per CEL sub-expression, so every evaluation
crosses such a boundary several times; on this sandbox each crossing costs ~0.5 ms of system time and
the checks spend more time in mmap/munmap than in the library (measured: 1000 evaluations of
``a && (b || c)``: user 0.47 s + sys 0.48 s without, user 0.22 s + sys 0.00 s with this helper).

``call(fn, *args)`` runs ``fn(*args)`` underneath one frame that has ~60 000 unused local-variable
slots.  That frame cannot fit a 16 KiB chunk, so CPython allocates one large chunk (1 MiB) for it, and
every frame pushed while it is alive lives in the remainder of that chunk: no more chunk churn.
"""

_TRAMPOLINE = None
SLOTS = 60000


def _make(slots):
    def trampoline(fn, args):
        return fn(*args)

    code = trampoline.__code__
    names = tuple(code.co_varnames) + tuple(f"_pad{i}" for i in range(slots))
    trampoline.__code__ = code.replace(co_varnames=names, co_nlocals=len(names))
    return trampoline


def prepare():
    """Build the trampoline (about a second); call in the parent before forking workers."""
    global _TRAMPOLINE
    if _TRAMPOLINE is None:
        try:
            _TRAMPOLINE = _make(SLOTS)
        except Exception:  # noqa  -- any surprise from code.replace: fall back to a plain call
            _TRAMPOLINE = lambda fn, args: fn(*args)  # noqa: E731
    return _TRAMPOLINE


def call(fn, *args):
    return prepare()(fn, args)
