"""Canonical, hashable, picklable outcomes of API calls (DESIGN.md section 2.2).

V = ("V", celtype, plain, pyclass)    value
E = ("E",)                            celpy CELEvalError (message ignored)
P = ("P", line, col)                  celpy CELParseError
X = ("X", stage, classname)           any other exception

Comparisons never use the library's own __eq__.
"""
import datetime
import re
import struct

from . import repo

_ADDR = re.compile(r"0x[0-9a-fA-F]+")
_EPOCH_NAIVE = datetime.datetime(1, 1, 1)


def _fbits(f):
    return struct.pack(">d", float(f)).hex()


def celtype_of(v):
    """CEL type name of a Python object, judged by its *base* classes (so that a raw float
    is still 'double'); the exact class is reported separately as pyclass."""
    if v is None:
        return "null_type"
    if isinstance(v, bool):
        return "bool"
    import celpy.celtypes as ct

    if isinstance(v, ct.BoolType):
        return "bool"
    if isinstance(v, ct.UintType):
        return "uint"
    if isinstance(v, int):
        return "int"
    if isinstance(v, float):
        return "double"
    if isinstance(v, str):
        return "string"
    if isinstance(v, bytes):
        return "bytes"
    if isinstance(v, (list, tuple)):
        return "list"
    if isinstance(v, dict):
        return "map"
    if isinstance(v, datetime.datetime):
        return "timestamp"
    if isinstance(v, datetime.timedelta):
        return "duration"
    if isinstance(v, type):
        return "type"
    return "other"


def plain(v):
    """Nested-tuple canonical form of a value; floats by bits, timestamps by microseconds."""
    t = celtype_of(v)
    if t == "null_type":
        return None
    if t == "bool":
        return bool(int(v))
    if t in ("int", "uint"):
        return int(v)
    if t == "double":
        f = float(v)
        return "nan" if f != f else _fbits(f)
    if t == "string":
        return str.__str__(v) if type(v) is str else "".join(str.__iter__(v))
    if t == "bytes":
        return bytes(v).hex()
    if t == "list":
        return tuple((celtype_of(x), plain(x)) for x in list.__iter__(v)) if isinstance(v, list) else tuple((celtype_of(x), plain(x)) for x in v)
    if t == "map":
        items = []
        for k in dict.keys(v):
            items.append(((celtype_of(k), plain(k)), (celtype_of(dict.__getitem__(v, k)), plain(dict.__getitem__(v, k)))))
        items.sort(key=repr)
        return tuple(items)
    if t == "timestamp":
        try:
            off = v.utcoffset() if v.tzinfo is not None else None
        except Exception as ex:  # noqa - a timestamp whose zone is unusable is still an observable value
            return ("unusable-timestamp", type(ex).__name__)
        off = off or datetime.timedelta(0)
        naive = datetime.datetime(v.year, v.month, v.day, v.hour, v.minute, v.second, v.microsecond)
        delta = naive - _EPOCH_NAIVE
        us = (delta.days * 86400 + delta.seconds) * 1000000 + delta.microseconds
        return us - ((off.days * 86400 + off.seconds) * 1000000 + off.microseconds)
    if t == "duration":
        return (v.days * 86400 + v.seconds) * 1000000 + v.microseconds  # timedelta fields, not methods
    if t == "type":
        return getattr(v, "__name__", repr(v))
    return (type(v).__name__, _ADDR.sub("0x", repr(v))[:200])


def pyclass(v):
    """Class names recursively (used by C13): a string for a scalar, ("L", name, (elements...))
    for a list, ("M", name, ((key, value)...)) for a map."""
    t = celtype_of(v)
    name = type(v).__name__ if not isinstance(v, type) else "type:" + v.__name__
    if t == "list":
        return ("L", name, tuple(pyclass(x) for x in (list.__iter__(v) if isinstance(v, list) else v)))
    if t == "map":
        items = sorted(((pyclass(k), pyclass(dict.__getitem__(v, k))) for k in dict.keys(v)), key=repr)
        return ("M", name, tuple(items))
    return name


def top_class(pc):
    return pc if isinstance(pc, str) else pc[1]


def all_classes(pc):
    """flat list of every class name in a pyclass tree"""
    if isinstance(pc, str):
        return [pc]
    out = [pc[1]]
    if pc[0] == "L":
        for x in pc[2]:
            out += all_classes(x)
    else:
        for k, v in pc[2]:
            out += all_classes(k) + all_classes(v)
    return out


def V(v):
    return ("V", celtype_of(v), plain(v), pyclass(v))


E = ("E",)


def of_exception(ex, stage):
    repo.load()
    import celpy
    from celpy.celparser import CELParseError

    if isinstance(ex, celpy.CELEvalError):
        return E
    if isinstance(ex, CELParseError):
        return ("P", ex.line, ex.column)
    return ("X", stage, type(ex).__name__)


def kind(o):
    return o[0]


def same_value(a, b):
    """V≍V iff same CEL type and same plain value; E≍E."""
    if a[0] != b[0]:
        return False
    if a[0] == "V":
        return a[1] == b[1] and a[2] == b[2]
    if a[0] == "E":
        return True
    return a == b


def short(o):
    if o[0] == "V":
        p = o[2]
        s = repr(p)
        if len(s) > 60:
            s = s[:57] + "..."
        return f"V({o[1]},{s})"
    if o[0] == "E":
        return "E"
    if o[0] == "P":
        return f"P({o[1]},{o[2]})"
    return f"X({o[1]},{o[2]})"


def label(o):
    """Coarse outcome class for the evidence's outcome_classes histogram."""
    if o[0] == "V":
        return "V:" + o[1]
    if o[0] == "X":
        return f"X:{o[1]}:{o[2]}"
    return o[0]


def unfloat(bits):
    if bits == "nan":
        return float("nan")
    return struct.unpack(">d", bytes.fromhex(bits))[0]


def run(fn, stage="evaluate"):
    """Call fn(); fold its result or exception into an outcome."""
    try:
        v = fn()
    except RecursionError as ex:  # keep the class, do not let it kill the worker
        return ("X", stage, type(ex).__name__)
    except Exception as ex:  # noqa
        return of_exception(ex, stage)
    repo.load()
    import celpy

    if isinstance(v, celpy.CELEvalError):
        return E
    return V(v)
